package main

// Devirtualised composition: Update and GetCheckpoint explored with the witness's persistence bound to each
// concrete store, so that the storage discipline is checked end to end on the composed paths
// (independent of how a store's handle carries its state: closure, method value or fields).

import (
	"fmt"
	"strings"

	"golang.org/x/tools/go/ssa"
)

type composed struct {
	store  string // "inmemory" | "sql"
	preset *Term
	sums   []Summary
	eng    *Engine
	fn     *ssa.Function
	logID  *Term
	recv   *Term
}

var composedCache = map[string]*composed{}

func presetFor(w *World, store string) (*Term, bool) {
	t := storeType(w, store)
	if t == nil {
		return nil, false
	}
	return mk("preset", store, 0, t), true
}

// compose explores root (a method of *Witness) with w.lsp bound to the given store; opaque names stay events.
func compose(w *World, r *Run, rule, root, store string, opaque ...string) (*composed, bool) {
	key := fmt.Sprintf("%p|%s|%s|%v", w, root, store, opaque)
	r.Assume("errors produced by database/sql (and plain fmt.Errorf/errors.New errors over them) do not implement GRPCStatus: status.Code of such an error is never NotFound")
	if c, ok := composedCache[key]; ok {
		r.Analysed(root+" ∘ "+store, len(c.sums))
		return c, true
	}
	fn := w.fn(root)
	if fn == nil {
		r.Undecided(rule, root, "", "anchor not found")
		return nil, false
	}
	preset, ok := presetFor(w, store)
	if !ok {
		r.Undecided(rule, store+" persistence type", "", "not found")
		return nil, false
	}
	e := w.engine(8, 1)
	for _, o := range opaque {
		e.opaque[o] = true
	}
	recv := recvParam(fn)
	e.bind = map[string]*Term{fieldByType(recv, "persistence.LogStatePersistence").key: preset}
	sums := e.Explore(fn)
	for _, s := range sums {
		if s.Trunc != "" {
			r.Undecided(rule, root+" ∘ "+store, "", "path enumeration truncated: "+s.Trunc)
			return nil, false
		}
	}
	if len(sums) == 0 {
		r.Undecided(rule, root+" ∘ "+store, "", "no path")
		return nil, false
	}
	c := &composed{store: store, preset: preset, sums: sums, eng: e, fn: fn, recv: recv}
	c.logID, _ = paramByType(fn, "string")
	composedCache[key] = c
	r.Analysed(root+" ∘ "+store, len(sums))
	return c, true
}

// C05.d / C12.b on Update ∘ inmemory and GetCheckpoint ∘ inmemory: every access to the checkpoint map is keyed by the
// request's log ID; the read API returns the value stored under that ID. (The compare-and-set itself: ruleCompareAndSet.)
func ruleComposedInMemory(w *World, r *Run, rule string) {
	ruleCompareAndSet(w, r, rule)
	for _, root := range []string{fnUpdate, fnGetCheckpoint} {
		c, ok := compose(w, r, rule, root, "inmemory")
		if !ok {
			continue
		}
		ck := memMapField(c.preset)
		if ck == nil {
			r.Undecided(rule, "in-memory store | checkpoint map", "", "the store does not hold exactly one map")
			return
		}
		n := 0
		for _, s := range c.sums {
			for _, ev := range s.Events {
				if (ev.Kind == "mapread" || ev.Kind == "mapupdate") && ev.Recv == ck && len(ev.Args) >= 1 {
					n++
					r.Check(ev.Args[0] == c.logID, rule, root+" ∘ inmemory | map access keyed by the request's log ID", w.pos(ev.Pos), "the in-memory store accesses entry "+short(ev.Args[0].String())+" while serving a request for another log ID")
				}
			}
			if root == fnGetCheckpoint && len(s.Rets) == 2 && s.Rets[1].Kind == "nil" {
				good := anySub(s.Rets[0], func(t *Term) bool {
					return t.Kind == "lookup" && t.Name == "val" && t.Args[0] == ck && t.Args[1] == c.logID
				})
				r.Check(good, rule, fnGetCheckpoint+" ∘ inmemory | returns the bytes stored for the requested log ID", w.pos(s.RetPos), "GetCheckpoint returns "+short(s.Rets[0].String()))
			}
		}
		if n == 0 {
			r.Undecided(rule, root+" ∘ inmemory", "", "no access to the checkpoint map on any composed path")
		}
	}
}

func keyOf(t *Term) string {
	if t == nil {
		return ""
	}
	return t.key
}

func sqlMethod(ev Event) (method string, onTx, onDB bool) {
	if ev.Kind != "call" {
		return "", false, false
	}
	for _, p := range []string{"(*database/sql.Tx).", "(*database/sql.DB)."} {
		if strings.HasPrefix(ev.Callee, p) {
			return strings.TrimPrefix(ev.Callee, p), p[15] == 'T', p[15] == 'D'
		}
	}
	return "", false, false
}

// C05.e / C06.a / C12.b on Update ∘ sql: one transaction per write operation; read, statement and commit on it, keyed by
// the request's log ID; exact order Begin → QueryRow → Exec → Commit → (return) → Rollback.
func ruleComposedSQL(w *World, r *Run, rule string) {
	c, ok := compose(w, r, rule, fnUpdate, "sql")
	if !ok {
		return
	}
	db := fieldByType(c.preset, "*sql.DB")
	nSucc := 0
	for _, s := range c.sums {
		var begin, query, exec, commit, rollback *Event
		nBegin := 0
		for i := range s.Events {
			ev := s.Events[i]
			m, onTx, onDB := sqlMethod(ev)
			switch {
			case onDB && (m == "Begin" || m == "BeginTx"):
				nBegin++
				begin = &s.Events[i]
				r.Check(ev.Recv == db, rule, fnUpdate+" ∘ sql | transaction begun on the store's own database", w.pos(ev.Pos), "Begin on "+short(fmt.Sprint(ev.Recv)))
			case onDB && m != "":
				r.Fail(rule, fnUpdate+" ∘ sql | nothing bypasses the transaction", w.pos(ev.Pos), "the update path uses the connection pool directly ("+m+") instead of its transaction: the read or write is not isolated from a concurrent writer")
			case onTx && strings.HasPrefix(m, "Query"):
				query = &s.Events[i]
			case onTx && strings.HasPrefix(m, "Exec"):
				exec = &s.Events[i]
			case onTx && m == "Commit":
				commit = &s.Events[i]
			case onTx && m == "Rollback":
				rollback = &s.Events[i]
			}
		}
		if begin == nil {
			continue
		}
		if nBegin != 1 {
			r.Fail(rule, fnUpdate+" ∘ sql | one transaction per update", w.pos(begin.Pos), fmt.Sprintf("%d transactions begun on one update path", nBegin))
			continue
		}
		tx := res(*begin, 0)
		if failed(s, *begin) {
			r.Check(query == nil && exec == nil && commit == nil, rule, fnUpdate+" ∘ sql | failed Begin leaves nothing behind", w.pos(begin.Pos), "statements run although Begin failed")
			continue
		}
		key := fnUpdate + " ∘ sql | read, statement and commit on the one transaction, keyed by the request's log ID"
		good := true
		why := ""
		for _, ev := range []*Event{query, exec, commit, rollback} {
			if ev != nil && ev.Recv != tx {
				good, why = false, short(ev.Callee)+" runs on "+short(fmt.Sprint(ev.Recv))+", not on the transaction begun for this update"
			}
		}
		if query != nil {
			va := query.Args[len(query.Args)-1]
			if !(va.Kind == "varargs" && len(va.Args) == 1 && va.Args[0] == c.logID) {
				good, why = false, "the stored checkpoint is read with key "+short(va.String())
			}
		}
		if exec != nil {
			va := exec.Args[len(exec.Args)-1]
			if !(va.Kind == "varargs" && len(va.Args) == 2 && va.Args[0] == c.logID && va.Args[1].Kind == "call" && va.Args[1].Name == cSign) {
				good, why = false, "the statement is executed with "+short(va.String())+", want (request's log ID, cosigned bytes)"
			}
			if query == nil || query.Seq > exec.Seq {
				good, why = false, "write without a preceding read in the same transaction"
			}
		}
		// the stored checkpoint that Update examines is the column scanned from this transaction's query, nothing else
		for _, pe := range calls(s, cParse) {
			if len(pe.Args) == 4 && pe.Args[0].Kind != "param" && !(pe.Args[0].Kind == "call" && pe.Args[0].Name == cSign) {
				if !(query != nil && scannedFrom(pe.Args[0], query.Res)) {
					good, why = false, "the previous checkpoint examined is "+short(pe.Args[0].String())+", not the value scanned from the query of this update's transaction (state kept outside the database)"
				}
			}
		}
		if commit != nil && (exec == nil || exec.Seq > commit.Seq || !okBefore(s, *exec, commit.Seq)) {
			good, why = false, "Commit without a successful statement before it"
		}
		// every path that began a transaction ends it: Rollback at exit (a no-op after Commit)
		if rollback == nil || !rollback.AtExit {
			good, why = false, "a path that began a transaction returns without rolling it back at exit (the single connection stays pinned)"
		}
		if len(s.Rets) == 2 && s.Rets[1].Kind == "nil" {
			nSucc++
			if commit == nil || !okBefore(s, *commit, 0) {
				good, why = false, "success reported without a successful Commit (acknowledged update not durable)"
			}
		} else if commit != nil && okBefore(s, *commit, 0) {
			good, why = false, "a refusal is reported although the transaction was committed"
		}
		r.Check(good, rule, key, w.pos(begin.Pos), why+"; path: "+pathString(c.eng, s))
	}
	if nSucc == 0 {
		r.Undecided(rule, fnUpdate+" ∘ sql", "", "no composed success path")
	}
	// read side: GetCheckpoint ∘ sql queries the pool with the requested log ID and never begins a transaction
	if g, ok := compose(w, r, rule, fnGetCheckpoint, "sql"); ok {
		dbg := fieldByType(g.preset, "*sql.DB")
		nq := 0
		for _, s := range g.sums {
			for _, ev := range s.Events {
				m, onTx, onDB := sqlMethod(ev)
				if onTx || (onDB && strings.HasPrefix(m, "Begin")) || strings.HasPrefix(m, "Exec") {
					r.Fail(rule, fnGetCheckpoint+" ∘ sql | read-only, no transaction", w.pos(ev.Pos), "GetCheckpoint uses "+short(ev.Callee))
				}
				if onDB && strings.HasPrefix(m, "Query") {
					nq++
					va := ev.Args[len(ev.Args)-1]
					good := ev.Recv == dbg && va.Kind == "varargs" && len(va.Args) == 1 && va.Args[0] == g.logID
					r.Check(good, rule, fnGetCheckpoint+" ∘ sql | query keyed by the requested log ID", w.pos(ev.Pos), "query arguments "+short(va.String()))
				}
			}
		}
		for _, s := range g.sums {
			if len(s.Rets) != 2 || s.Rets[1].Kind != "nil" {
				continue
			}
			var q *Event
			for i := range s.Events {
				if m, _, onDB := sqlMethod(s.Events[i]); onDB && strings.HasPrefix(m, "Query") {
					q = &s.Events[i]
				}
			}
			good := q != nil && scannedFrom(s.Rets[0], q.Res)
			r.Check(good, rule, fnGetCheckpoint+" ∘ sql | returns the column scanned from the row selected for the requested log", w.pos(s.RetPos), "the read API answers "+short(s.Rets[0].String())+", which is not the value scanned from the database in this call (a cache or other state outside the database can serve a checkpoint that was never committed)")
		}
		if nq == 0 {
			r.Undecided(rule, fnGetCheckpoint+" ∘ sql", "", "no query on the composed read path")
		}
	}
}

// scannedFrom: t is the value written by Scan on the row(s) returned by query result q.
func scannedFrom(t, q *Term) bool {
	if t == nil || t.Kind != "out" || len(t.Args) < 1 {
		return false
	}
	c := t.Args[0]
	return c.Kind == "call" && strings.HasSuffix(c.Name, ").Scan") && len(c.Args) >= 2 && c.Args[1] == q
}

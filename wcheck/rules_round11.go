package main

// Round 11 (two cooperating sites): rules for necessary conditions that no earlier rule stated.

import (
	"fmt"
	"go/types"
	"strings"

	"golang.org/x/tools/go/ssa"
)

// isHTTPResponsePtr: *net/http.Response
func isHTTPResponsePtr(t types.Type) bool {
	p, ok := t.(*types.Pointer)
	if !ok {
		return false
	}
	n, ok := p.Elem().(*types.Named)
	return ok && n.Obj().Name() == "Response" && n.Obj().Pkg() != nil && n.Obj().Pkg().Path() == "net/http"
}

// ruleAnsweredBodyClosed: in the distributor, an answer whose status has been looked at is given back to the transport before
// the function returns: on every path from a successful exchange through a read of StatusCode to a return, the response body
// has been closed (directly, deferred, or by a module helper that is handed the response or its body). A non-200 answer that
// is returned from without closing keeps its connection; with a bounded connection pool the pushes for all later logs wait for
// it, so one log's failure is no longer a failure "for that log only". (Returns that never looked at the status — the
// redirected-request refusal on the unchanged tree — are not judged by this rule.)
func ruleAnsweredBodyClosed(w *World, r *Run, rule string) {
	n, bad := 0, 0
	var fns []*ssa.Function
	var add func(f *ssa.Function)
	add = func(f *ssa.Function) {
		fns = append(fns, f)
		for _, a := range f.AnonFuncs {
			add(a)
		}
	}
	for _, fn := range w.prodFns() {
		if fn.Parent() == nil && fn.Pkg != nil && strings.Contains(fn.Pkg.Pkg.Path(), "/distribute") {
			add(fn)
		}
	}
	for _, fn := range fns {
		for _, b := range fn.Blocks {
			for i, in := range b.Instrs {
				c, ok := in.(*ssa.Call)
				if !ok {
					continue
				}
				tup, ok := c.Type().(*types.Tuple)
				if !ok || tup.Len() != 2 || !isHTTPResponsePtr(tup.At(0).Type()) {
					continue
				}
				n++
				// values that are the response / its error
				var resp, rerr ssa.Value
				for _, ref := range *c.Referrers() {
					if e, ok := ref.(*ssa.Extract); ok {
						if e.Index == 0 {
							resp = e
						} else {
							rerr = e
						}
					}
				}
				if resp == nil {
					continue
				}
				isResp := func(v ssa.Value) bool {
					for hop := 0; hop < 4 && v != nil; hop++ {
						if v == resp {
							return true
						}
						switch x := v.(type) {
						case *ssa.UnOp:
							v = x.X
						case *ssa.FieldAddr:
							v = x.X
						case *ssa.Field:
							v = x.X
						case *ssa.MakeInterface:
							v = x.X
						case *ssa.ChangeInterface:
							v = x.X
						default:
							return false
						}
					}
					return false
				}
				var closes func(in ssa.Instruction, depth int) bool
				closes = func(in ssa.Instruction, depth int) bool {
					var cc *ssa.CallCommon
					switch x := in.(type) {
					case *ssa.Call:
						cc = x.Common()
					case *ssa.Defer:
						cc = x.Common()
					case *ssa.Go:
						cc = x.Common()
					default:
						return false
					}
					if cc.IsInvoke() {
						return cc.Method.Name() == "Close" && isResp(cc.Value)
					}
					// a closure that closes it (defer func() { _ = resp.Body.Close() }())
					if mc, ok := cc.Value.(*ssa.MakeClosure); ok && depth < 2 {
						captures := false
						for _, bv := range mc.Bindings {
							if isResp(bv) || bv == resp {
								captures = true
							}
							if a, ok := bv.(*ssa.Alloc); ok { // resp spilled to a cell
								for _, ref := range *a.Referrers() {
									if st, ok := ref.(*ssa.Store); ok && isResp(st.Val) {
										captures = true
									}
								}
							}
						}
						if captures {
							for _, bb := range mc.Fn.(*ssa.Function).Blocks {
								for _, ii := range bb.Instrs {
									if c2, ok := ii.(ssa.CallInstruction); ok && c2.Common().IsInvoke() && c2.Common().Method.Name() == "Close" {
										return true
									}
								}
							}
						}
						return false
					}
					// a module helper handed the response or its body
					if sc := cc.StaticCallee(); sc != nil && sc.Pkg != nil && strings.HasPrefix(sc.Pkg.Pkg.Path(), modPath) {
						for _, a := range cc.Args {
							if isResp(a) {
								return true
							}
						}
					}
					return false
				}
				readsStatus := func(in ssa.Instruction) bool {
					switch x := in.(type) {
					case *ssa.FieldAddr:
						if isResp(x.X) {
							if st, ok := x.X.Type().Underlying().(*types.Pointer); ok {
								if s, ok := st.Elem().Underlying().(*types.Struct); ok {
									return s.Field(x.Field).Name() == "StatusCode"
								}
							}
						}
					}
					return false
				}
				// walk: state (block, start index, status seen)
				type st struct {
					b    *ssa.BasicBlock
					seen bool
				}
				visited := map[st]bool{}
				var walk func(b *ssa.BasicBlock, from int, seen bool)
				walk = func(b *ssa.BasicBlock, from int, seen bool) {
					for j := from; j < len(b.Instrs); j++ {
						in := b.Instrs[j]
						if closes(in, 0) {
							return
						}
						if readsStatus(in) {
							seen = true
						}
						switch x := in.(type) {
						case *ssa.Return:
							if seen {
								bad++
								r.Fail(rule, funcNameOrSSA(outermost(fn))+" | an answered response is closed before returning", w.pos(x.Pos()), "a return after the answer's status was examined is reachable without the response body having been closed: the connection of a non-200 answer is kept, and with a bounded connection pool the pushes for every later log wait for it — the failure is no longer one for that log only")
							}
							return
						case *ssa.If:
							// the failed-exchange arm holds no response
							if bo, ok := x.Cond.(*ssa.BinOp); ok && rerr != nil && (bo.X == rerr || bo.Y == rerr) {
								idx := 1
								if bo.Op.String() == "==" {
									idx = 0
								}
								s := st{b.Succs[idx], seen}
								if !visited[s] {
									visited[s] = true
									walk(b.Succs[idx], 0, seen)
								}
								return
							}
						}
					}
					for _, sc := range b.Succs {
						s := st{sc, seen}
						if !visited[s] {
							visited[s] = true
							walk(sc, 0, seen)
						}
					}
				}
				walk(b, i+1, false)
			}
		}
	}
	r.sites += n
	if n == 0 {
		r.Undecided(rule, "distributor exchange", "", "no call returning (*http.Response, error) found in the distributor package")
		return
	}
	if bad == 0 {
		r.Pass(rule, fmt.Sprintf("distributor | an answered response is closed before returning (%d exchanges)", n), "", "")
	}
}

// ruleHasherAlwaysSet: every witness.LogInfo the production code builds carries a hasher, or the witness constructor installs a
// default INTO its map. Update hands the log's hasher to the consistency verifier, which dereferences it as soon as a non-empty
// proof is checked: with a nil hasher first use and empty-proof steps work and every honest growth step panics (a wedge).
func ruleHasherAlwaysSet(w *World, r *Run, rule string) {
	isLogInfo := func(t types.Type) (*types.Struct, int) {
		n, ok := t.(*types.Named)
		if !ok || n.Obj().Pkg() == nil || !strings.HasPrefix(n.Obj().Pkg().Path(), modPath) {
			return nil, -1
		}
		s, ok := n.Underlying().(*types.Struct)
		if !ok {
			return nil, -1
		}
		hi, hasVerifier := -1, false
		for i := 0; i < s.NumFields(); i++ {
			ts := s.Field(i).Type().String()
			if strings.HasSuffix(ts, ".LogHasher") {
				hi = i
			}
			if strings.HasSuffix(ts, "note.Verifier") {
				hasVerifier = true
			}
		}
		if hi < 0 || !hasVerifier || !strings.HasSuffix(n.Obj().Pkg().Path(), "/witness") {
			return nil, -1
		}
		return s, hi
	}
	var all []*ssa.Function
	var add func(f *ssa.Function)
	add = func(f *ssa.Function) {
		all = append(all, f)
		for _, a := range f.AnonFuncs {
			add(a)
		}
	}
	for _, fn := range w.prodFns() {
		if fn.Parent() == nil {
			add(fn)
		}
	}
	// per allocation of a LogInfo cell: is it copied into as a whole, is its hasher field given a non-nil value, is it written
	// back into a map?  A cell never copied into is a construction (literal or zero value filled field by field; go/ssa stores a
	// literal assigned to a fresh variable straight into the variable's cell); a copied cell whose hasher is set and that is written
	// back with a map update is a constructor's default.
	defaulted := false
	n, bad := 0, 0
	var pend [][2]string
	for _, fn := range all {
		var allocs []*ssa.Alloc
		seenA := map[*ssa.Alloc]bool{}
		for _, a := range fn.Locals {
			if !seenA[a] {
				seenA[a] = true
				allocs = append(allocs, a)
			}
		}
		for _, b := range fn.Blocks {
			for _, in := range b.Instrs {
				if a, ok := in.(*ssa.Alloc); ok && !seenA[a] {
					seenA[a] = true
					allocs = append(allocs, a)
				}
			}
		}
		for _, a := range allocs {
			p := a.Type().Underlying().(*types.Pointer)
			_, hi := isLogInfo(p.Elem())
			if hi < 0 {
				continue
			}
			copied, set, fields, back := false, false, 0, false
			for _, ref := range *a.Referrers() {
				switch x := ref.(type) {
				case *ssa.Store:
					if x.Addr == a {
						copied = true
					}
				case *ssa.FieldAddr:
					for _, r2 := range *x.Referrers() {
						if st, ok := r2.(*ssa.Store); ok && st.Addr == x {
							fields++
							if c, isC := st.Val.(*ssa.Const); x.Field == hi && (!isC || !c.IsNil()) {
								set = true
							}
						}
					}
				case *ssa.UnOp:
					for _, r2 := range *x.Referrers() {
						if mu, ok := r2.(*ssa.MapUpdate); ok && mu.Value == x {
							back = true
						}
					}
				}
			}
			if copied {
				if set && back {
					defaulted = true
				}
				continue
			}
			if fields == 0 {
				continue // a zero value used as such (error returns), not a description of a log
			}
			n++
			if !set {
				bad++
				pend = append(pend, [2]string{funcNameOrSSA(outermost(fn)) + " | a log's description carries a hasher", w.pos(a.Pos())})
				_ = ("a witness.LogInfo is built without a hasher: Update hands the nil hasher to the consistency verifier, which dereferences it for every non-empty proof — first use and empty-proof steps work, every honest growth step panics (unless a constructor installs a default into the witness's map; none does)")
			}
		}
	}
	if defaulted {
		bad = 0 // a working default makes an omission harmless
	}
	if bad > 0 {
		for _, pd := range pend {
			r.Fail(rule, pd[0], pd[1], "a witness.LogInfo is built without a hasher and no constructor installs a default into the witness's map: Update hands the nil hasher to the consistency verifier, which dereferences it for every non-empty proof — first use and empty-proof steps work, every honest growth step panics")
		}
	}
	r.sites += n
	if n == 0 && !defaulted {
		r.Undecided(rule, "construction of witness.LogInfo", "", "no composite literal found in production code")
		return
	}
	if bad == 0 {
		r.Pass(rule, fmt.Sprintf("module | a log's description carries a hasher (%d constructions, default in constructor: %t)", n, defaulted), "", "")
	}
}

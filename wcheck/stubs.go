package main

type fieldRef struct{ pkg, typ, field string }

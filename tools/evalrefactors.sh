#!/bin/bash
# runs all checks on behaviour-preserving refactorings: any alarm is a false alarm to investigate
for d in ${1:-/tmp/mut/rfout}/RF*/[0-9]*; do
  [ -f $d/patch.diff ] || continue
  id=$(basename $(dirname $d)); n=$(basename $d)
  if ! git -C /repo diff --quiet; then echo "/repo dirty"; exit 2; fi
  # patches were written against an earlier HEAD of /repo: fall back to reduced context when a later fix: commit touched nearby lines
  ctx=""
  if ! git -C /repo apply --check $d/patch.diff 2>/dev/null; then
    if git -C /repo apply --check -C1 $d/patch.diff 2>/dev/null; then ctx="-C1"; elif git -C /repo apply --check --3way $d/patch.diff 2>/dev/null; then ctx="--3way"; else echo "$id/$n: PATCH DOES NOT APPLY"; continue; fi
  fi
  git -C /repo apply $ctx $d/patch.diff 2>/dev/null
  if git -C /repo diff --name-only --diff-filter=U | grep -q .; then echo "$id/$n: PATCH CONFLICTS"; git -C /repo reset -q --hard HEAD; continue; fi
  tmp=$(mktemp -d)
  out=$(bin/wcheck -prop all -tier quick -evdir $tmp 2>&1)
  git -C /repo reset -q --hard HEAD; git -C /repo clean -fdq
  rm -rf $tmp
  rules=$(echo "$out" | grep -E ": rule " | sed -E 's/.*: rule ([A-Za-z0-9.]+) (violation|undecided).*/\1:\2/' | sort | uniq -c | tr '\n' ' ')
  if [ -z "$rules" ]; then echo "$id/$n: silent"; else echo "$id/$n: ALARM $rules"; fi
done

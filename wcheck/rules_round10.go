package main

// Rules added after the tenth round of seeded changes (the fix that breaks).

import (
	"fmt"
	"go/token"
	"go/types"
	"strings"

	"golang.org/x/tools/go/ssa"
)

// ruleInitKeepsState: Init of a store runs at every witness.New on the persistence it is handed; it must not discard what
// the store holds. In the in-memory store the checkpoint map is (re)made only under a test that it is nil.
func ruleInitKeepsState(w *World, r *Run, rule string) {
	m := ifaceMethod(w, pPersist, "LogStatePersistence", "Init")
	if m == nil {
		r.Undecided(rule, cInit, "", "interface method not found")
		return
	}
	n, bad := 0, 0
	for _, f := range w.implementations(m) {
		if !w.isProd(f) || f.Synthetic != "" || pkgPathOf(f) != pInmem {
			continue
		}
		n++
		for _, b := range f.Blocks {
			for _, in := range b.Instrs {
				st, ok := in.(*ssa.Store)
				if !ok {
					continue
				}
				fa, ok := st.Addr.(*ssa.FieldAddr)
				if !ok {
					continue
				}
				if _, isMap := fieldOfAddr(fa).Type().Underlying().(*types.Map); !isMap {
					continue
				}
				// guarded by `field == nil`
				guarded := false
				for _, gb := range f.Blocks {
					if len(gb.Instrs) == 0 {
						continue
					}
					iff, ok := gb.Instrs[len(gb.Instrs)-1].(*ssa.If)
					if !ok {
						continue
					}
					bo, ok := iff.Cond.(*ssa.BinOp)
					if !ok || (bo.Op != token.EQL && bo.Op != token.NEQ) {
						continue
					}
					isNil := func(x ssa.Value) bool { k, ok := x.(*ssa.Const); return ok && k.Value == nil }
					var tested ssa.Value
					if isNil(bo.Y) {
						tested = bo.X
					} else if isNil(bo.X) {
						tested = bo.Y
					}
					u, ok := tested.(*ssa.UnOp)
					if !ok {
						continue
					}
					tfa, ok := u.X.(*ssa.FieldAddr)
					if !ok || tfa.Field != fa.Field {
						continue
					}
					side := 0
					if bo.Op == token.NEQ {
						side = 1
					}
					succ := gb.Succs[side]
					if len(succ.Preds) == 1 && (succ == b || succ.Dominates(b)) {
						guarded = true
					}
				}
				if !guarded {
					bad++
					r.Fail(rule, funcName(f)+" | Init keeps what the store holds", w.pos(st.Pos()), "Init assigns the store's map without testing that it is nil: witness.New calls Init on the persistence it is handed, so a second New over the same store (a supervisor re-running Main) wipes every cosigned checkpoint and the witness trusts each log on first use again")
				}
			}
		}
	}
	if n == 0 {
		r.Undecided(rule, "in-memory Init", "", "implementation not found")
		return
	}
	if bad == 0 {
		r.Pass(rule, "in-memory store | Init keeps what the store holds", "", "")
	}
}

// ruleNotFoundOnlyFromStores: a gRPC NotFound status is created only by the stores, where the absence of a row or map
// entry was established. Anything else that manufactures one (translating "any error of ReadOps", say) makes a storage
// failure look like "no checkpoint yet" to the HTTP layer (404), the adapter (os.ErrNotExist) and the feeders (first use).
func ruleNotFoundOnlyFromStores(w *World, r *Run, rule string) {
	n, bad := 0, 0
	for _, fn := range w.prodFns() {
		for _, b := range fn.Blocks {
			for _, in := range b.Instrs {
				c, ok := in.(ssa.CallInstruction)
				if !ok {
					continue
				}
				name := ssaCallName(c.Common())
				if name != "google.golang.org/grpc/status.Error" && name != "google.golang.org/grpc/status.Errorf" && name != "google.golang.org/grpc/status.New" && name != "google.golang.org/grpc/status.Newf" {
					continue
				}
				n++
				k, ok := c.Common().Args[0].(*ssa.Const)
				if !ok || k.Value == nil || k.Int64() != 5 { // codes.NotFound
					continue
				}
				// the stores and the helpers they share (the persistence package tree)
				if p := pkgPathOf(fn); p == pInmem || p == pSQL || strings.HasPrefix(p, pPersist) {
					continue
				}
				bad++
				r.Fail(rule, funcNameOrSSA(outermost(fn))+" | NotFound is pronounced by the stores only", w.pos(in.Pos()), "a NotFound status is created outside the stores: only a store can establish that nothing is stored; here an error of another kind (a failed ReadOps, a failed read) is reported as 'no checkpoint', which the read API answers 404, the adapter turns into os.ErrNotExist and a feeder takes for first use")
			}
		}
	}
	r.sites += n
	if bad == 0 {
		r.Pass(rule, "module | NotFound is pronounced by the stores only", "", "")
	}
}

// ruleTimerWaitWatchesContext: a function that is given a context does not block on a ticker's or timer's channel outside a
// select: a bare `<-t.C` is deaf to the end of the context for up to a whole interval.
func ruleTimerWaitWatchesContext(w *World, r *Run, rule string) {
	n, bad := 0, 0
	for _, fn := range w.prodFns() {
		hasCtx := false
		for f := fn; f != nil; f = f.Parent() {
			for _, p := range f.Params {
				if typeStr(p.Type()) == "context.Context" {
					hasCtx = true
				}
			}
		}
		if !hasCtx {
			continue
		}
		for _, b := range fn.Blocks {
			for _, in := range b.Instrs {
				u, ok := in.(*ssa.UnOp)
				if !ok || u.Op != token.ARROW {
					continue
				}
				// the channel: field C of a *time.Ticker / *time.Timer, or the result of time.After / time.Tick
				timer := false
				switch x := u.X.(type) {
				case *ssa.UnOp:
					if fa, ok := x.X.(*ssa.FieldAddr); ok && fieldOfAddr(fa).Name() == "C" && strings.HasPrefix(strings.TrimPrefix(typeStr(fa.X.Type()), "*"), "time.") {
						timer = true
					}
				case *ssa.Call:
					if nm := ssaCallName(&x.Call); nm == "time.After" || nm == "time.Tick" {
						timer = true
						// a short constant pause (a back-off of at most a second) is not a poll interval
						if k, ok := x.Call.Args[0].(*ssa.Const); ok && k.Value != nil && k.Int64() > 0 && k.Int64() <= int64(1e9) {
							timer = false
						}
					}
				}
				if !timer {
					continue
				}
				n++
				bad++
				r.Fail(rule, funcNameOrSSA(outermost(fn))+" | waiting for the next tick also watches the context", w.pos(in.Pos()), "a bare receive from a ticker/timer channel in a function that runs under a context: while it waits (up to a whole poll interval) the end of the context goes unnoticed — the loop does not stop when its context ends")
			}
		}
	}
	r.sites += n
	if bad == 0 {
		r.Pass(rule, "module | waiting for the next tick also watches the context", "", "")
	}
}

// ruleDistributorLoop: the function that runs the distributor (the one outside the rest package that calls DistributeOnce)
// hands every round the loop's own context — not one with a deadline for the whole round, under which every log after a slow
// one is handed an expired context — and returns, once a round has run, only when that context has ended.
func ruleDistributorLoop(w *World, r *Run, ruleCtx, ruleStop string) {
	dist := w.fn(fnDistOnce)
	if dist == nil {
		r.Undecided(ruleCtx, fnDistOnce, "", "anchor not found")
		return
	}
	n := 0
	for _, fn := range w.prodFns() {
		if pkgPathOf(fn) == pRest {
			continue
		}
		calls0 := false
		for _, b := range fn.Blocks {
			for _, in := range b.Instrs {
				if c, ok := in.(ssa.CallInstruction); ok && (c.Common().StaticCallee() == dist || ssaCallName(c.Common()) == fnDistOnce) {
					calls0 = true
				}
			}
		}
		if !calls0 {
			continue
		}
		n++
		// the loop is the enclosing function that waits (a select or a receive), when the call sits in a local helper closure
		loopFn := fn
		waits := func(f *ssa.Function) bool {
			for _, b := range f.Blocks {
				for _, in := range b.Instrs {
					switch x := in.(type) {
					case *ssa.Select:
						return true
					case *ssa.UnOp:
						if x.Op == token.ARROW {
							return true
						}
					}
				}
			}
			return false
		}
		for hop := 0; hop < 4 && !waits(loopFn); hop++ {
			if loopFn.Parent() != nil {
				loopFn = loopFn.Parent()
				continue
			}
			// a named helper (distributeAndLog): its single production caller
			var caller *ssa.Function
			nc := 0
			for _, cf := range w.prodFns() {
				for _, cb := range cf.Blocks {
					for _, cin := range cb.Instrs {
						if cc, ok := cin.(ssa.CallInstruction); ok && cc.Common().StaticCallee() == loopFn && outermost(cf) != loopFn {
							if caller != cf {
								nc++
							}
							caller = cf
						}
					}
				}
			}
			if nc != 1 {
				break
			}
			loopFn = caller
		}
		// --- the context of each round
		for _, b := range fn.Blocks {
			for _, in := range b.Instrs {
				c, ok := in.(ssa.CallInstruction)
				if !ok || (c.Common().StaticCallee() != dist && ssaCallName(c.Common()) != fnDistOnce) || len(c.Common().Args) < 1 {
					continue
				}
				ctxArg := c.Common().Args[len(c.Common().Args)-1] // DistributeOnce(ctx): the only argument besides the receiver
				bounded := false
				var walk func(v ssa.Value, depth int)
				walk = func(v ssa.Value, depth int) {
					if depth > 6 {
						return
					}
					switch x := v.(type) {
					case *ssa.Extract:
						walk(x.Tuple, depth+1)
					case *ssa.Call:
						switch ssaCallName(&x.Call) {
						case "context.WithTimeout", "context.WithDeadline", "context.WithTimeoutCause", "context.WithDeadlineCause":
							bounded = true
						case "context.WithCancel", "context.WithValue", "context.WithCancelCause", "context.WithoutCancel":
							if len(x.Call.Args) > 0 {
								walk(x.Call.Args[0], depth+1)
							}
						}
					case *ssa.Phi:
						for _, e := range x.Edges {
							if e != v {
								walk(e, depth+1)
							}
						}
					case *ssa.UnOp:
						if a, ok := x.X.(*ssa.Alloc); ok && a.Referrers() != nil {
							for _, ref := range *a.Referrers() {
								if st, ok := ref.(*ssa.Store); ok && st.Addr == a {
									walk(st.Val, depth+1)
								}
							}
						}
					}
				}
				walk(ctxArg, 0)
				r.Check(!bounded, ruleCtx, funcNameOrSSA(outermost(fn))+" | every round of distribution runs under the loop's own context", w.pos(in.Pos()), "DistributeOnce is given a context with a deadline for the whole round: once one log's PUT has used the round's time, every log listed after it is handed an expired context and fails without reaching the service (a slow log is not a failure for that log only)")
			}
		}
		// --- returns
		e := w.engine(3, 1)
		e.opaque[fnDistOnce] = true
		sums := e.Explore(loopFn)
		r.Analysed(funcNameOrSSA(loopFn), len(sums))
		for _, s := range sums {
			if s.Trunc != "" {
				r.Undecided(ruleStop, funcNameOrSSA(fn), "", "path enumeration truncated: "+s.Trunc)
				break
			}
			if s.Panic || len(calls(s, fnDistOnce)) == 0 {
				continue // nothing was started (the distributor could not be built): configuration
			}
			var lastRecv *Event
			for i := range s.Events {
				if s.Events[i].Kind == "recv" && !s.Events[i].AtExit {
					lastRecv = &s.Events[i]
				}
			}
			done := lastRecv != nil && lastRecv.Recv != nil && lastRecv.Recv.Kind == "call" && lastRecv.Recv.Name == "(context.Context).Done"
			if !done {
				for _, ce := range calls(s, "(context.Context).Err") {
					if k, isNil, _ := nilFact(s, ce.Res); k && !isNil {
						done = true
					}
				}
			}
			r.Check(done, ruleStop, funcNameOrSSA(outermost(fn))+" | the distributor stops only when its context ends", w.pos(s.RetPos), "the distributor's goroutine returns after a round although its context has not ended (the error of a round — a client time-out unwraps to context.DeadlineExceeded — is taken for shutdown): the error group cancels everything and the witness process exits")
		}
	}
	if n == 0 {
		r.Undecided(ruleCtx, "caller of DistributeOnce", "", "not found outside the rest package")
	}
}

// ruleRowsErrChecked: a function that iterates a result set with Next also consults Err: Next returns false both at the end
// and on a failure, and Close does not report the failure — without Err a list cut short by an I/O error is returned as complete.
func ruleRowsErrChecked(w *World, r *Run, rule string) {
	n, bad := 0, 0
	for _, fn := range w.prodFns() {
		if fn.Parent() != nil {
			continue
		}
		var next ssa.Instruction
		hasErr := false
		var scan func(f *ssa.Function)
		scan = func(f *ssa.Function) {
			for _, b := range f.Blocks {
				for _, in := range b.Instrs {
					if c, ok := in.(ssa.CallInstruction); ok {
						switch ssaCallName(c.Common()) {
						case "(*database/sql.Rows).Next":
							next = in
						case "(*database/sql.Rows).Err":
							hasErr = true
						}
					}
				}
			}
			for _, a := range f.AnonFuncs {
				scan(a)
			}
		}
		scan(fn)
		if next == nil {
			continue
		}
		n++
		if !hasErr {
			bad++
			r.Fail(rule, funcName(fn)+" | a result set's error is consulted after the iteration", w.pos(next.Pos()), "rows.Next is iterated but rows.Err is never consulted: Next returns false on a failure as well as at the end and Close does not report it, so a list of logs cut short by a failing read is returned as the complete list with a nil error")
		}
	}
	r.sites += n
	if n == 0 {
		r.Undecided(rule, "result-set iteration", "", "none found in production code")
		return
	}
	if bad == 0 {
		r.Pass(rule, fmt.Sprintf("module | a result set's error is consulted after the iteration (%d functions)", n), "", "")
	}
}

// ruleUpdateCalledForRequestsOnly: Witness.Update — the counted entry point — is called from outside the witness package
// only (the adapter, the handlers): housekeeping inside the package that goes through it (re-cosigning every stored log at
// start-up) moves the attempt and success counters with no request made.
func ruleUpdateCalledForRequestsOnly(w *World, r *Run, rule string) {
	upd := w.fn(fnUpdate)
	if upd == nil {
		r.Undecided(rule, fnUpdate, "", "anchor not found")
		return
	}
	bad := false
	// the adapter that hands requests on (an implementation of feeder.Witness.Update) may live anywhere: it is the request path
	adapters := map[*ssa.Function]bool{}
	if m := ifaceMethod(w, pFeeder, "Witness", "Update"); m != nil {
		for _, f := range w.implementations(m) {
			adapters[f] = true
		}
	}
	for _, fn := range w.prodFns() {
		if pkgPathOf(fn) != pWitness || adapters[outermost(fn)] {
			continue
		}
		for _, b := range fn.Blocks {
			for _, in := range b.Instrs {
				if c, ok := in.(ssa.CallInstruction); ok && c.Common().StaticCallee() == upd {
					bad = true
					r.Fail(rule, fnUpdate+" | called for requests only", w.pos(in.Pos()), "Update is called from "+short(funcNameOrSSA(outermost(fn)))+" inside the witness package: whatever that does (re-signing at start-up, a retry) is counted as an update request and, if it succeeds, as an accepted one")
				}
			}
		}
	}
	if !bad {
		r.Pass(rule, fnUpdate+" | called for requests only", "", "")
	}
}

// rulePoolPutOnce: on every path of a function, an object taken from a sync.Pool is put back at most once (deferred puts
// count): an object that is in the pool twice is handed to two requests at the same time — two bodies parsed through one
// buffered reader, one of them re-pointed at the other's source mid-read.
func rulePoolPutOnce(w *World, r *Run, rule string) {
	n, bad := 0, 0
	for _, fn := range w.prodFns() {
		if fn.Parent() != nil || fn.Synthetic != "" {
			continue
		}
		puts := false
		var scan func(f *ssa.Function)
		scan = func(f *ssa.Function) {
			for _, b := range f.Blocks {
				for _, in := range b.Instrs {
					if c, ok := in.(ssa.CallInstruction); ok && ssaCallName(c.Common()) == "(*sync.Pool).Put" {
						puts = true
					}
				}
			}
			for _, a := range f.AnonFuncs {
				scan(a)
			}
		}
		scan(fn)
		if !puts {
			continue
		}
		n++
		e := w.engine(1, 1)
		for _, s := range e.Explore(fn) {
			if s.Trunc != "" || s.Panic {
				continue
			}
			cnt := map[string]int{}
			var pos token.Pos
			for _, ev := range s.Events {
				if (ev.Kind == "call" || ev.Kind == "defer") && ev.Callee == "(*sync.Pool).Put" && len(ev.Args) == 1 && ev.Args[0] != nil {
					cnt[ev.Args[0].key]++
					if cnt[ev.Args[0].key] == 2 {
						pos = ev.Pos
					}
				}
			}
			for _, c := range cnt {
				if c > 1 {
					bad++
					r.Fail(rule, funcName(fn)+" | a pooled object is put back at most once", w.pos(pos), "a path of this function puts the same object into the sync.Pool twice (an explicit Put in addition to the deferred one): the pool then hands that object to two requests at once, and each re-points or overwrites what the other is reading")
					break
				}
			}
			if bad > 0 {
				break
			}
		}
	}
	r.sites += n
	if bad == 0 {
		r.Pass(rule, "module | a pooled object is put back at most once", "", "")
	}
}

package main

import (
	"sort"

	"golang.org/x/tools/go/ssa"
)

func init() {
	props["C01"] = propC01
	props["C02"] = propC02
	props["C03"] = propC03
	props["C04"] = propC04
	props["C07"] = propC07
	props["C08"] = propC08
	props["C09"] = propC09
	props["C20"] = propC20
}

var tbCommon = []string{
	"Go type checker and go/ssa construction (golang.org/x/tools v0.29.0)",
	"wcheck path engine: exhaustive path enumeration with inlining of module callees, zone domain for integer comparisons",
}

func propC01(w *World, r *Run) {
	r.expl = "Decides the inductive step of the append-only invariant structurally: on every control-flow path of Update (all orderings of the sizes, via a zone domain) a value is signed/stored only after an affirmative NotFound or after verification against the checkpoint read through the same write handle (ACCEPT-GUARD), with VerifyConsistency's arguments in the right positions (PROOF-ARGS), inside one storage write operation (SAME-HANDLE), and nothing else in production code writes the stores (SOLE-WRITER)."
	r.notdec = []string{"correctness of proof.VerifyConsistency and note.Open as numbers/crypto (trusted, pinned by go.sum)", "the base case over storage contents (see C05/C06 clauses)", "histories as executions"}
	r.trusted = append(tbCommon, "contract of formats/log.ParseCheckpoint, merkle/proof.VerifyConsistency")
	a := analyseUpdate(w, r)
	ruleAcceptGuard(w, r, a, "C01.a")
	ruleProofArgs(w, r, a, "C01.b")
	ruleSameHandle(w, r, a, "C01.c")
	ruleSoleWriter(w, r, "C01.d")
	ruleNotFoundExact(w, r, "C01.e")
	ruleCommitBeforeAck(w, r, "C01.f")
	ruleComposedSQL(w, r, "C01.f")
	ruleComposedInMemory(w, r, "C01.f")
	ruleOneStatement(w, r, "C01.g") // the statement Set runs replaces the row the next GetLatest reads
	ruleSQLStoreReachesMain(w, r, "C01.h")
	ruleInitKeepsState(w, r, "C01.i")
}

func propC02(w *World, r *Run) {
	r.expl = "Decides that every path of Update refuses an unknown log ID first and with no effect (UNKNOWN-FIRST), that every storage call, signature and read of the parsed size/hash is preceded on its path by a successful formats/log.ParseCheckpoint of the submitted bytes under exactly Logs[logID].Origin and Logs[logID].SigV with no further verifiers (AUTH-BEFORE-USE), and that the configuration map is keyed ID(origin) -> {verifier of that entry's key, that entry's origin} (CONFIG-KEYING)."
	r.notdec = []string{"cryptographic soundness of note.Open / the verifiers", "byte-identity of signed text (a note.Open property)"}
	r.trusted = append(tbCommon, "contract of formats/log.ParseCheckpoint: non-nil checkpoint implies log signature verified and origin equal")
	a := analyseUpdate(w, r)
	ruleUnknownFirst(w, r, a, "C02.a")
	ruleAuthBeforeUse(w, r, a, "C02.b")
	ruleConfigKeying(w, r, "C02.c")
	ruleParseBodyTotal(w, r, "C02.d", "C02.d")
	ruleServeHTTP(w, r, "C02.d", "C02.d", "C02.d")
	ruleComposedInMemory(w, r, "C02.e")
	ruleComposedSQL(w, r, "C02.e")
	ruleNewKeepsConfig(w, r, "C02.f")
	ruleAdapter(w, r, "C02.g")
	ruleDecodeTargetFresh(w, r, "C02.h")
	ruleSoleWriter(w, r, "C02.i")
}

func propC03(w *World, r *Run) {
	r.expl = "Decides that no refusal path of Update executes Set (other than Set's own failure), that the bytes accompanying a refusal are nil or exactly GetLatest's result of the write handle (never Sign output or the input), and that both stores cannot write on a refusal: SQL Close is Rollback on the transaction begun by WriteOps and Set can only succeed through Commit; the in-memory map is updated only on the nil-returning path of the compare-and-set; read/list methods perform no mutation; the log list is the set of storage keys."
	r.notdec = []string{"byte-for-byte equality of stored state as runtime values (it decides that no path can write or leak)"}
	r.trusted = append(tbCommon, "database/sql: Rollback discards the transaction's effects")
	a := analyseUpdate(w, r)
	ruleNoSetOnRefusal(w, r, a, "C03.a")
	ruleRefusalBytes(w, r, a, "C03.b")
	ruleStorageRefusal(w, r, "C03.c")
	ruleLogsFromKeys(w, r, "C03.d")
	ruleServeHTTP(w, r, "C03.e", "C03.e", "C03.e")
	ruleEndpointHygiene(w, r, "C03.e")
	ruleRefusalErrorCarriesNoCosignature(w, r, "C03.b")
	ruleEndpointErrorBodies(w, r, "C03.e")
	ruleAdapter(w, r, "C03.f")
	ruleNoDetachedAnswer(w, r, "C03.g")
	ruleImplicitPanic(w, r, "C03.h", reachableModule(w, []*ssa.Function{w.fn(fnUpdate)}))
	ruleStoredBytesNotRecycled(w, r, "C03.i")
	ruleCosignatureNotReleasedBeforeStored(w, r, a, "C03.j")
	ruleStatusTable(w, r, a, "C03.k") // a refusal pronounced by the endpoint after the witness has accepted: the state has moved
}

func propC04(w *World, r *Run) {
	r.expl = "Decides value identity on every success path of Update: returned bytes == bytes passed to the single Set whose error was found nil (RETURN-IS-STORED); that value is note.Sign(note opened from the submitted bytes under the log's verifier, the witness's whole signer list) (STORED-IS-COSIGNED); no success path returns anything derived from the stored checkpoint and each contains a Sign call of this invocation after the read (NO-SHORT-CIRCUIT/FRESH); GetCheckpoint returns ReadOps(logID).GetLatest() unchanged (READ-VERBATIM); Signers is written only by the constructor."
	r.notdec = []string{"that signature bytes verify", "the numeric value of the cosignature timestamp (structural content only: Sign is called inside the invocation)"}
	r.trusted = append(tbCommon, "x/mod note.Sign: text preserved, one signature per signer; formats/note cosignature/v1 signer reads the clock inside Sign")
	a := analyseUpdate(w, r)
	ruleReturnIsStored(w, r, a, "C04.a")
	ruleCommitBeforeAck(w, r, "C04.a")
	ruleStoredIsCosigned(w, r, a, "C04.b")
	ruleFreshNoShortCircuit(w, r, a, "C04.c")
	ruleReadVerbatim(w, r, "C04.d")
	ruleImmut(w, r, "C04.e", immutCoreFields(w, r, "C04.e", "Witness"))
	ruleReadAPIAs(w, r, "C04.f")
	ruleStoredBytesNotRecycled(w, r, "C04.g")
	ruleClientReadsWholeBody(w, r, "C04.h")
	ruleDistributorAs(w, r, "C15.a", "C04.j")
	ruleWitnessBytesImmutable(w, r, "C04.k")
	ruleNoManualEncoding(w, r, "C04.l")
	ruleSoleWriter(w, r, "C04.m")
	ruleNoAppendOntoSharedPrefix(w, r, "C04.n")
	ruleStoredReopenable(w, r, a, "C04.o") // what is handed out as accepted opens again under the witness's own reader (101 signature lines do not)
}

func propC07(w *World, r *Run) {
	r.expl = "Decides the error discipline on storage calls: first use only under an affirmative NotFound test on GetLatest's error and, on the compositions with the stores, only when the store established absence (sql.ErrNoRows / missing map entry; errors of database/sql are assumed not to be gRPC statuses) (TOFU-ONLY-ON-NOTFOUND, NOTFOUND-EXACT); every path that opened a write operation closes it at exit and every transaction begun is rolled back at exit (CLOSE-ALWAYS, NO-LEAKED-TX); no success is reachable with an unchecked error of WriteOps/GetLatest/parse-of-stored/Sign/Set or of any database/sql call (ERR-NOT-DROPPED); reads return the column scanned in this call, never state kept outside the database (READS-DURABLE); the adapter maps only NotFound to os.ErrNotExist (ADAPTER); no failing outcome of Update is answered 200 by the bastion endpoint (NO-FALSE-SUCCESS)."
	r.notdec = []string{"behaviour of database/sql's pool under faults", "that the next operation completes (follows from CLOSE-ALWAYS/NO-LEAKED-TX plus the pool's contract)"}
	r.trusted = append(tbCommon, "database/sql, grpc/status.Code")
	a := analyseUpdate(w, r)
	ruleTofuOnlyOnNotFound(w, r, a, "C07.a")
	ruleCloseAlways(w, r, a, "C07.b")
	ruleCloseIsRollback(w, r, "C07.b")
	ruleComposedSQL(w, r, "C07.b")
	ruleErrNotDropped(w, r, a, "C07.c")
	ruleNoNestedStorage(w, r, a, "C07.g")
	ruleStorageErrDiscipline(w, r, "C07.c")
	ruleNotFoundExact(w, r, "C07.d")
	ruleAdapter(w, r, "C07.e")
	ruleNoLeakedTx(w, r, "C07.f")
	ruleNoFalseSuccessAtEndpoint(w, r, a, "C07.h")
	ruleNoMemoisedStorageError(w, r, "C07.i")
	ruleRowsClosed(w, r, "C07.j")
	ruleLocksReleased(w, r, "C07.k")
	ruleNotFoundOnlyFromStores(w, r, "C07.m")
	ruleNoHiddenVerdictState(w, r, a, "C07.l")
	ruleImmut(w, r, "C07.l", immutCoreFields(w, r, "C07.l", "Witness"))
	ruleCompareAndSet(w, r, "C07.n") // a lost write conflict is a storage failure answered as success
	ruleComposedInMemory(w, r, "C07.n")
}

func propC08(w *World, r *Run) {
	r.expl = "Decides two one-step necessary conditions of the liveness claim: (a) STORED-REOPENABLE, a typestate rule: the value passed to Set has been re-opened successfully by the witness's own reader (ParseCheckpoint/note.Open under the log's verifier) before it is stored, because note.Sign re-emits every submitted signature line while note.Open refuses more than 100; (b) HONEST-STEP-COMPLETE: for each ordering class of (stored size, submitted size) in {0=p=n, 0=p<n, 0<p=n, 0<p<n}, under the honest valuation of all predicates (VerifyConsistency modelled by its documented precondition 0 < size1 <= size2), some path of Update ends in success."
	r.notdec = []string{"all histories (only one step from any stored state)", "that proofs produced by honest logs verify numerically"}
	r.trusted = append(tbCommon, "x/mod note.Open refuses > 100 signature lines; merkle/proof.VerifyConsistency requires 0 < size1 <= size2")
	a := analyseUpdate(w, r)
	ruleStoredReopenable(w, r, a, "C08.a")
	ruleHonestStep(w, r, a, "C08.b")
	ruleCloseAlways(w, r, a, "C08.c")
	ruleNoNestedStorage(w, r, a, "C08.c")
	ruleCloseIsRollback(w, r, "C08.c")
	ruleNoLeakedTx(w, r, "C08.c")
	ruleParseBodyTotal(w, r, "C08.d", "C08.d")
	ruleServeHTTP(w, r, "C08.e", "C08.e", "C08.e")
	ruleStrictInteger(w, r, "C08.f")
	ruleWitnessBytesImmutable(w, r, "C08.g")
	ruleBastionGetsAllLogs(w, r, "C08.h")
	ruleServeUnderCallersContext(w, r, "C08.i")
	ruleCompareAndSet(w, r, "C08.j")
	ruleReadLimitsConstant(w, r, "C08.k")
	ruleContentLengthUnknownIsNotEmpty(w, r, "C08.k")
	ruleAdapter(w, r, "C08.l")
	ruleLockset(w, r, "C08.m")
	ruleHasherAlwaysSet(w, r, "C08.n")
}

func propC09(w *World, r *Run) {
	r.exhaustive = true // finite space enumerated completely (decision-table cells / configuration entries / loop-free paths of Update)
	r.expl = "Decides the protocol decision table exhaustively over a finite abstraction that is exact for this code: cells = known x signature-valid x stored{NotFound,found} x every weak ordering of (0, old size, stored size, submitted size) x rootEq x proofOK x proofEmpty; each cell must be answered by exactly one fault-free path of Update whose (error sentinel, bytes class) equals the first-match table transcribed from the property (DECISION-TABLE). The premise that sizes are only compared (never computed with) is checked (TOUCH-BY-COMPARISON); the bastion's sentinel switch covers every sentinel Update can return, by identity (SENTINEL-EXHAUSTIVE)."
	r.notdec = []string{"that proofOK agrees with an independent RFC 6962 verifier (VerifyConsistency's contract is trusted)", "first use with old != 0 or a non-empty proof, and 0 = stored < submitted (outside the property's claim; the latter is C08)"}
	r.trusted = append(tbCommon, "merkle/proof.VerifyConsistency contract (equal sizes: nil iff proof empty and roots equal)")
	a := analyseUpdate(w, r)
	ruleDecisionTable(w, r, a, "C09.a")
	ruleSentinelExhaustive(w, r, a, "C09.b")
	ruleTouchByComparison(w, r, a, "C09.c")
	ruleNotFoundExact(w, r, "C09.d")
	ruleParseBodyTotal(w, r, "C09.e", "C09.e")
	ruleAdapter(w, r, "C09.f")
	ruleComposedInMemory(w, r, "C09.g")
	ruleBastionGetsAllLogs(w, r, "C09.h")
	ruleComposedSQL(w, r, "C09.g")
	ruleContentLengthUnknownIsNotEmpty(w, r, "C09.i")
	ruleServeHTTP(w, r, "C09.j", "C09.j", "C09.j")
	ruleEndpointHygiene(w, r, "C09.j")
	ruleParseBodyRefusesOnlyForm(w, r, "C09.k")
}

func propC20(w *World, r *Run) {
	r.exhaustive = true // finite space enumerated completely (decision-table cells / configuration entries / loop-free paths of Update)
	r.expl = "Decides, over every path of Update and with counters identified by the metric name constant they are created with: witness_update_request incremented exactly once on every path past the known-log test and never on the unknown path; witness_update_success exactly once iff the path returns a nil error; witness_update_invalid_consistency exactly once iff it returns ErrInvalidProof; witness_update_inconsistent_checkpoints exactly once iff it returns ErrRootMismatch; no other Inc (OUTCOME-COUNTER); the label is exactly the request's log ID (LABEL); each counter variable is assigned once from NewCounter inside Once.Do (NAME-BINDING); constructors call initMetrics and are the only construction sites (INITIALISED-BEFORE-USE)."
	r.notdec = []string{"the metric backend (prometheus) itself"}
	r.trusted = append(tbCommon, "monitoring.Counter.Inc adds one")
	a := analyseUpdate(w, r)
	ruleOutcomeCounter(w, r, a, "C20.a")
	ruleCounterLabel(w, r, a, "C20.b")
	ruleInitBeforeUse(w, r, "C20.d")
	ruleLabelArity(w, r, "C20.e")
	ruleCommitBeforeAck(w, r, "C20.f")
	ruleCounterStateLocked(w, r, "C20.g")
	ruleUpdateNotReentered(w, r, "C20.h")
	ruleAdapter(w, r, "C20.j")
	ruleVerdictStatusAfterUpdate(w, r, "C20.i")
	ruleUpdateCalledForRequestsOnly(w, r, "C20.k")
	ruleFeeder(w, r) // reported under the feeder rules' own ids (C13.*): a split view must reach the witness to be counted
}

func init() {
	props["C05"] = propC05
	props["C06"] = propC06
}

func propC05(w *World, r *Run) {
	r.expl = "Schedules are not enumerable statically. Decides the structural mechanisms without which the property fails, on the compositions of Update/GetCheckpoint/GetLogs with each concrete store (the store's handle types and helper functions are inlined, so the rules do not depend on how a store is organised): read-verify-write on one write handle (SAME-HANDLE); every access to the in-memory checkpoint map lies between a lock and its release on all exits, writes only under the exclusive lock, no re-entrant locking (LOCKSET); the map is written only after the same key was re-read inside the writing critical section (lock epochs distinguish reads of different critical sections) and found equal to the snapshot taken when the write operation was opened, under the request's log ID and with the cosigned bytes (COMPARE-AND-SET / SNAPSHOT-PAIRING); the SQL path reads, executes and commits on the one transaction begun for the update and rolls it back at exit (TXN-SCOPE); first use needs affirmative absence; package-level variables are assigned only at init or in Once.Do, configuration fields only by constructors (GLOBALS/IMMUT); checkpoint bytes are never modified in place (NO-INPLACE-MUTATION)."
	r.notdec = []string{"linearizability itself (no schedule is explored)", "SQLite's isolation and the single-connection pool (db.SetMaxOpenConns(1) is listed as informational only)", "data races outside these structures (no race detector is run: different technique family)"}
	r.trusted = append(tbCommon, "sync.RWMutex, database/sql transactions, SQLite isolation")
	a := analyseUpdate(w, r)
	ruleSameHandle(w, r, a, "C05.a")
	ruleLockset(w, r, "C05.b")
	ruleCompareAndSet(w, r, "C05.c")
	ruleComposedInMemory(w, r, "C05.d")
	ruleComposedSQL(w, r, "C05.e")
	ruleSoleWriter(w, r, "C05.e")
	ruleGlobals(w, r, "C05.f", []string{pWitness, pBastion, pRest, pMon})
	ruleImmut(w, r, "C05.f", immutCoreFields(w, r, "C05.f"))
	ruleNoInplace(w, r, a, "C05.g")
	ruleNoNestedStorage(w, r, a, "C05.h")
	ruleNotFoundExact(w, r, "C05.i")
	ruleStoredBytesNotRecycled(w, r, "C05.g")
	ruleAdapter(w, r, "C05.j")
	ruleStatusTable(w, r, a, "C05.k")
	ruleNoSetOnRefusal(w, r, a, "C05.l") // a lost write race is a storage error, not a protocol refusal pronounced after Set ran
	ruleReadAPIAs(w, r, "C05.m")         // a read is one read of the store, made inside the request
}

func propC06(w *World, r *Run) {
	r.expl = "Crash points are runtime. Decides the ordering and scoping obligations that reduce the property to SQLite's atomic commit: Update reports success only after Set's error was found nil, and SQL Set can return nil only as Commit's result after a successful Exec on the same transaction (COMMIT-BEFORE-ACK); Set executes exactly one constant statement, an upsert whose key column is the table's PRIMARY KEY and whose value column is the one GetLatest projects, with placeholders bound to (handle's log ID, bytes) (ONE-STATEMENT-IN-TX, writer/reader agreement via a SQL tokenizer); no mutating statement runs outside writer.Set's transaction (SOLE-WRITER); Close is Rollback (C03.c)."
	r.notdec = []string{"what SQLite does when killed, fsync, the file system", "crash points as such (no execution)"}
	r.trusted = append(tbCommon, "database/sql Commit/Rollback, SQLite atomic commit")
	a := analyseUpdate(w, r)
	ruleReturnIsStored(w, r, a, "C06.a")
	ruleCommitBeforeAck(w, r, "C06.a")
	ruleComposedSQL(w, r, "C06.a")
	ruleOneStatement(w, r, "C06.b")
	ruleSoleWriter(w, r, "C06.c")
	ruleStorageRefusal(w, r, "C06.d")
	ruleReadVerbatim(w, r, "C06.e")
	ruleComposedSQL(w, r, "C06.e")
	ruleDBFileOnlyThroughSQL(w, r, "C06.f")
	ruleNoFalseSuccessAtEndpoint(w, r, analyseUpdate(w, r), "C06.g")
	ruleSQLStoreReachesMain(w, r, "C06.h")
	ruleNoFallbackToMemory(w, r, "C06.i")
	ruleNotFoundExact(w, r, "C06.j") // after a restart the stored row is found or the read fails: never "nothing stored"
	ruleTofuOnlyOnNotFound(w, r, analyseUpdate(w, r), "C06.j")
}

func init() {
	props["C10"] = propC10
	props["C11"] = propC11
}

func propC10(w *World, r *Run) {
	r.expl = "Decides the endpoint by composition: ServeHTTP is explored once per outcome class (error sentinel x bytes class) of the real Update, taken from Update's own path summaries, with the witness call answered by that class and every helper of the handler inlined; every path that reaches the witness must write exactly one constant status and it must be the protocol's: accepted 200, unknown log 404, no valid signature 403, old size too large 400, stale 409 + text/x.tlog.size + the decimal current size and newline, root mismatch 409, bad proof 422, anything else 500 (STATUS-TABLE, independent of how the table is written); the limiter is consulted first, exactly once, through Allow, and a refused request is answered 429 without touching the body (RATE-LIMIT-FIRST); every path writes exactly one documented status before any body (EXACTLY-ONE-STATUS); the 200 body is built from signatures verified under the witness's own verifier on the bytes Update returned, and 200 needs a committed store (BODY-PROVENANCE, ACK-IMPLIES-COMMIT); malformed body/no first line -> 400, unknown origin -> 404 without reaching the witness, and the witness is asked with (ID(first line), parseBody's results unmodified) of a configured log (PRE-CHECKS); metric labels never carry request bytes and the witness's bytes are never written through (HYGIENE)."
	r.notdec = []string{"TLS/HTTP2 transport and the reverse connection", "that the cosignature verifies (crypto)", "the limiter's numeric rate"}
	r.trusted = append(tbCommon, "net/http ResponseWriter contract, rate.Limiter.Allow, formats/log.ParseCheckpoint")
	a := analyseUpdate(w, r)
	ruleStatusTable(w, r, a, "C10.a")
	ruleServeHTTP(w, r, "C10.b", "C10.c", "C10.e")
	ruleEndpointHygiene(w, r, "C10.c")
	ruleCommitBeforeAck(w, r, "C10.g")
	ruleDecisionTable(w, r, a, "C10.h")
	ruleEndpointErrorBodies(w, r, "C10.c")
	ruleSentinelExhaustive(w, r, a, "C10.a")
	ruleStrictInteger(w, r, "C10.f")
	ruleParseBodyTotal(w, r, "C10.f", "C10.f")
	ruleAdapter(w, r, "C10.i")
	rulePooledBytesDontEscape(w, r, "C10.j")
	ruleNotFoundExact(w, r, "C10.k")
	ruleVerdictStatusAfterUpdate(w, r, "C10.l")
	ruleLimiterBurstIsRate(w, r, "C10.m")
	ruleCompareAndSet(w, r, "C10.n")
	ruleComposedInMemory(w, r, "C10.n")
	ruleContentLengthUnknownIsNotEmpty(w, r, "C10.o")
}

func propC11(w *World, r *Run) {
	r.expl = "Round-trip equality of runtime values is not a static target. Decides only: writer (cmd/feedbastion bastionClient.Update, Proof.Marshal) and reader (bastion.parseBody, Proof.Unmarshal) use the same base64 encoding object, the same line terminator, and the writer's size line carries the prefix the reader requires (CODEC-AGREEMENT); every error return of parseBody hands back nothing else, no nil-error return happens before the blank separator was consumed, Unmarshal assigns its receiver only on success (REFUSAL-IS-TOTAL); protocol integers reachable from the endpoint are parsed by a whole-string parser, the fmt.Sscan family is disallowed (STRICT-INTEGER); proof elements are appended one per decoded line in read order and the checkpoint is the unmodified remainder of the reader (ORDER-PRESERVING); no refusing path of Proof.Unmarshal has conditions that are all decided true on a string template Proof.Marshal returns for zero, one or two hashes (FRAMING-AGREEMENT; reported the empty list not reading back, F7, repaired)."
	r.notdec = []string{"equality of the values after a round trip (only framing and constants are decided)", "behaviour of bufio.ReadLine on lines longer than its buffer"}
	r.trusted = append(tbCommon, "encoding/base64, bufio, strconv")
	ruleCodecAgreement(w, r, "C11.a")
	ruleParseBodyTotal(w, r, "C11.b", "C11.d")
	ruleUnmarshalTotal(w, r, "C11.b")
	ruleStrictInteger(w, r, "C11.c")
	ruleCapsAndTimeouts(w, r, "C11.f", "C11.f")
	ruleServeHTTP(w, r, "C11.g", "C11.g", "C11.g")
	ruleEndpointHygiene(w, r, "C11.g")
	ruleProofFraming(w, r, "C11.h")
	ruleDecodeIntoSizedBuffer(w, r, "C11.i", reachableModule(w, []*ssa.Function{w.fn(fnUnmarshal), w.fn(fnParseBody)}))
	ruleNoAppendOntoSharedPrefix(w, r, "C11.j")
	rulePoolPutOnce(w, r, "C11.k")
}

func init() {
	props["C13"] = propC13
}

func propC13(w *World, r *Run) {
	r.expl = "Decides, over every path of FeedOnce and of the retry closure (analysed as a root of its own, linked to submitToWitness through the captured cells): a checkpoint reaches the witness only after ParseCheckpoint under opts.LogOrigin/opts.LogSigVerifier succeeded on the very bytes submitted (VERIFY-BEFORE-SUBMIT); Update's old size is the size of the checkpoint parsed (same origin/key) from GetLatestCheckpoint's result of this very attempt, or 0 when that result is empty; FetchProof is called with (that checkpoint, the submitted one) in this order and Update's proof is its result, or the empty proof only under equal sizes and equal roots (ANCHORED-ARGS); no Update path admits witness size > submitted size and the ahead arm is the only permanent error (NEVER-WHEN-AHEAD); Retry is bound to the caller's context and transient failures are plain errors (RETRY-TO-CONTEXT); success returns exactly what Update returned (RESULT); a missing latest checkpoint is assumed only on os.ErrNotExist (with C07.e for the adapter)."
	r.notdec = []string{"that retries eventually succeed, back-off timing", "behaviour of the FetchCheckpoint/FetchProof implementations (see C18/C19)"}
	r.trusted = append(tbCommon, "backoff.Retry/WithContext/Permanent contracts, formats/log.ParseCheckpoint")
	ruleFeeder(w, r)
	ruleAdapter(w, r, "C13.f")
	ruleNoLeakedTx(w, r, "C13.g")
	ruleFetchUnderCallersContext(w, r, "C13.h")
	ruleNeverGivesUp(w, r, "C13.i")
	rulePooledBytesDontEscape(w, r, "C13.j")
	ruleSizeNarrowing(w, r, "C13.k")
	ruleNoDerefOfFailedResult(w, r, "C13.l", fnFeedOnce)
	ruleTimerWaitWatchesContext(w, r, "C13.m")
	ruleSumDBConstants(w, r) // reported under the tile rules' own ids (C18.*): each proof attempt reads its tiles from the log, one result per requested tile
}

func init() {
	props["C15"] = propC15
	props["C16"] = propC16
}

func propC15(w *World, r *Run) {
	r.expl = "Decides on every path of distributeForLog: the request is a PUT whose body is bytes.NewReader of exactly GetLatestCheckpoint's result for l.ID, never written through (PUT-VERBATIM); it is built only after ParseCheckpoint(wRaw, l.Origin, l.Verifier, d.witSigV) succeeded and the facts imply exactly two verified signatures (VERIFY-BEFORE-PUT); the URL is baseURL + the path template with l.ID and url.PathEscape(witSigV.Name()) (TARGET); success is returned only where the facts imply client.Do succeeded, the method is still PUT and StatusCode == 200, every other arm returns a non-nil error, counters move accordingly (FAILURE-CLASSES); DistributeOnce attempts every log whatever the others did and reports failures iff some attempt failed (PER-LOG-ISOLATION, loop unrolled twice)."
	r.notdec = []string{"validity of the signatures as numbers", "behaviour of net/http (redirect policy beyond the method check)", "more than two loop iterations (the loop body is identical per iteration)"}
	r.trusted = append(tbCommon, "formats/log.ParseCheckpoint (Sigs lists verified signatures only), net/http client")
	ruleDistributor(w, r)
	ruleImmut(w, r, "C15.a", immutCoreFields(w, r, "C15.a", "Distributor"))
	ruleDistributorGetsAllLogs(w, r, "C15.f")
	ruleNoDerefOfFailedResult(w, r, "C15.g", fnDistOnce)
	ruleAdapter(w, r, "C15.h")
	ruleDistributorLoop(w, r, "C15.i", "C15.j")
	ruleAnsweredBodyClosed(w, r, "C15.k")
}

func propC16(w *World, r *Run) {
	r.expl = "Decides: the GET handler writes GetCheckpoint(route variable logid)'s bytes unchanged with an implicit 200 and only on err == nil, and GetCheckpoint returns ReadOps(logID).GetLatest() unchanged (HANDLER-VERBATIM, with C04.d); the error arm answers httpForCode(status.Code(err)) of the same error and httpForCode maps NotFound, and only NotFound, to 404 (CODE-TABLE); the bundled client returns os.ErrNotExist only where the facts imply StatusCode == 404, the whole body only where they imply 200, other answers are different errors (CLIENT-MAPPING); the log list is json.Marshal of GetLogs(), which is the store's key list (LOG-LIST, with C03.d); the route pattern, compiled by the checker, matches 64-character lower-case hex (the output language of log.ID) under the variable name the handler reads, and client and server format the same path constant (ROUTE-ADMITS-IDS)."
	r.notdec = []string{"gorilla/mux routing internals", "equality of served and stored bytes as runtime values (decided as value identity of terms)"}
	r.trusted = append(tbCommon, "gorilla/mux variable syntax {name:regexp}, net/http")
	ruleReadAPI(w, r)
	ruleReadVerbatim(w, r, "C16.a")
	ruleLogsFromKeys(w, r, "C16.d")
	ruleNotFoundExact(w, r, "C16.b")
	ruleReturnIsStored(w, r, analyseUpdate(w, r), "C16.f")
	ruleCommitBeforeAck(w, r, "C16.f")
	rulePooledBytesDontEscape(w, r, "C16.g")
	ruleNoManualEncoding(w, r, "C16.h")
	ruleNoAppendOntoSharedPrefix(w, r, "C16.i") // the in-memory store hands out the very slice it keeps: a reader that filters it in place rewrites what the next GET serves
	ruleStoredBytesNotRecycled(w, r, "C16.j")
	ruleRowsErrChecked(w, r, "C16.k")
}

func init() {
	props["C12"] = propC12
	props["C14"] = propC14
}

func propC12(w *World, r *Run) {
	r.expl = "Decides: in Update the request's log ID term is the key of the configured-logs map, the argument of WriteOps and every counter label, and GetCheckpoint passes it to ReadOps (KEY-PASS-THROUGH); in-memory handles read and write only the entry of the log ID they were opened for, every SQL statement of a handle binds the handle's log ID to the key column and Logs() lists that column (STORAGE-KEYED); every origin->ID derivation is formats/log.ID of the origin: AsLogMap, config.NewLog (so Log.ID == ID(Log.Origin) by construction, with constructor discipline), the bastion endpoint; all five feeders, the distributor and the bastion table use {ID, Origin, Verifier} of one and the same config.Log (ID-DERIVATION, sibling agreement over the feeder registry); AsLogMap inserts only on the not-found arm of a lookup with the same key and Main aborts on its error before anything is launched (DUPLICATES-REFUSED); no cross-log mutable state exists (IMMUT + GLOBALS)."
	r.notdec = []string{"equality of interleaved vs isolated histories as executions", "collision resistance of SHA-256 (log.ID)"}
	r.trusted = append(tbCommon, "formats/log.ID is a function of the origin only")
	a := analyseUpdate(w, r)
	ruleKeyPassThrough(w, r, a, "C12.a")
	ruleReadVerbatim(w, r, "C12.a")
	ruleComposedInMemory(w, r, "C12.b")
	ruleComposedSQL(w, r, "C12.b")
	ruleOneStatement(w, r, "C12.b")
	ruleIDDerivation(w, r, "C12.c")
	ruleConfigKeying(w, r, "C12.c")
	ruleAuthBeforeUse(w, r, a, "C12.f")
	ruleOneWitness(w, r, "C12.d")
	ruleGlobals(w, r, "C12.e", []string{pWitness, pBastion, pRest, pMon, pInmem, pSQL, pOmni, pConfig, pFeeder})
	ruleImmut(w, r, "C12.e", immutCoreFields(w, r, "C12.e"))
	ruleReadAPIAs(w, r, "C12.g")
	ruleDistributorAs(w, r, "C15.c", "C12.h")
	ruleNoOwnHasher(w, r, "C12.i")
	ruleClientReadsWholeBody(w, r, "C12.j")
	ruleSharedHandlesNotMutated(w, r, "C12.j")
	ruleNoHiddenVerdictState(w, r, a, "C12.k")
}

func propC14(w *World, r *Run) {
	r.expl = "Convergence within a bounded number of poll intervals across restarts is runtime liveness. Decides three wiring conditions without which it cannot hold: in Main the witness given to the HTTP server, wrapped by the adapter handed to every feeder goroutine, to the bastion endpoint and to the distributor is the one witness.New result, built on the caller's persistence and on AsLogMap of the same configuration value the feeder list comes from (ONE-WITNESS); every feeder name the registry can produce other than none has a case in FeedFunc, FeedFunc is only called for entries with a feeder, and Main launches one goroutine f(ctx, log, adapter, client, interval) per table entry (EVERY-FEEDER-STARTED/EXHAUSTIVE); feeder.Run and bastion.connectAndServe return only after receiving from ctx.Done() (or a local certificate error), each cycle runs FeedOnce under a deadline, and every feeder's fetchProof answers the empty proof for from.Size == 0 (NEVER-GIVES-UP)."
	r.notdec = []string{"timing, network, restart behaviour, correctness of tile-derived proofs (C18 covers constants/plumbing only)", "that the served checkpoint actually converges"}
	r.trusted = append(tbCommon, "errgroup, context, time.Ticker")
	ruleOneWitness(w, r, "C14.a")
	ruleEveryFeeder(w, r, "C14.b")
	ruleNeverGivesUp(w, r, "C14.c")
	// "stops at a fork" / "keeps following": the guard that refuses a fork, and nothing that can wedge the shared witness
	a := analyseUpdate(w, r)
	ruleAcceptGuard(w, r, a, "C14.d")
	ruleNotFoundExact(w, r, "C14.d")
	ruleNoNestedStorage(w, r, a, "C14.e")
	ruleCloseAlways(w, r, a, "C14.e")
	ruleCloseIsRollback(w, r, "C14.e")
	ruleSumDBConstants(w, r) // tile-derived proofs: constants and coordinate plumbing (reported under C18.* rule ids)
	ruleReadLimitsConstant(w, r, "C14.f")
	ruleRekorProofRequest(w, r, "C14.g")
	ruleFeedLogFailsOnlyOnConfig(w, r, "C14.h")
	ruleFeederPanics(w, r, "C14.i")
	ruleSharedHandlesNotMutated(w, r, "C14.j")
	ruleFetchersKeepNoState(w, r, "C14.k")
	ruleCapsAndTimeouts(w, r, "C14.l", "C14.l")
	ruleAdapter(w, r, "C14.m") // the adapter's answer for "nothing stored" is the one the feeder's first-use path tests for
}

func init() {
	props["C17"] = propC17
	props["C18"] = propC18
	props["C19"] = propC19
}

func propC17(w *World, r *Run) {
	r.exhaustive = true // finite space enumerated completely (decision-table cells / configuration entries / loop-free paths of Update)
	r.expl = "Decides exhaustively over a finite set: every entry of every YAML file that a go:embed directive of package omniwitness names (working-tree content) is validated: its public key is parsed by the very function production code uses (formats/note.NewVerifier), its origin's ID is unique within the file, its feeder name is a key of the feederByName registry (after the normalisation ParseFeeder applies), and its URL passes the checks its feeder makes at start: url.Parse, the query parameter the rekor feeder insists on, the schemes for which the serverless feeder does not panic, an absolute http(s) URL for the HTTP-only feeders. All constraint sets are extracted from the repository's code on every run, not frozen in the checker. Code side: FeedFunc covers every registry value other than none; ParseFeeder/UnmarshalYAML fail on unknown names; Main routes every entry through config.NewLog and AsLogMap and aborts on the first error before anything is launched."
	r.notdec = []string{"that the remote logs exist or that the keys are the right ones", "URL trailing-slash conventions of relative tile paths"}
	r.trusted = append(tbCommon, "formats/note.NewVerifier, formats/log.ID, net/url.Parse, gopkg.in/yaml.v3 (pinned libraries, used as the production code uses them)")
	ruleShippedConfig(w, r, "C17.a")
	ruleEveryFeeder(w, r, "C17.b")
	ruleOneWitness(w, r, "C17.b")
	ruleConfigKeying(w, r, "C17.b")
	ruleNewLogShape(w, r, "C17.c")
	ruleNewKeepsConfig(w, r, "C17.d")
	ruleYAMLStrictness(w, r, "C17.a")
	ruleGlobalContainers(w, r, "C17.e", allModulePkgs(w))
	ruleNoNilMapWriteInMain(w, r, "C17.h")
	ruleConfigSliceNotMutated(w, r, "C17.f")
	ruleServeHTTP(w, r, "C17.g", "C17.g", "C17.g") // a configured log's submissions reach the witness: the endpoint pronounces no verdict of its own
	ruleFeedFuncOnlyForPolledLogs(w, r, "C17.i")
}

func propC18(w *World, r *Run) {
	r.expl = "Path strings for all coordinates and proof validity are numeric/format results and are not decided. Decides only constant agreement and coordinate plumbing: client.pathBase equals tlog's unexported pathBase, every format literal of client.tilePath occurs in the reference tlog.Tile.Path and tilePath splits by that base with the reference loop condition, TileData's URL follows tile/<height>/<level>/<path>[.p/<width>] (PATHBASE); one tileHeight constant feeds NewSumDB, tileReader.Height() and leavesPerTile == 1<<tileHeight (HEIGHT-COHERENT); ReadTiles passes (t.L, t.N, t.W or a non-positive 'full' marker exactly when t.W == leavesPerTile) in TileData's (level, offset, partial) positions and appends one result per tile in order; TileData takes the partial suffix iff partial > 0; the pixel reader's verbs are (t.H, t.L, t.N) (COORDINATES); ProveTree is called as (to.Size, from.Size, TileHashReader(Tree{N: to.Size, Hash: to.Hash}, reader)) (PROVE-ARGS)."
	r.notdec = []string{"the x%03d carry encoding for all indices (O3: an off-by-one inside tilePath's arithmetic is invisible to constant agreement)", "acceptance of the proofs by an RFC 6962 verifier"}
	r.trusted = append(tbCommon, "golang.org/x/mod/sumdb/tlog (reference implementation, pinned)")
	ruleSumDBConstants(w, r)
	ruleNoManualEncoding(w, r, "C18.e")
	ruleReadLimitsConstant(w, r, "C18.f")
	ruleFeederAs(w, r, "C18.g")
	ruleFetchURLIsBasePlusPath(w, r, "C18.i")
	ruleFetcherStateless(w, r, "C18.j")
	ruleSharedHandlesNotMutated(w, r, "C18.k")
	ruleShippedSumDBURL(w, r, "C18.l")
	ruleFetchFailsOnlyOnTransport(w, r, "C18.m")
	ruleHonestStep(w, r, analyseUpdate(w, r), "C18.h", "0<stored<submitted") // a growth step between two non-zero sizes: what a feeder's proof is for
}

func propC19(w *World, r *Run) {
	r.expl = "Decides structural necessary conditions: no explicit panic is reachable (module call graph incl. closures and every implementation of invoked interface methods) from the network-input roots (EXPLICIT-PANIC); every index/slice/slice-to-array/unchecked type assertion/non-constant division instruction in those functions is dominated, on every path reaching it, by branch facts that imply it is in bounds (zone domain), or is listed in a confirmed-safe table keyed by function and operand with a reason (IMPLICIT-PANIC SITES); uint64->int64 conversions of checkpoint sizes handed to tlog.ProveTree are bounded by a constant <= 2^62 (SIZE-NARROWING; above it tlog.maxpow2 never terminates); every endpoint path writes exactly one documented status (ALWAYS-ANSWERS = C10.c); the bastion handler is wrapped in http.MaxBytesHandler(h, c <= 16 KiB) (BODY-CAP); HTTP/2 server, its base config, the witness HTTP server, the bastion dial and the outbound client carry positive timeouts and each feed cycle runs under a deadline (TIMEOUTS-PRESENT); counters are initialised before any handler exists (COUNTERS-INITIALISED = C20.d)."
	r.notdec = []string{"termination in general and memory exhaustion (unbounded io.ReadAll on log/distributor responses is listed, not decided)", "panics inside dependencies", "fuzz-style exploration of inputs (different technique family)"}
	r.trusted = append(tbCommon, "strings.Split returns >= 1 element; note.Open returns >= 1 verified signature on success; tlog.ParseTree enforces a 32-byte root")
	reach := ruleExplicitPanic(w, r, "C19.a")
	ruleImplicitPanic(w, r, "C19.b", reach)
	ruleDecodeIntoSizedBuffer(w, r, "C19.n", reach)
	ruleNoBlockingSendFromLoopGoroutines(w, r, "C19.o")
	ruleSumDBRaw(w, r, "C19.b")
	ruleSizeNarrowing(w, r, "C19.c")
	ruleServeHTTP(w, r, "C19.d", "C19.d", "C19.d")
	ruleEndpointHygiene(w, r, "C19.d")
	ruleLockset(w, r, "C19.i")
	ruleNoDerefOfFailedResult(w, r, "C19.j", fnDistOnce, fnCGetLatest, "("+pCHTTP+".Witness).Update")
	ruleLocksReleased(w, r, "C19.k")
	ruleLabelArity(w, r, "C19.l")
	ruleCapsAndTimeouts(w, r, "C19.e", "C19.f")
	ruleNeverGivesUp(w, r, "C19.f")
	ruleInitBeforeUse(w, r, "C19.g")
	ruleCloseAlways(w, r, analyseUpdate(w, r), "C19.h")
	ruleNoNestedStorage(w, r, analyseUpdate(w, r), "C19.h")
	ruleCloseIsRollback(w, r, "C19.h")
	// unbounded reads: listed, not decided
	var unb []string
	for fn := range reach {
		for _, b := range fn.Blocks {
			for _, in := range b.Instrs {
				if c, ok := in.(*ssa.Call); ok {
					if sc := c.Call.StaticCallee(); sc != nil && funcName(sc) == "io.ReadAll" {
						if _, limited := c.Call.Args[0].(*ssa.Call); !limited {
							unb = append(unb, w.pos(c.Pos()))
						}
					}
				}
			}
		}
	}
	sort.Strings(unb)
	r.extra["io_ReadAll_sites_not_decided"] = unb
	ruleNoUnboundedClient(w, r, "C19.m")
	ruleDecodedPointersGuarded(w, r, "C19.p")
	ruleTickerDurationsPositive(w, r, "C19.q")
	ruleDoublingLoopsTerminate(w, r, "C19.r")
	ruleDistributorLoop(w, r, "C19.s", "C19.s")
	rulePoolPutOnce(w, r, "C19.t")
}

module wcheck

go 1.23.0

require (
	golang.org/x/tools v0.29.0
	gopkg.in/yaml.v3 v3.0.1
)

require golang.org/x/sync v0.10.0 // indirect

require (
	github.com/transparency-dev/formats v0.0.0-20241003145927-a04dcc2a37e4
	golang.org/x/mod v0.24.0
)

package main

// C15: the distributor; C16: the read API and the bundled HTTP client.

import (
	"fmt"
	"go/constant"
	"go/types"
	"regexp"
	"strings"
)

const (
	fnDistOnce     = "(*" + pRest + ".Distributor).DistributeOnce"
	fnNewDist      = pRest + ".NewDistributor"
	cRestGetLatest = "(" + pRest + ".Witness).GetLatestCheckpoint"
	fnHGetCP       = "(*" + pIHTTP + ".Server).getCheckpoint"
	fnHGetLogs     = "(*" + pIHTTP + ".Server).getLogs"
	fnHRegister    = "(*" + pIHTTP + ".Server).RegisterHandlers"
	fnHForCode     = pIHTTP + ".httpForCode"
	fnCGetLatest   = "(" + pCHTTP + ".Witness).GetLatestCheckpoint"
)

func ruleDistributor(w *World, r *Run) {
	// the per-log work, analysed on DistributeOnce with its helpers inlined and the loop over the logs run once: the path
	// then is one log's attempt and DistributeOnce's result is that attempt's result
	fnD := w.fn(fnDistOnce)
	if fnD == nil {
		r.Undecided("C15.a", fnDistOnce, "", "anchor function not found in the type-checked program")
		return
	}
	e := w.engine(5, 1)
	e.hof[cGroupGo] = 0 // per-log attempts run as goroutines of an error group are run in place
	sums := e.Explore(fnD)
	r.Analysed(fnDistOnce+" (one log)", len(sums))
	for _, s := range sums {
		if s.Trunc != "" {
			r.Undecided("C15.a", fnDistOnce, "", "path enumeration truncated: "+s.Trunc)
			return
		}
	}
	const fnDistForLog = fnDistOnce + " ∘ one log"
	d := recvParam(fnD)
	ctx := paramN(fnD, 0)
	df := func(n string) *Term {
		return fieldByTypeCtor(w, d, map[string]string{"witness": "rest.Witness", "baseURL": "string", "client": "*http.Client", "witSigV": "note.Verifier", "logs": "[]config.Log"}[n])
	}
	nOK := 0
	names := counterNames(w, newRun("x", "quick", 0), pRest, "C15.d")
	for _, s := range sums {
		gl := calls(s, cRestGetLatest)
		nAttemptIncs := 0
		for _, ie := range calls(s, cInc) {
			if m, ok := counterName(names, ie.Recv); !ok || m == "distribute_rest_attempt" || m == "distribute_rest_success" {
				nAttemptIncs++
			}
		}
		if len(gl) == 0 && nAttemptIncs == 0 {
			continue // no log configured: nothing attempted
		}
		if len(gl) > 1 {
			continue // a second log: the per-log rules are stated on the single-attempt paths, isolation on C15.e
		}
		var l *Term
		if len(gl) == 1 && len(gl[0].Args) == 2 && gl[0].Args[1].Kind == "field" && gl[0].Args[1].Name == "ID" && mentions(gl[0].Args[1].Args[0], df("logs")) {
			l = gl[0].Args[1].Args[0]
		}
		lf := func(n string) *Term { return mk("field", n, 0, nil, l) }
		if l == nil || gl[0].Recv != df("witness") || gl[0].Args[0] != ctx {
			r.Fail("C15.a", fnDistForLog+" | asks the witness for this log's latest checkpoint", w.pos(s.RetPos), "the attempt does not start from witness.GetLatestCheckpoint(ctx, l.ID) for a log l of the configured list")
			continue
		}
		wRaw := res(gl[0], 0)
		reqs := calls(s, "net/http.NewRequest", "net/http.NewRequestWithContext")
		success := len(s.Rets) == 1 && s.Rets[0].Kind == "nil"
		for _, rq := range reqs {
			args := rq.Args
			if rq.Callee == "net/http.NewRequestWithContext" {
				args = args[1:]
			}
			// ---- C15.a PUT-VERBATIM
			m, _ := constInt(args[0])
			body := args[2]
			good := m == "\"PUT\"" && body.Kind == "call" && (body.Name == "bytes.NewReader" || body.Name == "bytes.NewBuffer") && body.Args[2] == wRaw && okBefore(s, gl[0], rq.Seq)
			for _, ev := range eventsOfKind(s, "store") {
				if mentions(ev.Recv, wRaw) {
					good = false
				}
			}
			r.Check(good, "C15.a", fnDistForLog+" | PUT of exactly the bytes the witness reported", w.pos(rq.Pos), "request is "+m+" with body "+short(body.String())+"; want PUT of bytes.NewReader(<GetLatestCheckpoint result>) unmodified")
			// ---- C15.b VERIFY-BEFORE-PUT
			var pc *Event
			for _, pe := range calls(s, cParse) {
				pe := pe
				if pe.Seq < rq.Seq && len(pe.Args) == 4 && pe.Args[0] == wRaw && okBefore(s, pe, rq.Seq) {
					pc = &pe
				}
			}
			good = pc != nil && pc.Args[1] == lf("Origin") && pc.Args[2] == lf("Verifier") && pc.Args[3].Kind == "varargs" && len(pc.Args[3].Args) == 1 && pc.Args[3].Args[0] == df("witSigV")
			r.Check(good, "C15.b", fnDistForLog+" | checkpoint verified under the log's key/origin and the witness key before it is sent", w.pos(rq.Pos), "the request is built on a path where the witness's bytes were not successfully parsed with (l.Origin, l.Verifier, d.witSigV); path: "+pathString(e, s))
			if pc != nil {
				sigLen := mk("len", "", 0, types.Typ[types.Int], mk("field", "Sigs", 0, nil, res(*pc, 2)))
				two := mk("const", "2", 0, types.Typ[types.Int])
				r.Check(implies(s.Facts, "==", sigLen, two, true), "C15.b", fnDistForLog+" | exactly the log's and the witness's signature verified", w.pos(rq.Pos), "the path to the request does not imply that exactly two signatures (log + this witness) verified: a checkpoint without a valid witness signature could be pushed")
			}
			// ---- C15.c TARGET
			up := calls(s, "net/url.Parse")
			good = false
			if len(up) == 1 && okBefore(s, up[0], rq.Seq) {
				u := up[0].Args[0]
				leaves := concatLeaves(u)
				if len(leaves) == 2 && leaves[0] == df("baseURL") && leaves[1].Kind == "call" && leaves[1].Name == "fmt.Sprintf" {
					sp := leaves[1]
					f := sp.Args[2]
					va := sp.Args[3]
					tmpl := w.lookup(pRest, "HTTPCheckpointByWitness")
					tc, _ := tmpl.(*types.Const)
					if tc != nil && f.Kind == "const" && f.Name == tc.Val().ExactString() && va.Kind == "varargs" && len(va.Args) == 2 && va.Args[0] == lf("ID") {
						esc := va.Args[1]
						if esc.Kind == "call" && esc.Name == "net/url.PathEscape" && esc.Args[2].Kind == "call" && esc.Args[2].Name == "(golang.org/x/mod/sumdb/note.Verifier).Name" && esc.Args[2].Args[1] == df("witSigV") {
							good = true
						}
					}
				}
				// the request URL is that parsed URL
				us := args[1]
				if !(us.Kind == "call" && us.Name == "(*net/url.URL).String" && us.Args[1] == res(up[0], 0)) {
					good = false
				}
				// … as it was parsed: a component rewritten afterwards (Path cleaned, joined, unescaped) is re-escaped by
				// String() from its decoded form, and an escaped '/' in the witness's key name becomes a path separator
				for _, ev := range eventsOfKind(s, "store") {
					if ev.Seq < rq.Seq && ev.Recv != nil && mentions(ev.Recv, res(up[0], 0)) {
						good = false
					}
				}
			}
			r.Check(good, "C15.c", fnDistForLog+" | target = baseURL + /distributor/v0/logs/<log ID>/byWitness/<escaped witness key name>/checkpoint", w.pos(rq.Pos), "request URL is not built from d.baseURL, the path template, l.ID and url.PathEscape(d.witSigV.Name())")
		}
		// ---- C15.d FAILURE-CLASSES
		if success {
			nOK++
			do := calls(s, "(*net/http.Client).Do")
			good := len(reqs) == 1 && len(do) == 1 && do[0].Recv == df("client") && okBefore(s, do[0], 0) && okBefore(s, reqs[0], do[0].Seq)
			if good {
				resp := res(do[0], 0)
				sc := mk("field", "StatusCode", 0, types.Typ[types.Int], resp)
				good = implies(s.Facts, "==", sc, mk("const", "200", 0, types.Typ[types.Int]), true)
				// the request sent is the one built (with the caller's context)
				a0 := do[0].Args[0]
				if !(a0 == res(reqs[0], 0) || (a0.Kind == "call" && a0.Name == "(*net/http.Request).WithContext" && a0.Args[1] == res(reqs[0], 0) && ctxDerived(a0.Args[2], ctx))) {
					good = false
				}
				// method still PUT (redirects may rewrite it)
				m := mk("field", "Method", 0, nil, mk("field", "Request", 0, nil, resp))
				put := mk("const", "\"PUT\"", 0, nil)
				if k, v, _ := eqFact(s, m, put); !(k && v) {
					good = false
				}
			}
			r.Check(good, "C15.d", fnDistForLog+" | success only for a 200 answer to the PUT that was built", w.pos(s.RetPos), "distributeForLog reports success on a path that does not imply client.Do succeeded, the method is still PUT and StatusCode == 200 (e.g. a '< 300' or redirect-following change); path: "+pathString(e, s))
		} else {
			r.Check(len(s.Rets) == 1 && neverNil(s.Rets[0]), "C15.d", fnDistForLog+" | every other arm is a failure", w.pos(s.RetPos), "a non-success arm returns "+short(fmt.Sprint(s.Rets)))
		}
		// counters
		cnt := map[string]int{}
		for _, ie := range calls(s, cInc) {
			if ie.Recv != nil {
				if m, ok := counterName(names, ie.Recv); ok {
					// the overall result is read from these two; counters under other metric names (failure reasons, cycles)
					// are the operator's business and carry their own labels
					if m != "distribute_rest_attempt" && m != "distribute_rest_success" {
						// … but their labels must not be text the distributor service supplies: the Prometheus counter panics on
						// a label that is not valid UTF-8, and the panic ends the whole cycle (the other logs are never attempted)
						if lab := ie.Args[0]; lab != nil && lab.Kind == "varargs" {
							for _, la := range lab.Args {
								peer := anySub(la, func(x *Term) bool {
									return (x.Kind == "field" && (x.Name == "Status" || x.Name == "Proto" || x.Name == "Header" || x.Name == "Trailer")) || (x.Kind == "call" && (x.Name == "io.ReadAll" || strings.HasPrefix(x.Name, "(net/http.Header).")))
								})
								r.Check(!peer, "C15.d", fnDistForLog+" | counter labels are not text supplied by the peer", w.pos(ie.Pos), "counter "+m+" is labelled with "+short(la.String())+", text the distributor service (or a proxy in front of it) supplies: a reason phrase or header that is not valid UTF-8 makes the Prometheus counter panic, which ends the cycle for every log")
							}
						}
						continue
					}
					cnt[m]++
				} else {
					cnt["unknown-counter:"+short(ie.Recv.String())]++
				}
			}
			lab := ie.Args[0]
			r.Check(lab.Kind == "varargs" && len(lab.Args) == 1 && lab.Args[0] == lf("ID"), "C15.d", fnDistForLog+" | counter label is the log ID", w.pos(ie.Pos), "counter label "+short(lab.String()))
		}
		want := map[string]int{"distribute_rest_attempt": 1}
		if success {
			want["distribute_rest_success"] = 1
		}
		r.Check(fmt.Sprint(cnt) == fmt.Sprint(want), "C15.d", fnDistForLog+" | attempt/success counters", w.pos(s.RetPos), fmt.Sprintf("counters %v, want %v", cnt, want))
	}
	if nOK == 0 {
		r.Undecided("C15.d", fnDistForLog, "", "no success path")
	}
	ruleDistributeOnce(w, r)
}

// C15.e PER-LOG-ISOLATION
func ruleDistributeOnce(w *World, r *Run) {
	fn := w.fn(fnDistOnce)
	if fn == nil {
		r.Undecided("C15.e", fnDistOnce, "", "anchor function not found in the type-checked program")
		return
	}
	e := w.engine(5, 2)
	e.hof[cGroupGo] = 0
	sums := e.Explore(fn)
	r.Analysed(fnDistOnce+" (two logs)", len(sums))
	d := recvParam(fn)
	logs := fieldByType(d, "[]config.Log")
	ln := mk("len", "", 0, types.Typ[types.Int], logs)
	names := counterNames(w, newRun("x", "quick", 0), pRest, "C15.e")
	maxIter := 0
	for _, s := range sums {
		if s.Trunc != "" {
			r.Undecided("C15.e", fnDistOnce, "", "path enumeration truncated: "+s.Trunc)
			return
		}
		// one attempt per log: marked by the question put to the witness
		dl := calls(s, cRestGetLatest)
		if len(dl) > maxIter {
			maxIter = len(dl)
		}
		// the loop ran to exhaustion: facts imply len(logs) == number of attempts
		exhausted := implies(s.Facts, "==", ln, mk("const", fmt.Sprint(len(dl)), 0, types.Typ[types.Int]), true)
		r.Check(exhausted, "C15.e", fnDistOnce+" | every configured log is attempted whatever the others did", w.pos(s.RetPos), fmt.Sprintf("DistributeOnce can return after %d attempts without the log list being exhausted (a failing log stops the others); path: %s", len(dl), pathString(e, s)))
		for i, c := range dl {
			// attempt i asks for element i of d.logs, with the caller's context
			okArg := len(c.Args) == 2 && c.Args[0] == paramN(fn, 0) && c.Args[1].Kind == "field" && c.Args[1].Name == "ID" && anySub(c.Args[1], func(t *Term) bool {
				return (t.Kind == "indexaddr" || t.Kind == "index") && t.Args[0] == logs && t.Args[1].Kind == "const" && t.Args[1].Name == fmt.Sprint(i)
			})
			r.Check(okArg, "C15.e", fnDistOnce+" | attempt i is for log i", w.pos(c.Pos), "the witness is asked with "+short(fmt.Sprint(c.Args)))
		}
		// successes are what the success counter says (tied to a 200 answer by C15.d): the overall result is nil exactly
		// when every attempt succeeded
		nSucc := 0
		for _, ie := range calls(s, cInc) {
			if m, _ := counterName(names, ie.Recv); ie.Recv != nil && m == "distribute_rest_success" {
				nSucc++
			}
		}
		if len(s.Rets) == 1 {
			if nSucc < len(dl) {
				r.Check(neverNil(s.Rets[0]), "C15.e", fnDistOnce+" | overall result reports failures", w.pos(s.RetPos), "some log failed but DistributeOnce returns "+short(s.Rets[0].String()))
			} else {
				r.Check(s.Rets[0].Kind == "nil", "C15.e", fnDistOnce+" | overall result nil when nothing failed", w.pos(s.RetPos), "no log failed but DistributeOnce returns an error")
			}
		}
	}
	if maxIter < 2 {
		r.Undecided("C15.e", fnDistOnce, "", "loop over the logs not recognised (fewer than two iterations explored)")
	}
}

// ---------------------------------------------------------------- C16

const (
	cMuxHandleFunc = "(*github.com/gorilla/mux.Router).HandleFunc"
	cMuxHandle     = "(*github.com/gorilla/mux.Router).Handle"
)

func ruleReadAPI(w *World, r *Run) {
	// ---- C16.a HANDLER-VERBATIM, C16.b CODE-TABLE, C16.d LOG-LIST on RegisterHandlers with every handler run in place
	// (the router's HandleFunc/Handle as higher-order calls; helpers inlined; only the witness's methods stay calls)
	ruleReadHandlers(w, r)
	// ---- C16.c CLIENT-MAPPING
	if sums, e, ok := explore(w, r, "C16.c", fnCGetLatest, 4, 1); ok {
		n404, nOK := 0, 0
		clientRecv := recvParam(w.fn(fnCGetLatest))
		for _, s := range sums {
			for _, ev := range eventsOfKind(s, "store", "mapupdate") {
				if ev.Recv != nil && mentions(ev.Recv, clientRecv) {
					r.Fail("C16.c", fnCGetLatest+" | the client does not modify its shared state", w.pos(ev.Pos), "the client writes through its receiver ("+short(ev.Recv.String())+"): clients are shared between goroutines fetching different logs, so one request's URL can be rewritten by another and a fetch can return another log's checkpoint")
				}
			}
			if len(s.Rets) != 2 {
				continue
			}
			do := calls(s, "(*net/http.Client).Do")
			var sc *Term
			if len(do) == 1 {
				sc = mk("field", "StatusCode", 0, types.Typ[types.Int], res(do[0], 0))
			}
			isNotExist := s.Rets[1].Kind == "global" && s.Rets[1].Name == "os.ErrNotExist"
			switch {
			case isNotExist:
				n404++
				good := sc != nil && okBefore(s, do[0], 0) && implies(s.Facts, "==", sc, mk("const", "404", 0, types.Typ[types.Int]), true) && s.Rets[0].Kind == "nil"
				r.Check(good, "C16.c", fnCGetLatest+" | os.ErrNotExist only for a 404 answer", w.pos(s.RetPos), "the client reports 'does not exist' on a path that does not imply StatusCode == 404; path: "+pathString(e, s))
			case s.Rets[1].Kind == "nil" || (s.Rets[1].Kind == "call" && s.Rets[1].Name == "io.ReadAll"):
				nOK++
				ra := calls(s, "io.ReadAll")
				good := sc != nil && okBefore(s, do[0], 0) && implies(s.Facts, "==", sc, mk("const", "200", 0, types.Typ[types.Int]), true) &&
					len(ra) == 1 && ra[0].Args[0] == mk("field", "Body", 0, nil, res(do[0], 0)) && s.Rets[0] == res(ra[0], 0)
				r.Check(good, "C16.c", fnCGetLatest+" | bytes = whole body of a 200 answer", w.pos(s.RetPos), "the client returns bytes on a path that does not imply StatusCode == 200, or not the whole body; path: "+pathString(e, s))
			default:
				r.Check(neverNil(s.Rets[1]) && s.Rets[0].Kind == "nil", "C16.c", fnCGetLatest+" | other answers are errors that are not 'does not exist'", w.pos(s.RetPos), "unexpected return "+short(fmt.Sprint(s.Rets)))
			}
			// URL = path template with the log ID
			for _, sp := range calls(s, "fmt.Sprintf") {
				tc, _ := w.lookup(pAPI, "HTTPGetCheckpoint").(*types.Const)
				f := sp.Args[0]
				va := sp.Args[1]
				good := tc != nil && f.Kind == "const" && f.Name == tc.Val().ExactString() && va.Kind == "varargs" && len(va.Args) == 1 && va.Args[0] == paramN(w.fn(fnCGetLatest), 1)
				if f.Kind == "const" && strings.Contains(f.Name, "/witness/") {
					r.Check(good, "C16.e", fnCGetLatest+" | client formats the same path template with the log ID", w.pos(sp.Pos), "client builds its URL from "+f.Name)
				}
			}
		}
		if n404 == 0 || nOK == 0 {
			r.Fail("C16.c", fnCGetLatest+" | 404 and 200 arms exist", "", fmt.Sprintf("404-arms=%d success-arms=%d", n404, nOK))
		}
	}
	ruleRouteAdmitsIDs(w, r, "C16.e")
}

// C16.e ROUTE-ADMITS-IDS: the route pattern accepts every output of log.ID (lower-case hex SHA-256).
func ruleRouteAdmitsIDs(w *World, r *Run, rule string) {
	fn := w.fn(fnHRegister)
	if fn == nil {
		r.Undecided(rule, fnHRegister, "", "anchor not found")
		return
	}
	// find the Sprintf(api.HTTPGetCheckpoint, <pattern>) constant operands
	tc, _ := w.lookup(pAPI, "HTTPGetCheckpoint").(*types.Const)
	if tc == nil {
		r.Undecided(rule, "api.HTTPGetCheckpoint", "", "constant not found")
		return
	}
	// the route registered for the checkpoint endpoint: the constant path handed to the router on some path of
	// RegisterHandlers (helpers inlined), however it is put together (Sprintf, concatenation, a route table)
	var pattern string
	found := false
	tmplC := constant.StringVal(tc.Val())
	e := w.engine(4, 4)
	sums := e.Explore(fn)
	r.Analysed(fnHRegister, len(sums))
	varRE := regexp.MustCompile(`\{[a-zA-Z_]+:[^{}]*\}`)
	for i := range sums {
		pieceCtx = &sums[i]
		for _, ev := range sums[i].Events {
			if ev.Kind != "call" || !strings.HasPrefix(ev.Callee, "(*github.com/gorilla/mux.Router).") || len(ev.Args) == 0 || ev.Args[0] == nil {
				continue
			}
			pcs := mergeLits(strPieces(ev.Args[0]))
			if len(pcs) != 1 || pcs[0].k != "lit" {
				continue
			}
			route := pcs[0].lit
			if loc := varRE.FindStringIndex(route); loc != nil && route[:loc[0]]+"%s"+route[loc[1]:] == tmplC {
				pattern, found = route[loc[0]:loc[1]], true
			}
		}
	}
	key := fnHRegister + " | route pattern admits every log ID the repository derives"
	if !found {
		r.Undecided(rule, key, w.pos(fn.Pos()), "no route registered with the router is api.HTTPGetCheckpoint with a {name:pattern} variable in place of its placeholder")
		return
	}
	// gorilla/mux variable syntax {name:regexp}
	m := regexp.MustCompile(`^\{([a-zA-Z_]+):(.*)\}$`).FindStringSubmatch(pattern)
	if m == nil {
		r.Undecided(rule, key, w.pos(fn.Pos()), "route variable syntax not understood: "+pattern)
		return
	}
	re, err := regexp.Compile("^(?:" + m[2] + ")$")
	if err != nil {
		r.Fail(rule, key, w.pos(fn.Pos()), "route pattern does not compile: "+err.Error())
		return
	}
	// log.ID is %x of a SHA-256: 64 characters of [0-9a-f]; test the alphabet's extremes and a mix
	samples := []string{strings.Repeat("0", 64), strings.Repeat("9", 64), strings.Repeat("a", 64), strings.Repeat("f", 64), "0123456789abcdef" + strings.Repeat("0f9a", 12)}
	good := m[1] == "logid"
	for _, smp := range samples {
		if !re.MatchString(smp) {
			good = false
		}
	}
	// every hex character individually
	for _, c := range "0123456789abcdef" {
		if !re.MatchString(strings.Repeat(string(c), 64)) {
			good = false
		}
	}
	r.Check(good, rule, key, w.pos(fn.Pos()), "route variable "+pattern+" does not accept 64-character lower-case hex IDs under the name the handler reads (logid)")
	// the client and the server use the same path constant (checked in C16.c) and the template has exactly one verb
	tmpl := constant.StringVal(tc.Val())
	r.Check(strings.Count(tmpl, "%s") == 1 && strings.Count(tmpl, "%") == 1, rule, "api.HTTPGetCheckpoint | one placeholder", "", "path template "+tmpl)
}

// ruleReadAPIAs evaluates the HTTP read handler's verbatim rule (C16.a) under another property's label.
func ruleReadAPIAs(w *World, r *Run, rule string) {
	sub := newRun(r.Prop, r.Tier, r.Seed)
	ruleReadAPI(w, sub)
	n := 0
	for _, v := range sub.verdicts {
		if v.Rule != "C16.a" {
			continue
		}
		n++
		v.Key = rule + strings.TrimPrefix(v.Key, "C16.a")
		v.Rule = rule
		r.verdicts = append(r.verdicts, v)
		r.evals++
	}
	for f := range sub.funcs {
		r.funcs[f] = true
	}
	r.paths += sub.paths
	if n == 0 {
		r.Undecided(rule, fnHGetCP, "", "the read handler's rule produced no verdict")
	}
}

// relabelFrom copies the verdicts of sub whose key contains keyPart into r under another rule label.
func relabelFrom(sub, r *Run, keyPart, rule string) int {
	n := 0
	for _, v := range sub.verdicts {
		if !strings.Contains(v.Key, keyPart) {
			continue
		}
		n++
		v.Key = rule + strings.TrimPrefix(v.Key, v.Rule)
		v.Rule = rule
		r.verdicts = append(r.verdicts, v)
		r.evals++
	}
	for f := range sub.funcs {
		r.funcs[f] = true
	}
	r.paths += sub.paths
	return n
}

// C15.f: Main hands the distributor every configured log (a log left out is never pushed, and nothing reports it).
func ruleDistributorGetsAllLogs(w *World, r *Run, rule string) {
	sub := newRun(r.Prop, r.Tier, r.Seed)
	ruleOneWitness(w, sub, "C17.b")
	if relabelFrom(sub, r, "distributor gets every configured log", rule) == 0 {
		r.Undecided(rule, fnMain+" | distributor gets every configured log", "", "no path of Main hands a log list to the distributor")
	}
}

// ruleDistributorAs re-issues the distributor verdicts of one rule under another property's rule id.
func ruleDistributorAs(w *World, r *Run, from, rule string) {
	sub := newRun(r.Prop, r.Tier, r.Seed)
	ruleDistributor(w, sub)
	n := 0
	for _, v := range sub.verdicts {
		if v.Rule != from {
			continue
		}
		n++
		v.Key = rule + strings.TrimPrefix(v.Key, from)
		v.Rule = rule
		r.verdicts = append(r.verdicts, v)
		r.evals++
	}
	for f := range sub.funcs {
		r.funcs[f] = true
	}
	r.paths += sub.paths
	if n == 0 {
		r.Undecided(rule, fnDistOnce, "", "the distributor's rule "+from+" produced no verdict")
	}
}

// ruleBastionGetsAllLogs: Main hands the bastion endpoint every configured log (same verdicts as C17.b, under another
// property: an origin the witness knows but the endpoint does not is answered "unknown log" instead of by the protocol).
func ruleBastionGetsAllLogs(w *World, r *Run, rule string) {
	sub := newRun(r.Prop, r.Tier, r.Seed)
	ruleOneWitness(w, sub, "C17.b")
	if relabelFrom(sub, r, "bastion endpoint gets every configured log", rule) == 0 {
		r.Undecided(rule, fnMain+" | bastion endpoint gets every configured log", "", "no path of Main hands a log list to the bastion endpoint")
	}
}

func ruleReadHandlers(w *World, r *Run) {
	fn := w.fn(fnHRegister)
	if fn == nil {
		r.Undecided("C16.a", fnHRegister, "", "anchor not found")
		return
	}
	tcC, _ := w.lookup(pAPI, "HTTPGetCheckpoint").(*types.Const)
	tcL, _ := w.lookup(pAPI, "HTTPGetLogs").(*types.Const)
	if tcC == nil || tcL == nil {
		r.Undecided("C16.a", "api path constants", "", "HTTPGetCheckpoint/HTTPGetLogs not found")
		return
	}
	tmplC, tmplL := constant.StringVal(tcC.Val()), constant.StringVal(tcL.Val())
	e := w.engine(6, 4)
	e.opaque[fnGetCheckpoint], e.opaque[fnGetLogs] = true, true
	e.hof[cMuxHandleFunc], e.hof[cMuxHandle] = 1, 1
	e.hofMethod[cMuxHandle] = "ServeHTTP"
	sums := e.Explore(fn)
	r.Analysed(fnHRegister+" ∘ handlers", len(sums))
	srv := recvParam(fn)
	nf := codesConst(w, "NotFound")
	varRE := regexp.MustCompile(`\{[a-zA-Z_]+:[^{}]*\}`)
	nCP, nLogs, nOK, nNF := 0, 0, 0, 0
	for i := range sums {
		s := sums[i]
		if s.Trunc != "" {
			r.Undecided("C16.a", fnHRegister, "", "path enumeration truncated: "+s.Trunc)
			return
		}
		pieceCtx = &sums[i]
		for _, reg := range calls(s, cMuxHandleFunc, cMuxHandle) {
			pcs := mergeLits(strPieces(reg.Args[0]))
			if len(pcs) != 1 || pcs[0].k != "lit" {
				continue
			}
			route := pcs[0].lit
			kind := ""
			if loc := varRE.FindStringIndex(route); loc != nil && route[:loc[0]]+"%s"+route[loc[1]:] == tmplC {
				kind = "checkpoint"
			} else if route == tmplL {
				kind = "logs"
			}
			if kind == "" {
				continue
			}
			// the events of this handler's run
			var g []Event
			for _, ev := range s.Events {
				if ev.HOFSeq == reg.Seq && ev.InHOF != "" {
					g = append(g, ev)
				}
			}
			gs := s
			gs.Events = g
			if len(g) == 0 {
				r.Undecided("C16.a", fnHRegister+" | handler of "+route, w.pos(reg.Pos), "the handler registered for this route could not be run in place")
				continue
			}
			wr := calls(gs, cRWWrite)
			whs := calls(gs, cWriteHeader)
			he := calls(gs, "net/http.Error")
			switch kind {
			case "checkpoint":
				nCP++
				hk := "GET checkpoint handler"
				gc := calls(gs, fnGetCheckpoint)
				if len(gc) != 1 || gc[0].Recv != fieldByType(srv, "*witness.Witness") {
					r.Fail("C16.a", hk+" | reads through the witness", w.pos(reg.Pos), "handler does not call GetCheckpoint exactly once on the server's witness")
					continue
				}
				id := gc[0].Args[0]
				idOK := id.Kind == "lookup" && id.Args[0].Kind == "call" && id.Args[0].Name == "github.com/gorilla/mux.Vars" && id.Args[0].Args[2].Kind == "param" && typeStr(id.Args[0].Args[2].Typ) == "*http.Request" && id.Args[1].Kind == "const" && id.Args[1].Name == "\"logid\""
				r.Check(idOK, "C16.a", hk+" | log ID = route variable of this request", w.pos(gc[0].Pos), "GetCheckpoint is called with "+short(id.String()))
				k, isNil, _ := nilFact(s, errRes(gc[0]))
				switch {
				case k && isNil:
					nOK++
					good := len(wr) == 1 && wr[0].Recv != nil && wr[0].Recv.Kind == "param" && wr[0].Args[0] == res(gc[0], 0) && len(he) == 0
					for _, h := range whs {
						if c, _ := constInt(h.Args[0]); c != "200" {
							good = false
						}
					}
					r.Check(good, "C16.a", hk+" | 200 with exactly the stored bytes", w.pos(s.RetPos), "success path does not write exactly GetCheckpoint's bytes with a 200")
				case k && !isNil:
					code := ""
					switch {
					case len(he) == 1 && len(whs) == 0:
						code, _ = constInt(he[0].Args[2])
					case len(whs) == 1 && len(he) == 0:
						code, _ = constInt(whs[0].Args[0])
					}
					for _, x := range wr {
						if x.Args[0] == res(gc[0], 0) {
							code = "body" // checkpoint bytes on an error arm
						}
					}
					kn, isNF, _ := notFoundFact(w, s, errRes(gc[0]))
					_ = nf
					switch {
					case kn && isNF:
						nNF++
						r.Check(code == "404", "C16.b", hk+" | NotFound from the witness -> 404", w.pos(s.RetPos), "a NotFound error of GetCheckpoint is answered "+code)
					default:
						r.Check(code != "" && code != "404" && code != "200" && code != "body", "C16.b", hk+" | other errors are neither 404 nor 200", w.pos(s.RetPos), "an error of GetCheckpoint that is not NotFound is answered "+code+" (the client would take it for 'no checkpoint yet' or for success)")
					}
				default:
					r.Fail("C16.a", hk+" | error checked", w.pos(s.RetPos), "GetCheckpoint's error is not examined")
				}
			case "logs":
				gl := calls(gs, fnGetLogs)
				jm := calls(gs, "encoding/json.Marshal")
				if len(wr) == 1 && len(gl) == 1 && okBefore(s, gl[0], 0) {
					nLogs++
					good := len(jm) == 1 && jm[0].Args[0] == res(gl[0], 0) && okBefore(s, jm[0], 0) && wr[0].Args[0] == res(jm[0], 0)
					// an empty list instead of the witness's nil list ("[]" rather than "null"): the same set of logs
					if !good && len(jm) == 1 && okBefore(s, jm[0], 0) && wr[0].Args[0] == res(jm[0], 0) {
						arg := jm[0].Args[0]
						if arg != nil && arg.Kind == "alloc" {
							if mv, ok := s.Mem[arg.key]; ok {
								arg = mv
							}
						}
						if n, known := knownLen(arg); known && n == 0 {
							if k, isNil, _ := nilFact(s, res(gl[0], 0)); k && isNil {
								good = true
							}
						}
					}
					r.Check(good, "C16.d", "GET logs handler | body = JSON of the witness's log list", w.pos(s.RetPos), "log list response is not json.Marshal(GetLogs()) written as is")
				}
			}
		}
	}
	if nCP == 0 || nOK == 0 {
		r.Undecided("C16.a", fnHRegister+" | checkpoint route", "", fmt.Sprintf("checkpoint handler runs=%d success paths=%d", nCP, nOK))
	}
	if nNF == 0 {
		r.Fail("C16.b", "GET checkpoint handler | NotFound from the witness -> 404", "", "no path answers a NotFound error of GetCheckpoint")
	}
	if nLogs == 0 {
		r.Undecided("C16.d", fnHRegister+" | logs route", "", "no success path of the log-list handler")
	}
}

// ctxDerived: t is ctx or a context derived from it by context.WithTimeout/WithDeadline/WithCancel (a bound added on
// top of the caller's context keeps the caller's cancellation).
func ctxDerived(t, ctx *Term) bool {
	for i := 0; i < 4 && t != nil; i++ {
		if t == ctx {
			return true
		}
		if t.Kind == "call" && (t.Name == "context.WithTimeout" || t.Name == "context.WithDeadline" || t.Name == "context.WithCancel" || t.Name == "context.WithValue") && t.Idx <= 1 && len(t.Args) >= 3 {
			t = t.Args[2]
			continue
		}
		return false
	}
	return false
}

package main

// Rules over the bastion add-checkpoint endpoint: C10.a-e, C09.b, C11 (parseBody side), C19.d/e/f pieces.

import (
	"fmt"
	"go/types"
	"sort"
	"strings"

	"golang.org/x/tools/go/ssa"
)

const (
	fnServeHTTP      = "(*" + pBastion + ".addHandler).ServeHTTP"
	fnHandleUpdate   = "(*" + pBastion + ".addHandler).handleUpdate"
	fnParseBody      = pBastion + ".parseBody"
	fnFeedBastion    = pBastion + ".FeedBastion"
	fnConnect        = pBastion + ".connectAndServe"
	cFeederUpdate    = "(" + pFeeder + ".Witness).Update"
	cFeederGetLatest = "(" + pFeeder + ".Witness).GetLatestCheckpoint"
	cWriteHeader     = "(net/http.ResponseWriter).WriteHeader"
	cRWWrite         = "(net/http.ResponseWriter).Write"
	cAllow           = "(*golang.org/x/time/rate.Limiter).Allow"
)

// outcome classes of Update, taken from its real path summaries
type updOutcome struct {
	err   string // "nil" | sentinel global | "other-error"
	bytes string // nil stored cosigned ...
}

func updateOutcomes(a *updAnalysis) []updOutcome {
	seen := map[updOutcome]bool{}
	var out []updOutcome
	for _, v := range a.paths {
		o := updOutcome{v.outcome, v.bytes}
		if v.outcome == "accepted" {
			o.err = "nil"
		}
		if !seen[o] {
			seen[o] = true
			out = append(out, o)
		}
	}
	sort.Slice(out, func(i, j int) bool { return out[i].err+out[i].bytes < out[j].err+out[j].bytes })
	return out
}

type huPath struct {
	s      Summary
	status string // effective status constant
	ct     *Term
	body   *Term
	errRet *Term
}

func constInt(t *Term) (string, bool) {
	if t != nil && t.Kind == "const" {
		return t.Name, true
	}
	return "", false
}

var wantStatus = map[string]string{
	"nil":                             "200",
	pWitness + ".ErrUnknownLog":       "404",
	pWitness + ".ErrNoValidSignature": "403",
	pWitness + ".ErrOldSizeInvalid":   "400",
	pWitness + ".ErrCheckpointStale":  "409",
	pWitness + ".ErrRootMismatch":     "409",
	pWitness + ".ErrInvalidProof":     "422",
	"other-error":                     "500",
}

// ---------------------------------------------------------------- C11: parseBody

// C11.b REFUSAL-IS-TOTAL (parseBody half) and C11.d ORDER-PRESERVING
func ruleParseBodyTotal(w *World, r *Run, ruleB, ruleD string) {
	ruleE := "C11.e"
	if !strings.HasPrefix(ruleD, "C11") {
		ruleE = ruleD
	}
	sums, e, ok := explore(w, r, ruleB, fnParseBody, 4, 2)
	if !ok {
		return
	}
	nOK := 0
	for _, s := range sums {
		if len(s.Rets) != 4 {
			continue
		}
		er := s.Rets[3]
		k, isNil, _ := nilFact(s, er)
		definitelyNil := er.Kind == "nil" || (k && isNil)
		definitelyErr := neverNil(er) || (k && !isNil)
		// blank separator consumed: a ReadLine whose line has length 0
		sep := false
		for _, rl := range calls(s, "(*bufio.Reader).ReadLine", "(*bufio.Reader).ReadString", "(*bufio.Reader).ReadBytes") {
			ln := mk("len", "", 0, types.Typ[types.Int], res(rl, 0))
			if kk, v, _ := eqConstFact(s, ln, "0"); kk && v {
				sep = true
			}
		}
		// … or a line assembled from several ReadLine fragments (a line longer than the reader's buffer) found empty
		if !sep {
			isLine := func(t *Term) bool {
				ok := false
				for t != nil && t.Kind == "append" && len(t.Args) == 2 {
					el := t.Args[1]
					if !(el.Kind == "call" && strings.HasPrefix(el.Name, "(*bufio.Reader).Read")) {
						return false
					}
					ok = true
					t = t.Args[0]
				}
				return ok && t != nil && (t.Kind == "nil" || t.Kind == "zero" || t.Kind == "alloc")
			}
			for _, f := range s.Facts {
				if x := assertsEmpty(f); x != nil && isLine(x) {
					sep = true
				}
			}
		}
		switch {
		case definitelyNil:
			key := fnParseBody + " | success only after the blank separator"
			r.Check(sep, ruleB, key, w.pos(s.RetPos), "parseBody can return a nil error without having consumed the blank line that separates the proof from the checkpoint (a body is 'partly understood'); path: "+pathString(e, s))
			if sep {
				nOK++
				// ---- C11.d: checkpoint = unmodified remainder of the same reader; proof elements appended in read order
				ra := calls(s, "io.ReadAll")
				nr := calls(s, "bufio.NewReader")
				good := len(ra) == 1 && len(nr) == 1 && ra[0].Args[0] == nr[0].Res && s.Rets[2] == res(ra[0], 0) && okBefore(s, ra[0], 0)
				r.Check(good, ruleD, fnParseBody+" | checkpoint = unmodified remainder of the body", w.pos(s.RetPos), "the checkpoint returned is not exactly what remains of the reader after the blank line: "+short(s.Rets[2].String()))
				// every line between the size line and the blank separator is a proof line and is decoded: a line that is
				// read and dropped makes the parser accept what it has not understood
				{
					rls := calls(s, "(*bufio.Reader).ReadLine", "(*bufio.Reader).ReadString", "(*bufio.Reader).ReadBytes")
					var decArgs []*Term
					for _, d := range calls(s, decodeMethods...) {
						decArgs = append(decArgs, d.Args...)
					}
					var sizeArgs []*Term
					for _, c := range calls(s, "strconv.ParseUint", "strconv.ParseInt", "strconv.Atoi", "strings.CutPrefix", "strings.HasPrefix", "strings.TrimPrefix", "bytes.CutPrefix", "bytes.HasPrefix", "bytes.TrimPrefix") {
						sizeArgs = append(sizeArgs, c.Args...)
					}
					for _, rl := range rls {
						line := res(rl, 0)
						if kk, v, _ := eqConstFact(s, mk("len", "", 0, types.Typ[types.Int], line), "0"); kk && v {
							continue // the separator
						}
						used := false
						for _, a := range sizeArgs {
							if a != nil && mentions(a, line) {
								used = true // (a fragment of) the size line
							}
						}
						for _, f := range s.Facts {
							if x := assertsEmpty(f); x != nil && mentions(x, line) {
								used = true // part of a joined line found empty: the separator
							}
						}
						for _, a := range decArgs {
							if a != nil && mentions(a, line) {
								used = true
							}
						}
						// a fragment of a long line that a helper joins before decoding
						for _, a := range decArgs {
							if a != nil && anySub(a, func(t *Term) bool { return t.Kind == "append" && mentions(t, line) }) {
								used = true
							}
						}
						r.Check(used, ruleD, fnParseBody+" | every proof line read is decoded", w.pos(rl.Pos), "a line read between the size line and the blank separator is not handed to the base64 decoder on this path: it is consumed and ignored (a proof line that is not base64 is accepted, hashes that were written are not returned); path: "+pathString(e, s))
					}
				}
				// proof list
				dec := calls(s, "(*encoding/base64.Encoding).DecodeString", "(*encoding/base64.Encoding).Decode", "(*encoding/base64.Encoding).AppendDecode")
				pt := s.Rets[1]
				var elems []*Term
				for pt.Kind == "append" {
					var el []*Term
					for _, x := range pt.Args[1:] {
						if x.Kind == "varargs" {
							el = append(el, x.Args...)
						} else {
							el = append(el, x)
						}
					}
					elems = append(el, elems...)
					pt = pt.Args[0]
				}
				good = len(elems) == len(dec) && (pt.Kind == "alloc" || pt.Kind == "nil" || pt.Kind == "zero" || pt.Kind == "varargs" && len(pt.Args) == 0)
				for i := range elems {
					if i < len(dec) && !isDecodedValue(elems[i], dec[i]) {
						good = false
					}
				}
				r.Check(good, ruleD, fnParseBody+" | one proof hash per decoded line, in read order", w.pos(s.RetPos), fmt.Sprintf("proof list %s does not consist of the %d decoded lines in order", short(s.Rets[1].String()), len(dec)))
				// each decode is of a whole line read from the body (no partial line), however it travelled
				for _, d := range dec {
					okLine := false
					src := d.Args[0]
					if strings.HasSuffix(d.Callee, ").Decode") && len(d.Args) == 2 {
						src = d.Args[1] // Decode(dst, src)
					} else if strings.HasSuffix(d.Callee, ").AppendDecode") && len(d.Args) == 2 {
						src = d.Args[1]
					}
					for _, rl := range calls(s, "(*bufio.Reader).ReadLine", "(*bufio.Reader).ReadString", "(*bufio.Reader).ReadBytes") {
						if mentions(src, res(rl, 0)) {
							okLine = true
						}
					}
					if anySub(src, func(t *Term) bool { return t.Kind == "slice" && (t.Args[1] != nil || t.Args[2] != nil) }) {
						okLine = false
					}
					r.Check(okLine, ruleD, fnParseBody+" | proof line decoded whole", w.pos(d.Pos), "base64 decoding is applied to "+short(src.String())+", not to a whole line read from the body")
				}
				// size result derives from the first line
				r.Check(s.Rets[0].Kind != "const" && s.Rets[0].Kind != "zero", ruleD, fnParseBody+" | old size comes from the size line", w.pos(s.RetPos), "old size result is the constant "+short(s.Rets[0].String()))
			}
		case definitelyErr:
			key := fnParseBody + " | refusal returns nothing else"
			zero := func(t *Term) bool { return t.Kind == "nil" || t.Kind == "zero" || (t.Kind == "const" && t.Name == "0") }
			r.Check(zero(s.Rets[0]) && zero(s.Rets[1]) && zero(s.Rets[2]), ruleB, key, w.pos(s.RetPos), "an error return of parseBody also hands back partial results")
		default:
			r.Fail(ruleB, fnParseBody+" | error result decided on every path", w.pos(s.RetPos), "parseBody returns an error value that may be nil without the path having established the request to be well-formed; path: "+pathString(e, s))
		}
	}
	if nOK == 0 {
		r.Undecided(ruleB, fnParseBody, "", "no success path recognised")
	}
	// C11.e RETAINED-BUFFER (ownership): bufio.Reader.ReadLine returns a view into the reader's buffer that is only
	// valid until the next read; it may be measured, converted (copied) or passed on, never retained.
	nRL := 0
	// explored again with copies kept distinct from their source: this rule is about aliasing, not about values
	aliasSums := sums
	if afn := w.fn(fnParseBody); afn != nil {
		ae := w.engine(4, 2)
		ae.cloneFresh = true
		aliasSums = ae.Explore(afn)
	}
	for _, s := range aliasSums {
		for _, rl := range calls(s, "(*bufio.Reader).ReadLine") {
			nRL++
			line := res(rl, 0)
			retained := ""
			for _, ret := range s.Rets {
				if rawMention(ret, line) {
					retained = "returned"
				}
			}
			for _, ev := range s.Events {
				if ev.Kind == "store" && rawMention(ev.Args[0], line) {
					retained = "stored"
				}
			}
			// typestate: the view dies at the next read on the same reader; any use of it after that (including the copying
			// conversion string(line) evaluated only then) reads bytes that may have been overwritten
			nextRead := 0
			for _, ev := range s.Events {
				if ev.Kind != "call" || ev.Seq <= rl.Seq {
					continue
				}
				readsIt := (ev.Recv == rl.Recv && strings.HasPrefix(ev.Callee, "(*bufio.Reader).") && !strings.HasSuffix(ev.Callee, ".Buffered") && !strings.HasSuffix(ev.Callee, ".Size"))
				for _, a0 := range ev.Args {
					if a0 == rl.Recv && (ev.Callee == "io.ReadAll" || ev.Callee == "io.Copy" || ev.Callee == "io.ReadFull") {
						readsIt = true
					}
				}
				if readsIt {
					nextRead = ev.Seq
					break
				}
			}
			if nextRead > 0 {
				for _, ev := range s.Events {
					if ev.Seq <= nextRead {
						continue
					}
					used := false
					for _, a0 := range ev.Args {
						if a0 != nil && rawMention(a0, line) {
							used = true
						}
					}
					if ev.Recv != nil && rawMention(ev.Recv, line) {
						used = true
					}
					if used && calleePkg(ev.Callee) != "k8s.io/klog/v2" {
						retained = "used after the next read on the same reader (" + ev.Kind + " " + short(ev.Callee) + ")"
					}
				}
			}
			// appended raw into a slice that lives on
			for _, ev := range s.Events {
				for _, a0 := range ev.Args {
					if a0 != nil && anySub(a0, func(t *Term) bool {
						if t.Kind != "append" {
							return false
						}
						for _, el := range t.Args[1:] {
							if (el == line && !copiesElements(t)) || (el.Kind == "varargs" && containsTerm(el.Args, line)) {
								return true
							}
						}
						return false
					}) {
						retained = "appended to a slice"
					}
				}
			}
			for _, ret := range s.Rets {
				if anySub(ret, func(t *Term) bool {
					if t.Kind != "append" {
						return false
					}
					for _, el := range t.Args[1:] {
						if (el == line && !copiesElements(t)) || (el.Kind == "varargs" && containsTerm(el.Args, line)) {
							return true
						}
					}
					return false
				}) {
					retained = "appended to the result"
				}
			}
			r.Check(retained == "", ruleE, fnParseBody+" | ReadLine's buffer view is not retained across reads", w.pos(rl.Pos), "the slice returned by bufio.Reader.ReadLine is "+retained+" without being copied; it is overwritten by the next read, so bodies larger than the buffer (or delivered in several chunks) parse to different bytes than were written")
		}
	}
	if nRL == 0 {
		r.Info(ruleE, fnParseBody+" | ReadLine", "", "parseBody no longer uses ReadLine")
	}
}

// isDecodedValue: t is what the decode call produced: the result of DecodeString/AppendDecode, or buf[:n] for
// n, err := enc.Decode(buf, src).
func isDecodedValue(t *Term, dec Event) bool {
	if t == res(dec, 0) && !strings.HasSuffix(dec.Callee, ").Decode") {
		return true
	}
	if strings.HasSuffix(dec.Callee, ").Decode") && len(dec.Args) == 2 && t != nil && t.Kind == "slice" && len(t.Args) == 3 {
		return t.Args[0] == dec.Args[0] && t.Args[1] == nil && t.Args[2] == res(dec, 0)
	}
	return false
}

// copiesElements: an append whose elements are of basic type (bytes): append(dst, src...) copies src's contents.
func copiesElements(t *Term) bool {
	if t == nil || t.Typ == nil {
		return false
	}
	sl, ok := t.Typ.Underlying().(*types.Slice)
	if !ok {
		return false
	}
	_, basic := sl.Elem().Underlying().(*types.Basic)
	return basic
}

func containsTerm(ts []*Term, x *Term) bool {
	for _, t := range ts {
		if t == x {
			return true
		}
	}
	return false
}

// rawMention: x occurs in t other than under a copying conversion (string(x)) or len(x).
func rawMention(t, x *Term) bool {
	if t == nil {
		return false
	}
	if t == x {
		return true
	}
	if t.Kind == "conv" || t.Kind == "len" || t.Kind == "call" {
		return false
	}
	if t.Kind == "append" && copiesElements(t) && len(t.Args) >= 1 {
		// append(dst, view...) on bytes copies the view's contents: only dst can carry the view itself
		return rawMention(t.Args[0], x)
	}
	for _, a := range t.Args {
		if rawMention(a, x) {
			return true
		}
	}
	return false
}

// C11.c STRICT-INTEGER: no fmt.Sscan* family in functions reachable from the endpoint.
func ruleStrictInteger(w *World, r *Run, rule string) {
	roots := []*ssa.Function{w.fn(fnServeHTTP)}
	if roots[0] == nil {
		r.Undecided(rule, fnServeHTTP, "", "anchor not found")
		return
	}
	reach := reachableModule(w, roots)
	n := 0
	bad := 0
	for fn := range reach {
		n++
		for _, b := range fn.Blocks {
			for _, in := range b.Instrs {
				c, ok := in.(ssa.CallInstruction)
				if !ok {
					continue
				}
				sc := c.Common().StaticCallee()
				if sc == nil {
					continue
				}
				name := funcName(sc)
				if strings.HasPrefix(name, "fmt.Sscan") || strings.HasPrefix(name, "fmt.Fscan") || strings.HasPrefix(name, "fmt.Scan") {
					bad++
					r.Fail(rule, funcNameOrSSA(fn)+" | protocol integers parsed by a whole-string parser", w.pos(in.Pos()), name+" matches a prefix of its input: \"old 10xyz\" parses as 10, \"old 0x10\" as 0, \"old 5 6\" as 5; the size line must be refused unless it is exactly 'old <decimal>'")
				}
			}
		}
	}
	if bad == 0 {
		// positive side: the size line is parsed by strconv.ParseUint on the remainder after the required prefix
		good := false
		if sums, _, ok := explore(w, r, rule, fnParseBody, 4, 1); ok {
			for _, s := range sums {
				for _, pu := range calls(s, "strconv.ParseUint") {
					if len(pu.Args) == 3 {
						b10, _ := constInt(pu.Args[1])
						b64, _ := constInt(pu.Args[2])
						if b10 == "10" && b64 == "64" {
							good = true
						}
						// … on the whole remainder of the line: a line cut to a fixed length before it is parsed ("old
						// 100000000000000000000" read as 10^19) is partly understood
						if anySub(pu.Args[0], func(x *Term) bool { return x.Kind == "slice" && len(x.Args) == 3 && x.Args[2] != nil }) {
							bad++
							r.Fail(rule, fnParseBody+" | the size line is parsed whole", w.pos(pu.Pos), "the text handed to ParseUint is the line cut at an upper bound ("+short(pu.Args[0].String())+"): a size line longer than the cut is accepted for its prefix instead of being refused")
						}
					}
				}
			}
		}
		r.Check(good, rule, fnParseBody+" | protocol integers parsed by a whole-string parser", w.pos(w.fn(fnParseBody).Pos()), "old size is not parsed with strconv.ParseUint(…, 10, 64) on the whole remainder of the line")
	}
	r.extra["functions_reachable_from_endpoint"] = n
}

// reachableModule: module functions reachable from roots through static calls, closures and
// (conservatively) every module implementation of invoked interface methods.
func reachableModule(w *World, roots []*ssa.Function) map[*ssa.Function]bool {
	seen := map[*ssa.Function]bool{}
	var work []*ssa.Function
	push := func(f *ssa.Function) {
		if f != nil && f.Blocks != nil && !seen[f] && strings.HasPrefix(pkgPathOf(f), modPath) {
			seen[f] = true
			work = append(work, f)
		}
	}
	for _, r := range roots {
		push(r)
	}
	for len(work) > 0 {
		fn := work[len(work)-1]
		work = work[:len(work)-1]
		for _, a := range fn.AnonFuncs {
			push(a)
		}
		for _, b := range fn.Blocks {
			for _, in := range b.Instrs {
				for _, op := range in.Operands(nil) {
					if f, ok := (*op).(*ssa.Function); ok {
						push(f)
					}
					if mc, ok := (*op).(*ssa.MakeClosure); ok {
						push(mc.Fn.(*ssa.Function))
					}
				}
				c, ok := in.(ssa.CallInstruction)
				if !ok {
					continue
				}
				cc := c.Common()
				if sc := cc.StaticCallee(); sc != nil {
					push(sc)
					continue
				}
				if cc.IsInvoke() {
					for _, m := range w.implementations(cc.Method) {
						push(m)
					}
				}
			}
		}
	}
	return seen
}

// implementations returns module methods implementing the interface method m.
func (w *World) implementations(m *types.Func) []*ssa.Function {
	var out []*ssa.Function
	recv := m.Type().(*types.Signature).Recv()
	if recv == nil {
		return nil
	}
	iface, ok := recv.Type().Underlying().(*types.Interface)
	if !ok {
		return nil
	}
	for _, p := range w.pkgs {
		scope := p.Types.Scope()
		for _, n := range scope.Names() {
			tn, ok := scope.Lookup(n).(*types.TypeName)
			if !ok {
				continue
			}
			for _, t := range []types.Type{tn.Type(), types.NewPointer(tn.Type())} {
				if _, isI := t.Underlying().(*types.Interface); isI {
					continue
				}
				if types.Implements(t, iface) {
					if f := w.prog.LookupMethod(t, m.Pkg(), m.Name()); f != nil {
						out = append(out, f)
					}
				}
			}
		}
	}
	return out
}

package main

// Path engine: enumerates every control-flow path of a root function over go/ssa,
// inlining module callees, and produces per-path effect summaries (events, branch
// facts, returned terms). Conditions are uninterpreted terms; false paths are pruned
// by polarity conflicts, nil-ness and the zone domain (order.go). No code is executed
// and no solver is involved.

import (
	"fmt"
	"go/constant"
	"go/token"
	"go/types"
	"math/big"
	"os"
	"sort"
	"strconv"
	"strings"
	"time"

	"golang.org/x/tools/go/ssa"
)

type Fact struct {
	T   *Term
	Pos bool
	Seq int
	At  token.Pos
}

func (f Fact) String() string {
	if f.Pos {
		return f.T.String()
	}
	return "!" + f.T.String()
}

type Event struct {
	Kind   string // call defer go store mapupdate mapread send recv iter iterdone panic
	Callee string // canonical: types.Func.FullName(), or ssa name for closures, "dyn", "builtin:x"
	Fn     *ssa.Function
	Recv   *Term
	Args   []*Term
	Res    *Term
	Pos    token.Pos
	AtExit bool
	Ctx    string
	Seq    int
	Depth  int
	InFn   *ssa.Function    // function whose body contains the instruction
	Binds  map[string]*Term // contents of closure-captured cells at call time (key: alloc term key)
	InHOF  string           // non-empty: executed inside the function argument of this higher-order callee (e.g. a goroutine body)
	HOFSeq int              // sequence number of the higher-order call event that runs it
}

type Summary struct {
	Root   *ssa.Function
	Events []Event
	Facts  []Fact
	Rets   []*Term
	RetPos token.Pos
	Mem    map[string]*Term
	Panic  bool
	Trunc  string
}

type deferred struct {
	callee  string
	fn      *ssa.Function // if inlinable
	sfn     *ssa.Function // resolved callee (even if not inlinable)
	recv    *Term
	args    []*Term
	pos     token.Pos
	closure *Term
}

type frame struct {
	fn        *ssa.Function
	env       map[ssa.Value]*Term
	ctx       string
	depth     int
	block     *ssa.BasicBlock
	idx       int
	prev      *ssa.BasicBlock
	defers    []deferred
	visits    map[int]int
	callInst  ssa.Instruction
	fromDefer bool
	hofOf     string // non-empty: this frame is the function argument of that higher-order callee
	hofSeq    int
}

type state struct {
	stack  []*frame
	mem    map[string]*Term
	facts  []Fact
	events []Event
	trunc  string
	seq    int
	epoch  int // number of lock acquisitions so far: reads of a bound store's map in different critical sections are different values
}

func (s *state) clone() *state {
	n := &state{mem: make(map[string]*Term, len(s.mem)), trunc: s.trunc, seq: s.seq, epoch: s.epoch}
	for k, v := range s.mem {
		n.mem[k] = v
	}
	n.facts = append([]Fact(nil), s.facts...)
	n.events = append([]Event(nil), s.events...)
	for _, f := range s.stack {
		nf := *f
		nf.env = make(map[ssa.Value]*Term, len(f.env))
		for k, v := range f.env {
			nf.env[k] = v
		}
		nf.visits = make(map[int]int, len(f.visits))
		for k, v := range f.visits {
			nf.visits[k] = v
		}
		nf.defers = append([]deferred(nil), f.defers...)
		n.stack = append(n.stack, &nf)
	}
	return n
}

type Engine struct {
	prog      *ssa.Program
	fset      *token.FileSet
	modPrefix string
	maxDepth  int
	loopBound int
	maxPaths  int
	// scalarLoopsOnce: loops ranging over a slice or array of strings/numbers are unrolled once whatever the loop bound
	scalarLoopsOnce bool
	// cloneFresh: bytes.Clone/slices.Clone yield a distinct value (for rules about aliasing rather than about values)
	cloneFresh       bool
	funcByName       map[string]*ssa.Function
	out              []Summary
	root             *ssa.Function
	opaque           map[string]bool                           // canonical callee names never inlined
	globalInit       map[string]*Term                          // initial values of package-level variables that are never reassigned after init (key: gaddr term key)
	ifaceFlow        func(types.Type) (types.Type, types.Type) // devirt.go
	fieldFunc        func(ssa.Value) *ssa.Function             // devirt.go
	variadicUnused   func(*ssa.Function) bool                  // devirt.go
	fieldConst       func(*ssa.FieldAddr) *ssa.Const           // devirt.go
	fieldConstByName func(string, string) *ssa.Const           // devirt.go
	uniqueImpl       func(*types.Func) *ssa.Function           // the single production implementation of an interface method in the module, if any
	maxRec           int                                       // how many recursive activations of one function may be inlined
	stub             map[string][]*Term                        // callee -> fixed results (composition with an outcome class of the callee)
	hofMethod        map[string]string                         // higher-order callee taking an interface value -> the method of it that is run
	hof              map[string]int                            // opaque higher-order callee -> index of the function argument it runs (modelled as one synchronous call)
	bind             map[string]*Term                          // term key -> replacement (composition presets)
	stats            struct{ paths, pruned, loopcut int }
}

func (e *Engine) inModule(fn *ssa.Function) bool {
	if fn == nil || fn.Blocks == nil {
		return false
	}
	if fn.Pkg == nil && fn.Parent() == nil && strings.HasPrefix(fn.Synthetic, "wrapper for ") && fn.Signature.Recv() != nil {
		// a promotion wrapper of a module type (sqlDB embedding *sql.DB): its body loads the embedded field and calls the real
		// method, which is what the rules want to see
		rt := fn.Signature.Recv().Type()
		if p, ok := rt.(*types.Pointer); ok {
			rt = p.Elem()
		}
		if n, ok := rt.(*types.Named); ok && n.Obj().Pkg() != nil && strings.HasPrefix(n.Obj().Pkg().Path(), e.modPrefix) {
			return true
		}
	}
	return strings.HasPrefix(pkgPathOf(fn), e.modPrefix)
}

func pkgPathOf(fn *ssa.Function) string {
	for f := fn; f != nil; f = f.Parent() {
		if f.Pkg != nil {
			return f.Pkg.Pkg.Path()
		}
		if o := f.Origin(); o != nil && o.Pkg != nil {
			return o.Pkg.Pkg.Path()
		}
		if obj := f.Object(); obj != nil && obj.Pkg() != nil {
			return obj.Pkg().Path()
		}
	}
	return ""
}

// funcName is the canonical, type-resolved name of a function.
func funcName(fn *ssa.Function) string {
	if fn == nil {
		return "dyn"
	}
	if obj, ok := fn.Object().(*types.Func); ok && obj != nil {
		n := obj.FullName()
		if a, ok := nameAlias[n]; ok {
			return a // a renamed or moved anchor, found by its role: reported under its canonical name
		}
		return n
	}
	if o := fn.Origin(); o != nil {
		return funcName(o)
	}
	return fn.String()
}

func (e *Engine) posStr(p token.Pos) string {
	if !p.IsValid() {
		return "?"
	}
	pp := e.fset.Position(p)
	f := pp.Filename
	if i := strings.LastIndex(f, "/"); i >= 0 {
		f = f[i+1:]
	}
	return fmt.Sprintf("%s:%d", f, pp.Line)
}

func (e *Engine) posLong(p token.Pos) string {
	if !p.IsValid() {
		return "?"
	}
	pp := e.fset.Position(p)
	return fmt.Sprintf("%s:%d", strings.TrimPrefix(pp.Filename, "/repo/"), pp.Line)
}

// Explore enumerates the paths of root.
func (e *Engine) Explore(root *ssa.Function) []Summary {
	e.out = nil
	e.root = root
	fr := &frame{fn: root, env: map[ssa.Value]*Term{}, ctx: "", block: root.Blocks[0], visits: map[int]int{}}
	for i, p := range root.Params {
		fr.env[p] = e.rebind(mk("param", p.Name(), 0, p.Type()))
		// variadic options that no production caller passes (New(opts, options...)): the root is explored as production calls it
		if root.Signature.Variadic() && i == len(root.Params)-1 && e.variadicUnused != nil && e.variadicUnused(root) {
			fr.env[p] = mk("nil", "", 0, p.Type())
		}
	}
	for _, fv := range root.FreeVars {
		fr.env[fv] = e.rebind(mk("freevar", fv.Name(), 0, fv.Type()))
	}
	st := &state{stack: []*frame{fr}, mem: map[string]*Term{}}
	work := []*state{st}
	rounds, began := 0, time.Now()
	for len(work) > 0 {
		s := work[len(work)-1]
		work = work[:len(work)-1]
		if len(e.out) > e.maxPaths {
			e.out = append(e.out, Summary{Root: root, Trunc: "path cap"})
			break
		}
		// a work budget besides the path cap: a change that makes the exploration explode (a loop over input inside a
		// composed root) must end in an undecided verdict, not in a check that never returns
		rounds++
		if rounds > 40*e.maxPaths || (rounds%4096 == 0 && time.Since(began) > 90*time.Second) {
			e.out = append(e.out, Summary{Root: root, Trunc: "work budget"})
			break
		}
		forks := e.run(s)
		work = append(work, forks...)
	}
	return e.out
}

func (e *Engine) rebind(t *Term) *Term {
	if e.bind != nil {
		if r, ok := e.bind[t.key]; ok {
			return r
		}
	}
	return t
}

func (e *Engine) finish(s *state, rets []*Term, pos token.Pos, panicked bool) {
	e.stats.paths++
	e.out = append(e.out, Summary{Root: e.root, Events: s.events, Facts: s.facts, Rets: rets, RetPos: pos, Mem: s.mem, Panic: panicked, Trunc: s.trunc})
}

func (s *state) emit(ev Event) {
	for _, f := range s.stack {
		if f.fromDefer {
			ev.AtExit = true // effects of an inlined deferred call happen at function exit
			break
		}
	}
	for i := len(s.stack) - 1; i >= 0; i-- {
		if s.stack[i].hofOf != "" {
			ev.InHOF, ev.HOFSeq = s.stack[i].hofOf, s.stack[i].hofSeq
			break
		}
	}
	s.seq++
	ev.Seq = s.seq
	s.events = append(s.events, ev)
}

// run executes until the path ends or forks; returns forked states to explore.
func (e *Engine) run(s *state) []*state {
	for {
		if len(s.stack) == 0 {
			return nil
		}
		fr := s.stack[len(s.stack)-1]
		if fr.idx >= len(fr.block.Instrs) {
			s.trunc = "fell off block"
			e.finish(s, nil, token.NoPos, false)
			return nil
		}
		in := fr.block.Instrs[fr.idx]
		switch v := in.(type) {
		case *ssa.If:
			c := e.val(s, fr, v.Cond)
			tB, fB := fr.block.Succs[0], fr.block.Succs[1]
			var forks []*state
			for _, pol := range []bool{false, true} { // push false first so true is explored first
				ns := s.clone()
				nfr := ns.stack[len(ns.stack)-1]
				f, ok := normFact(c, pol)
				if !ok {
					continue // statically dead branch
				}
				deterministic := f.T == nil
				if f.T != nil {
					ns.seq++
					f.Seq = ns.seq
					f.At = v.Pos()
					if !f.At.IsValid() {
						if ci, ok := v.Cond.(ssa.Instruction); ok {
							f.At = ci.Pos()
						}
					}
					if contradictsContract(ns.facts, f) {
						e.stats.pruned++
						continue
					}
					ns.facts = append(ns.facts, f)
					if !feasible(ns.facts) {
						e.stats.pruned++
						continue
					}
				}
				tgt := fB
				if pol {
					tgt = tB
				}
				if deterministic && comparesInduction(v.Cond) {
					// the other branch is statically dead: an iteration decided by constants (a loop over a literal
					// table: the test compares the loop's induction variable) does not count against the unrolling
					// bound. Other constant tests (the dispatch on a select's case index) say nothing about the number
					// of iterations and stay bounded.
					nfr.visits[-5000-tgt.Index]++
					if nfr.visits[-5000-tgt.Index] < 256 {
						nfr.visits[tgt.Index]--
						nfr.visits[fr.block.Index]-- // and the header itself, however the body comes back to it
					}
				}
				if !e.enter(nfr, tgt) {
					if os.Getenv("WCHECK_DEBUG_LOOPCUT") != "" {
						fmt.Fprintf(os.Stderr, "loopcut(if) %s block %d -> %d det=%v ind=%v\n", nfr.fn.Name(), fr.block.Index, tgt.Index, deterministic, comparesInduction(v.Cond))
					}
					e.stats.loopcut++
					continue
				}
				forks = append(forks, ns)
			}
			return forks
		case *ssa.Jump:
			if !e.enter(fr, fr.block.Succs[0]) {
				e.stats.loopcut++
				return nil // loop bound: bounded unrolling
			}
			continue
		case *ssa.Return:
			var rets []*Term
			for _, r := range v.Results {
				rets = append(rets, e.val(s, fr, r))
			}
			s.stack = s.stack[:len(s.stack)-1]
			if len(s.stack) == 0 {
				e.finish(s, rets, v.Pos(), false)
				return nil
			}
			if fr.hofOf != "" {
				s.emit(Event{Kind: "hofret", Callee: fr.hofOf, Args: rets, Pos: v.Pos(), Ctx: fr.ctx, Depth: fr.depth, InFn: fr.fn})
			}
			caller := s.stack[len(s.stack)-1]
			if fr.fromDefer {
				continue // resume the caller's RunDefers
			}
			if ci, ok := fr.callInst.(ssa.Value); ok {
				if len(rets) == 1 {
					caller.env[ci] = rets[0]
				} else {
					caller.env[ci] = mk("tuple", "", 0, nil, rets...)
				}
			}
			caller.idx++
			continue
		case *ssa.Panic:
			s.emit(Event{Kind: "panic", Args: []*Term{e.val(s, fr, v.X)}, Pos: v.Pos(), Ctx: fr.ctx, Depth: fr.depth, InFn: fr.fn})
			e.finish(s, nil, v.Pos(), true)
			return nil
		case *ssa.RunDefers:
			if len(fr.defers) > 0 {
				d := fr.defers[len(fr.defers)-1]
				fr.defers = fr.defers[:len(fr.defers)-1]
				if d.fn != nil && fr.depth < e.maxDepth {
					nf := e.newFrame(d.fn, fr, d, nil, d.pos)
					nf.fromDefer = true
					s.stack = append(s.stack, nf)
					continue
				}
				s.emit(Event{Kind: "call", Callee: d.callee, Fn: d.sfn, Recv: d.recv, Args: d.args, Pos: d.pos, AtExit: true, Ctx: fr.ctx, Depth: fr.depth, InFn: fr.fn})
				continue
			}
			fr.idx++
			continue
		case *ssa.Select:
			var forks []*state
			n := len(v.States)
			for i := 0; i <= n; i++ {
				if i == n && v.Blocking {
					break
				}
				ns := s.clone()
				nfr := ns.stack[len(ns.stack)-1]
				idx := i
				if i == n {
					idx = -1
				}
				parts := []*Term{mk("const", fmt.Sprint(idx), 0, types.Typ[types.Int]), mk("const", "true", 0, types.Typ[types.Bool])}
				if i < n {
					st := v.States[i]
					ch := e.val(ns, nfr, st.Chan)
					kind := "recv"
					if st.Dir == types.SendOnly {
						kind = "send"
					}
					ns.emit(Event{Kind: kind, Recv: ch, Pos: st.Pos, Ctx: nfr.ctx, Depth: nfr.depth, InFn: nfr.fn})
				}
				for j, st := range v.States {
					if st.Dir == types.RecvOnly {
						parts = append(parts, mk("recvval", fmt.Sprint(j), 0, nil, e.val(ns, nfr, st.Chan)))
					}
				}
				nfr.env[v] = mk("tuple", "", 0, nil, parts...)
				nfr.idx++
				forks = append(forks, ns)
			}
			return forks
		case *ssa.Next:
			it := e.val(s, fr, v.Iter)
			var forks []*state
			for _, ok := range []bool{false, true} {
				ns := s.clone()
				nfr := ns.stack[len(ns.stack)-1]
				okT := mk("const", fmt.Sprint(ok), 0, types.Typ[types.Bool])
				n := nfr.visits[-1000-fr.block.Index]
				if ok && n >= e.loopBound {
					e.stats.loopcut++
					continue
				}
				if ok {
					nfr.visits[-1000-fr.block.Index] = n + 1
				}
				nfr.env[v] = mk("tuple", "", 0, nil, okT, mk("rangekey", fmt.Sprint(n), 0, nil, it), mk("rangeelem", fmt.Sprint(n), 0, nil, it))
				kind := "iterdone"
				if ok {
					kind = "iter"
				}
				ns.emit(Event{Kind: kind, Recv: it, Pos: v.Pos(), Ctx: nfr.ctx, Depth: nfr.depth, InFn: nfr.fn})
				nfr.idx++
				forks = append(forks, ns)
			}
			return forks
		case *ssa.Call:
			if e.maxRec > 0 {
				// bounded unrolling of recursion: a deeper activation than the bound ends the path (like a loop cut)
				if sc := v.Call.StaticCallee(); sc != nil && e.inModule(sc) && !e.opaque[funcName(sc)] && fr.depth < e.maxDepth && e.onStack(s, sc) {
					e.stats.loopcut++
					return nil
				}
			}
			if e.doCall(s, fr, v, &v.Call) {
				continue // frame pushed; idx advanced on return
			}
			fr.idx++
			continue
		case *ssa.Defer:
			d := e.mkDeferred(s, fr, &v.Call, v.Pos())
			fr.defers = append(fr.defers, d)
			s.emit(Event{Kind: "defer", Callee: d.callee, Fn: d.sfn, Recv: d.recv, Args: d.args, Pos: v.Pos(), Ctx: fr.ctx, Depth: fr.depth, InFn: fr.fn})
			fr.idx++
			continue
		case *ssa.Go:
			d := e.mkDeferred(s, fr, &v.Call, v.Pos())
			args := d.args
			if d.closure != nil {
				args = append([]*Term{d.closure}, args...)
			}
			s.emit(Event{Kind: "go", Callee: d.callee, Fn: d.sfn, Recv: d.recv, Args: args, Pos: v.Pos(), Ctx: fr.ctx, Depth: fr.depth, InFn: fr.fn})
			fr.idx++
			continue
		case *ssa.Store:
			addr := e.val(s, fr, v.Addr)
			val := e.val(s, fr, v.Val)
			s.mem[addr.key] = val
			// a field assigned in a struct held as a whole value (e.g. a spilled value receiver): keep the whole in step
			if addr.Kind == "faddr" && len(addr.Args) == 1 {
				if whole, ok := s.mem[addr.Args[0].key]; ok && whole.Kind == "structval" {
					var fs []*Term
					seen := false
					for _, f := range whole.Args {
						if f.Name == addr.Name {
							fs = append(fs, mk("fieldval", addr.Name, 0, nil, val))
							seen = true
						} else {
							fs = append(fs, f)
						}
					}
					if !seen {
						fs = append(fs, mk("fieldval", addr.Name, 0, nil, val))
					}
					s.mem[addr.Args[0].key] = mk("structval", whole.Name, 0, whole.Typ, fs...)
				}
			} else if val != nil && val.Kind == "structval" {
				// a whole value replaces the struct: field cells written before are stale
				for _, f := range val.Args {
					delete(s.mem, mk("faddr", f.Name, 0, nil, addr).key)
				}
			}
			if !isLocalAddr(addr) {
				s.emit(Event{Kind: "store", Recv: addr, Args: []*Term{val}, Pos: v.Pos(), Ctx: fr.ctx, Depth: fr.depth, InFn: fr.fn})
			}
			fr.idx++
			continue
		case *ssa.MapUpdate:
			mv := e.val(s, fr, v.Value)
			mev := Event{Kind: "mapupdate", Recv: e.val(s, fr, v.Map), Args: []*Term{e.val(s, fr, v.Key), mv}, Pos: v.Pos(), Ctx: fr.ctx, Depth: fr.depth, InFn: fr.fn}
			if mv != nil && mv.Kind == "alloc" {
				// a pointer entry: record what it points to as of the update
				if et := elemType(mv.Typ); et != nil {
					if _, isStruct := et.Underlying().(*types.Struct); isStruct {
						mev.Binds = map[string]*Term{mv.key: e.load(s, mv, et)}
					}
				}
			}
			if mv != nil && mv.Kind == "closure" {
				// a function value: what its captured cells hold as of the update
				for _, b := range mv.Args {
					if b != nil && b.Kind == "alloc" {
						if cv, ok := s.mem[b.key]; ok {
							if mev.Binds == nil {
								mev.Binds = map[string]*Term{}
							}
							mev.Binds[b.key] = cv
						}
					}
				}
			}
			s.emit(mev)
			fr.idx++
			continue
		case *ssa.Send:
			s.emit(Event{Kind: "send", Recv: e.val(s, fr, v.Chan), Args: []*Term{e.val(s, fr, v.X)}, Pos: v.Pos(), Ctx: fr.ctx, Depth: fr.depth, InFn: fr.fn})
			fr.idx++
			continue
		case *ssa.DebugRef:
			fr.idx++
			continue
		case ssa.Value:
			// a lookup in a literal table (a package-level map of constants) with a key that is not a constant forks like a
			// switch over the table's keys: one path per entry (key == that constant), one for "none of them"
			if lk, ok := v.(*ssa.Lookup); ok {
				if forks := e.forkTableLookup(s, fr, lk); forks != nil {
					return forks
				}
			}
			fr.env[v] = e.eval(s, fr, v)
			fr.idx++
			continue
		default:
			fr.idx++
			continue
		}
	}
}

func (e *Engine) forkTableLookup(s *state, fr *frame, lk *ssa.Lookup) []*state {
	if _, isMap := lk.X.Type().Underlying().(*types.Map); !isMap {
		return nil
	}
	m := e.val(s, fr, lk.X)
	k := e.val(s, fr, lk.Index)
	if m == nil || k == nil || m.Kind != "maplit" || len(m.Args) == 0 || len(m.Args) > 32 {
		return nil
	}
	if k.Kind == "const" || k.Kind == "global" || k.Kind == "nil" || k.Kind == "stubval" {
		return nil // decided by the ordinary evaluation
	}
	vt := lk.X.Type().Underlying().(*types.Map).Elem()
	zeroV := mk("zero", "", 0, vt)
	if bt, ok := vt.Underlying().(*types.Basic); ok && bt.Info()&types.IsNumeric != 0 {
		zeroV = mk("const", "0", 0, vt)
	}
	var forks []*state
	add := func(facts []Fact, val *Term, found bool) {
		ns := s.clone()
		nfr := ns.stack[len(ns.stack)-1]
		for _, f := range facts {
			ns.seq++
			f.Seq = ns.seq
			f.At = lk.Pos()
			ns.facts = append(ns.facts, f)
		}
		if !feasible(ns.facts) {
			return
		}
		if lk.CommaOk {
			nfr.env[lk] = mk("tuple", "", 0, nil, val, mk("const", fmt.Sprint(found), 0, types.Typ[types.Bool]))
		} else {
			nfr.env[lk] = val
		}
		nfr.idx++
		forks = append(forks, ns)
	}
	var none []Fact
	for i := 0; i+1 < len(m.Args); i += 2 {
		add([]Fact{{T: eqTerm(k, m.Args[i]), Pos: true}}, m.Args[i+1], true)
		none = append(none, Fact{T: eqTerm(k, m.Args[i]), Pos: false})
	}
	add(none, zeroV, false)
	return forks
}

func isLocalAddr(a *Term) bool {
	switch a.Kind {
	case "alloc":
		return true
	case "faddr", "cell", "indexaddr":
		return isLocalAddr(a.Args[0])
	}
	return false
}

// rangesOverScalars: b is the body of a `for … range` over a slice or array whose elements are of basic type.
func rangesOverScalars(b *ssa.BasicBlock) bool {
	if b.Comment != "rangeindex.body" || len(b.Preds) == 0 {
		return false
	}
	hdr := b.Preds[0]
	if len(hdr.Instrs) == 0 {
		return false
	}
	iff, ok := hdr.Instrs[len(hdr.Instrs)-1].(*ssa.If)
	if !ok {
		return false
	}
	cmp, ok := iff.Cond.(*ssa.BinOp)
	if !ok {
		return false
	}
	for _, side := range []ssa.Value{cmp.X, cmp.Y} {
		call, ok := side.(*ssa.Call)
		if !ok {
			continue
		}
		if bi, ok := call.Call.Value.(*ssa.Builtin); !ok || bi.Name() != "len" || len(call.Call.Args) != 1 {
			continue
		}
		var elem types.Type
		switch t := call.Call.Args[0].Type().Underlying().(type) {
		case *types.Slice:
			elem = t.Elem()
		case *types.Array:
			elem = t.Elem()
		case *types.Pointer:
			if a, ok := t.Elem().Underlying().(*types.Array); ok {
				elem = a.Elem()
			}
		}
		if elem != nil {
			_, basic := elem.Underlying().(*types.Basic)
			return basic
		}
	}
	return false
}

// comparesInduction: the condition compares a loop-carried value (a phi) with something.
func comparesInduction(c ssa.Value) bool {
	b, ok := c.(*ssa.BinOp)
	if !ok {
		return false
	}
	isPhi := func(v ssa.Value) bool {
		for i := 0; i < 3; i++ {
			switch x := v.(type) {
			case *ssa.Phi:
				return true
			case *ssa.Convert:
				v = x.X
			case *ssa.ChangeType:
				v = x.X
			case *ssa.BinOp:
				// i+1 of the range lowering (phi [-1, i+1])
				if _, ok := x.X.(*ssa.Phi); ok {
					return true
				}
				if _, ok := x.Y.(*ssa.Phi); ok {
					return true
				}
				return false
			default:
				return false
			}
		}
		return false
	}
	return isPhi(b.X) || isPhi(b.Y)
}

// enter moves the frame to block b, enforcing the loop bound.
func (e *Engine) enter(fr *frame, b *ssa.BasicBlock) bool {
	fr.visits[b.Index]++
	bound := e.loopBound
	if e.scalarLoopsOnce && bound > 0 && rangesOverScalars(b) {
		bound = 0 // a loop over plain strings or numbers (a list of URLs, of names): one iteration shows all it can do
	}
	if fr.visits[b.Index] > bound+1 {
		return false
	}
	fr.prev = fr.block
	fr.block = b
	fr.idx = 0
	return true
}

func (e *Engine) newFrame(fn *ssa.Function, caller *frame, d deferred, call ssa.Instruction, pos token.Pos) *frame {
	ctx := caller.ctx + "/" + fn.Name() + "<" + e.posStr(pos) + ">"
	if caller.block != nil {
		if n := caller.visits[caller.block.Index]; n > 1 {
			ctx += fmt.Sprintf("~%d", n) // a later loop iteration of the caller: its allocations and call results are fresh
		}
	}
	nf := &frame{fn: fn, env: map[ssa.Value]*Term{}, ctx: ctx, depth: caller.depth + 1, block: fn.Blocks[0], visits: map[int]int{}, callInst: call}
	args := d.args
	if d.recv != nil && fn.Signature.Recv() != nil {
		args = append([]*Term{d.recv}, args...)
	}
	for i, p := range fn.Params {
		if i < len(args) {
			nf.env[p] = args[i]
		} else {
			nf.env[p] = mk("param", p.Name(), 0, p.Type()) // run by a higher-order callee with arguments of its own: symbolic
		}
	}
	if d.closure != nil {
		for i, fv := range fn.FreeVars {
			if i < len(d.closure.Args) {
				nf.env[fv] = d.closure.Args[i]
			}
		}
	}
	return nf
}

// concreteType returns the dynamic type of a term when it is statically known.
func concreteType(t *Term) types.Type {
	if t == nil || t.Typ == nil {
		return nil
	}
	switch t.Kind {
	case "alloc", "structval", "closure", "preset":
		if _, isIface := t.Typ.Underlying().(*types.Interface); !isIface {
			return t.Typ
		}
	case "call", "field", "deref", "global", "param", "freevar", "lookup", "out":
		// a value whose static type is already concrete (e.g. a *sql.Tx held in an interface-typed parameter of a helper)
		if _, isIface := t.Typ.Underlying().(*types.Interface); !isIface {
			if _, isTuple := t.Typ.(*types.Tuple); !isTuple {
				return t.Typ
			}
		}
	}
	return nil
}

func (e *Engine) mkDeferred(s *state, fr *frame, c *ssa.CallCommon, pos token.Pos) deferred {
	d := deferred{pos: pos}
	var args []*Term
	for _, a := range c.Args {
		t := e.val(s, fr, a)
		if t != nil {
			if rb, ok := s.mem["rebind:"+t.key]; ok {
				t = rb // a recycled reader after Reset(src): the reader over src
			}
		}
		args = append(args, t)
	}
	switch {
	case c.IsInvoke():
		d.callee = ifaceMethodName(c.Value.Type(), c.Method)
		declared := d.callee
		d.recv = e.val(s, fr, c.Value)
		d.args = args
		// devirtualise when the receiver's dynamic type is known
		if ct := concreteType(d.recv); ct != nil {
			if m := e.prog.LookupMethod(ct, c.Method.Pkg(), c.Method.Name()); m != nil {
				d.sfn = m
				d.callee = funcName(m)
				if e.inModule(m) && !e.opaque[d.callee] {
					d.fn = m
					// value receiver on pointer alloc: pass the loaded struct
					if _, isPtr := m.Signature.Recv().Type().(*types.Pointer); !isPtr {
						if pt, ok := ct.(*types.Pointer); ok {
							d.recv = e.load(s, d.recv, pt.Elem())
						}
					}
				}
			}
		}
		flowFrom := c.Value.Type()
		if d.sfn == nil {
			// (a) interface narrowing does not change the method called: name it after the interface type the receiver value
			// was created with (e.g. the declared result type of the call that produced it)
			if rt := d.recv.Typ; rt != nil {
				if _, isIface := rt.Underlying().(*types.Interface); isIface && !types.Identical(rt, c.Value.Type()) {
					if _, isNamed := rt.(*types.Named); isNamed {
						if obj, _, _ := types.LookupFieldOrMethod(rt, false, c.Method.Pkg(), c.Method.Name()); obj != nil {
							if mf, ok := obj.(*types.Func); ok {
								d.callee = ifaceMethodName(rt, mf)
								declared = d.callee
								flowFrom = rt
							}
						}
					}
				}
			}
			// (c) a module interface that only narrows another interface, or only ever holds one concrete type (devirt.go)
			if d.callee == declared && !knownIfaceMethods[declared] && e.ifaceFlow != nil {
				j := flowFrom
				for hop := 0; hop < 4; hop++ {
					from, conc := e.ifaceFlow(j)
					if from != nil {
						if obj, _, _ := types.LookupFieldOrMethod(from, false, c.Method.Pkg(), c.Method.Name()); obj != nil {
							if mf, ok := obj.(*types.Func); ok {
								d.callee = ifaceMethodName(from, mf)
								j = from
								continue
							}
						}
					}
					if conc != nil {
						if m := e.prog.LookupMethod(conc, c.Method.Pkg(), c.Method.Name()); m != nil {
							d.sfn = m
							d.callee = funcName(m)
							if e.inModule(m) && !e.opaque[d.callee] {
								d.fn = m
								if _, isPtr := m.Signature.Recv().Type().(*types.Pointer); !isPtr {
									if pt, ok := conc.(*types.Pointer); ok {
										d.recv = e.load(s, d.recv, pt.Elem())
									}
								}
							}
						}
					}
					break
				}
			}
			// (b) an interface with exactly one production implementation in the module is that implementation
			if d.sfn == nil && d.callee == declared && e.uniqueImpl != nil {
				if m := e.uniqueImpl(c.Method); m != nil {
					d.sfn = m
					d.callee = funcName(m)
					if e.inModule(m) && !e.opaque[d.callee] {
						d.fn = m
					}
				}
			}
		}
	case c.StaticCallee() != nil:
		fn := c.StaticCallee()
		d.sfn = fn
		d.callee = funcName(fn)
		if mc, ok := c.Value.(*ssa.MakeClosure); ok {
			d.closure = e.val(s, fr, mc)
		}
		if fn.Signature.Recv() != nil && len(args) > 0 {
			d.recv, d.args = args[0], args[1:]
		} else {
			d.args = args
		}
		if e.inModule(fn) && !e.opaque[d.callee] {
			d.fn = fn
		}
	default:
		d.args = args
		if b, ok := c.Value.(*ssa.Builtin); ok {
			d.callee = "builtin:" + b.Name()
			break
		}
		ft := e.val(s, fr, c.Value)
		if ft != nil && ft.Typ == nil {
			ft = mk(ft.Kind, ft.Name, ft.Idx, c.Value.Type(), ft.Args...) // records the static type of the callee value
		}
		d.callee = "dyn"
		d.recv = ft
		var fn *ssa.Function
		switch ft.Kind {
		case "closure", "func":
			fn = e.funcByName[ft.Name]
		case "field":
			// a function-valued field whose only production value is one named function (devirt.go)
			if e.fieldFunc != nil {
				if f := e.fieldFunc(c.Value); f != nil {
					fn = f
					ft = mk("func", f.String(), 0, c.Value.Type())
				}
			}
		}
		if fn != nil {
			d.sfn = fn
			d.callee = funcName(fn)
			d.recv = nil
			if ft.Kind == "closure" {
				d.closure = ft
			}
			if strings.HasSuffix(fn.Name(), "$bound") && len(ft.Args) > 0 {
				// bound method value: receiver is the single binding
				d.recv = ft.Args[0]
				d.closure = nil
				if obj, ok := fn.Object().(*types.Func); ok {
					if m := e.prog.FuncValue(obj); m != nil && e.inModule(m) && !e.opaque[d.callee] {
						d.fn = m
						d.sfn = m
					}
				}
			} else if e.inModule(fn) && !e.opaque[d.callee] {
				d.fn = fn
			}
		}
	}
	return d
}

var noHavocPkgs = map[string]bool{"fmt": true, "k8s.io/klog/v2": true, "errors": true, "strings": true, "bytes": true, "strconv": true, "net/url": true}

func calleePkg(callee string) string {
	c := strings.TrimPrefix(callee, "(")
	c = strings.TrimPrefix(c, "*")
	if i := strings.LastIndex(c, "/"); i >= 0 {
		rest := c[i+1:]
		if j := strings.Index(rest, "."); j >= 0 {
			return c[:i+1+j]
		}
		return c
	}
	if j := strings.Index(c, "."); j >= 0 {
		return c[:j]
	}
	return c
}

// doCall returns true when a callee frame was pushed.
func (e *Engine) doCall(s *state, fr *frame, v *ssa.Call, c *ssa.CallCommon) bool {
	d := e.mkDeferred(s, fr, c, v.Pos())
	if d.fn != nil && fr.depth < e.maxDepth && !e.onStack(s, d.fn) {
		nf := e.newFrame(d.fn, fr, d, v, v.Pos())
		s.stack = append(s.stack, nf)
		return true
	}
	if b, ok := c.Value.(*ssa.Builtin); ok {
		switch b.Name() {
		case "len":
			if n, ok := knownLen(d.args[0]); ok {
				fr.env[v] = mk("const", fmt.Sprint(n), 0, types.Typ[types.Int])
				return false
			}
			fr.env[v] = mk("len", "", 0, types.Typ[types.Int], d.args[0])
			if isMapTerm(d.args[0]) && !isLocalAddr(d.args[0]) {
				s.emit(Event{Kind: "mapread", Recv: d.args[0], Pos: v.Pos(), Ctx: fr.ctx, Depth: fr.depth, InFn: fr.fn})
			}
			return false
		case "append":
			fr.env[v] = mk("append", "", 0, v.Type(), d.args...)
			return false
		case "delete":
			s.emit(Event{Kind: "mapdelete", Recv: d.args[0], Args: d.args[1:], Pos: v.Pos(), Ctx: fr.ctx, Depth: fr.depth, InFn: fr.fn})
			return false
		case "copy":
			if len(d.args) == 2 {
				dst := d.args[0]
				for dst != nil && (dst.Kind == "slice" || dst.Kind == "varargs") && len(dst.Args) > 0 && dst.Kind == "slice" {
					dst = dst.Args[0]
				}
				if dst != nil && isLocalAddr(dst) {
					e.havoc(s, dst, mk("copyof", "", 0, elemType(dst.Typ), d.args[1]))
				}
			}
			fr.env[v] = mk("call", "builtin:copy", 0, v.Type(), mk("site", fr.ctx+"@"+e.posStr(v.Pos()), 0, nil), nil)
			return false
		}
	}
	siteName := fr.ctx + "@" + e.posStr(v.Pos())
	if n := fr.visits[fr.block.Index]; n > 1 {
		siteName += fmt.Sprintf("~%d", n) // a later loop iteration yields fresh results
	}
	site := mk("site", siteName, 0, nil)
	// a recycled bufio.Reader pointed at a new source is a reader over that source: b.Reset(r) stands for b = bufio.NewReader(r)
	if d.callee == "(*bufio.Reader).Reset" && d.recv != nil && len(d.args) == 1 && d.args[0] != nil && d.args[0].Kind != "nil" {
		nr := mk("call", "bufio.NewReader", 0, d.recv.Typ, site, nil, d.args[0])
		s.emit(Event{Kind: "call", Callee: "bufio.NewReader", Args: []*Term{d.args[0]}, Res: nr, Pos: v.Pos(), Ctx: fr.ctx, Depth: fr.depth, InFn: fr.fn})
		s.emit(Event{Kind: "call", Callee: "recycled-reader", Recv: d.recv, Args: []*Term{d.args[0]}, Res: nr, Pos: v.Pos(), Ctx: fr.ctx, Depth: fr.depth, InFn: fr.fn})
		s.mem["rebind:"+d.recv.key] = nr
		return false
	}
	res := mk("call", d.callee, 0, v.Type(), append([]*Term{site, d.recv}, d.args...)...)
	fr.env[v] = res
	if st, ok := e.stub[d.callee]; ok {
		if len(st) == 1 {
			fr.env[v] = st[0]
		} else {
			fr.env[v] = mk("tuple", "", 0, nil, st...)
		}
	}
	// pure string functions on constants fold (so that a function can be evaluated on a concrete configuration value)
	if len(d.args) == 1 && d.args[0] != nil && d.args[0].Kind == "const" && strings.HasPrefix(d.args[0].Name, "\"") {
		if u, err := strconv.Unquote(d.args[0].Name); err == nil {
			var out string
			folded := true
			switch d.callee {
			case "strings.ToLower":
				out = strings.ToLower(u)
			case "strings.ToUpper":
				out = strings.ToUpper(u)
			case "strings.TrimSpace":
				out = strings.TrimSpace(u)
			default:
				folded = false
			}
			if folded {
				fr.env[v] = mk("const", strconv.Quote(out), 0, v.Type())
			}
		}
	}
	// a copy of a byte slice has the value of the original: rules that speak about *which bytes* are returned, stored or sent
	// compare values, so the copy stands for its source (an event records that it is a fresh buffer). Engines that track
	// aliasing (the ReadLine view rule) keep the copy distinct: cloneFresh.
	if (d.callee == "bytes.Clone" || d.callee == "slices.Clone") && len(d.args) == 1 && d.args[0] != nil && !e.cloneFresh {
		fr.env[v] = d.args[0]
		s.emit(Event{Kind: "copyconv", Args: []*Term{d.args[0]}, Pos: v.Pos(), Ctx: fr.ctx, Depth: fr.depth, InFn: fr.fn})
		return false
	}
	if d.callee == "errors.Is" && len(d.args) == 2 {
		if eq, known := errorsIsKnown(d.args[0], d.args[1]); known {
			fr.env[v] = mk("const", fmt.Sprint(eq), 0, types.Typ[types.Bool])
		}
	}
	ev := Event{Kind: "call", Callee: d.callee, Fn: d.sfn, Recv: d.recv, Args: d.args, Res: res, Pos: v.Pos(), Ctx: fr.ctx, Depth: fr.depth, InFn: fr.fn}
	if d.closure != nil {
		ev.Args = append([]*Term{d.closure}, ev.Args...)
	}
	var snap func(a *Term, depth int)
	snap = func(a *Term, depth int) {
		if a == nil || a.Kind != "alloc" || depth > 3 {
			return
		}
		et := elemType(a.Typ)
		if et == nil {
			return
		}
		if _, isStruct := et.Underlying().(*types.Struct); !isStruct {
			return
		}
		v := e.load(s, a, et)
		if ev.Binds == nil {
			ev.Binds = map[string]*Term{}
		}
		ev.Binds[a.key] = v
		if v.Kind == "structval" {
			for _, f := range v.Args {
				snap(f.Args[0], depth+1)
			}
		}
	}
	snap(ev.Recv, 0)
	for _, a := range ev.Args {
		snap(a, 0)
	}
	for _, a := range ev.Args {
		if a != nil && a.Kind == "closure" {
			if ev.Binds == nil {
				ev.Binds = map[string]*Term{}
			}
			for _, b := range a.Args {
				if b != nil && b.Kind == "alloc" {
					if v, ok := s.mem[b.key]; ok {
						ev.Binds[b.key] = v
					}
				}
			}
		}
	}
	s.emit(ev)
	switch d.callee {
	case "(*sync.RWMutex).Lock", "(*sync.RWMutex).RLock", "(*sync.Mutex).Lock":
		s.epoch++
	}
	if idx, isHof := e.hof[d.callee]; isHof && idx < len(d.args) && fr.depth < e.maxDepth {
		fa := d.args[idx]
		var opFn *ssa.Function
		od := deferred{pos: v.Pos()}
		viaMethod := false
		if e.hofMethod[d.callee] != "" {
			ai := idx
			if d.recv != nil && !c.IsInvoke() {
				ai++
			}
			if ai < len(c.Args) {
				if _, ok := c.Args[ai].(*ssa.MakeInterface); ok {
					viaMethod = true // an interface value: its method is run (below), even when the value is itself a function
				}
			}
		}
		if !viaMethod && fa != nil && (fa.Kind == "closure" || fa.Kind == "func") {
			opFn = e.funcByName[fa.Name]
			if opFn != nil && fa.Kind == "closure" {
				od.closure = fa
				if strings.HasSuffix(opFn.Name(), "$bound") && len(fa.Args) > 0 {
					od.recv = fa.Args[0]
					od.closure = nil
					if obj, ok := opFn.Object().(*types.Func); ok {
						opFn = e.prog.FuncValue(obj)
					}
				}
			}
		}
		if opFn == nil && fa != nil && e.hofMethod[d.callee] != "" {
			// the argument is an interface value of a statically known concrete type (http.Handler built from a named
			// function type, a struct, …): the higher-order callee runs that type's method
			ai := idx
			if d.recv != nil && !c.IsInvoke() {
				ai++
			}
			if ai < len(c.Args) {
				var ct types.Type
				if mi, ok := c.Args[ai].(*ssa.MakeInterface); ok {
					ct = mi.X.Type()
				}
				if ct != nil {
					if tn, ok := ct.(*types.Named); ok && tn.Obj().Pkg() != nil {
						if m := e.prog.LookupMethod(ct, tn.Obj().Pkg(), e.hofMethod[d.callee]); m != nil {
							opFn = m
							od.recv = fa
						}
					} else if pt, ok := ct.(*types.Pointer); ok {
						if tn, ok := pt.Elem().(*types.Named); ok && tn.Obj().Pkg() != nil {
							if m := e.prog.LookupMethod(ct, tn.Obj().Pkg(), e.hofMethod[d.callee]); m != nil {
								opFn = m
								od.recv = fa
							}
						}
					}
				}
			}
		}
		if opFn != nil && e.inModule(opFn) && !e.onStack(s, opFn) {
			// a retried operation: whatever it assigns to captured variables may have been assigned by an earlier
			// attempt, so those variables hold an unknown carried-over value when an attempt starts
			if repeatingHOF[d.callee] && od.closure != nil {
				for i, fv := range opFn.FreeVars {
					if i < len(od.closure.Args) && storesThrough(opFn, fv, 0) {
						cell := od.closure.Args[i]
						if cell != nil && cell.Kind == "alloc" {
							e.havoc(s, cell, mk("carried", fv.Name(), 0, elemType(cell.Typ), cell))
						}
					}
				}
			}
			nf := e.newFrame(opFn, fr, od, v, v.Pos())
			nf.hofOf = d.callee
			nf.hofSeq = s.seq // the higher-order call event just emitted
			s.stack = append(s.stack, nf)
			return true // the call evaluates to what the function argument returned (single synchronous run)
		}
	}
	// havoc memory reachable through address arguments of opaque calls
	if !noHavocPkgs[calleePkg(d.callee)] || strings.Contains(d.callee, "scan") {
		n := 0
		var visit func(a *Term)
		visit = func(a *Term) {
			if a == nil {
				return
			}
			switch a.Kind {
			case "varargs":
				for _, x := range a.Args {
					visit(x)
				}
			case "closure":
				for _, x := range a.Args {
					visit(x)
				}
			case "alloc", "faddr", "cell", "indexaddr":
				if isLocalAddr(a) {
					n++
					e.havoc(s, a, mk("out", "", n, elemType(a.Typ), res, a))
				}
			}
		}
		visit(d.recv)
		for _, a := range d.args {
			visit(a)
		}
		if d.closure != nil {
			visit(d.closure)
		}
	}
	return false
}

var repeatingHOF = map[string]bool{
	"github.com/cenkalti/backoff/v4.Retry":                true,
	"github.com/cenkalti/backoff/v4.RetryNotify":          true,
	"github.com/cenkalti/backoff/v4.RetryNotifyWithTimer": true,
}

// storesThrough: fn (or a closure nested in it that captures the same variable) stores through free variable fv.
func storesThrough(fn *ssa.Function, fv *ssa.FreeVar, depth int) bool {
	if depth > 4 {
		return true
	}
	based := func(v ssa.Value) bool {
		for i := 0; i < 8; i++ {
			switch x := v.(type) {
			case *ssa.FreeVar:
				return x == fv
			case *ssa.FieldAddr:
				v = x.X
			case *ssa.IndexAddr:
				v = x.X
			default:
				return false
			}
		}
		return false
	}
	for _, b := range fn.Blocks {
		for _, in := range b.Instrs {
			switch x := in.(type) {
			case *ssa.Store:
				if based(x.Addr) {
					return true
				}
			case *ssa.MakeClosure:
				inner := x.Fn.(*ssa.Function)
				for j, bnd := range x.Bindings {
					if bnd == ssa.Value(fv) && j < len(inner.FreeVars) && storesThrough(inner, inner.FreeVars[j], depth+1) {
						return true
					}
				}
			case ssa.CallInstruction:
				// the variable's address handed to a call: may be written
				for _, a := range x.Common().Args {
					if a == ssa.Value(fv) {
						return true
					}
				}
			}
		}
	}
	return false
}

// knownLen: length of slice literals and of append chains that start from one.
// chainElems: the elements of a slice literal, an empty make, or an append chain over one, when all are known.
func chainElems(t *Term) ([]*Term, bool) {
	switch t.Kind {
	case "varargs":
		return t.Args, true
	case "nil":
		return nil, true
	case "alloc":
		if strings.HasSuffix(t.Name, "|len=0") {
			return nil, true
		}
	case "append":
		els, ok := chainElems(t.Args[0])
		if !ok {
			return nil, false
		}
		els = append([]*Term(nil), els...)
		for _, el := range t.Args[1:] {
			if el.Kind != "varargs" {
				return nil, false
			}
			els = append(els, el.Args...)
		}
		return els, true
	}
	return nil, false
}

// zeroOf: the zero value of typ; basic types get their constant so that comparisons fold.
func zeroOf(typ types.Type) *Term {
	if typ != nil {
		if b, ok := typ.Underlying().(*types.Basic); ok {
			switch {
			case b.Info()&types.IsString != 0:
				return mk("const", "\"\"", 0, typ)
			case b.Info()&types.IsBoolean != 0:
				return mk("const", "false", 0, typ)
			case b.Info()&types.IsNumeric != 0:
				return mk("const", "0", 0, typ)
			}
		}
	}
	return mk("zero", typeStr(typ), 0, typ)
}

func knownLen(t *Term) (int, bool) {
	switch t.Kind {
	case "nil":
		return 0, true
	case "alloc":
		if i := strings.LastIndex(t.Name, "|len="); i >= 0 {
			if n, err := strconv.Atoi(t.Name[i+5:]); err == nil {
				return n, true
			}
		}
	case "zero":
		if t.Typ != nil {
			switch u := t.Typ.Underlying().(type) {
			case *types.Slice, *types.Map:
				return 0, true
			case *types.Basic:
				if u.Info()&types.IsString != 0 {
					return 0, true
				}
			}
		}
	case "const":
		// a string constant: its byte length
		if strings.HasPrefix(t.Name, "\"") {
			if u, err := strconv.Unquote(t.Name); err == nil {
				return len(u), true
			}
		}
	case "conv":
		// []byte("const") / string(...) keep the length of a constant
		if len(t.Args) == 1 && t.Args[0].Kind == "const" && (t.Name == "[]byte" || t.Name == "string") {
			return knownLen(t.Args[0])
		}
	case "varargs":
		return len(t.Args), true
	case "append":
		n, ok := knownLen(t.Args[0])
		if !ok {
			return 0, false
		}
		for _, el := range t.Args[1:] {
			m, ok := knownLen(el)
			if !ok {
				return 0, false
			}
			n += m
		}
		return n, true
	}
	return 0, false
}

func elemType(t types.Type) types.Type {
	if t == nil {
		return nil
	}
	if p, ok := t.Underlying().(*types.Pointer); ok {
		return p.Elem()
	}
	return nil
}

func isMapTerm(t *Term) bool {
	if t == nil || t.Typ == nil {
		return false
	}
	_, ok := t.Typ.Underlying().(*types.Map)
	return ok
}

// havoc overwrites the cell at addr (and forgets every cell below it).
func (e *Engine) havoc(s *state, addr *Term, val *Term) {
	for k := range s.mem {
		if k != addr.key && strings.Contains(k, addr.key) {
			delete(s.mem, k)
		}
	}
	// slices/maps made locally are values, not cells: nothing to overwrite
	if addr.Kind == "alloc" && addr.Typ != nil {
		if _, ok := addr.Typ.Underlying().(*types.Pointer); !ok {
			return
		}
	}
	s.mem[addr.key] = val
}

func (e *Engine) onStack(s *state, fn *ssa.Function) bool {
	n := 0
	for _, f := range s.stack {
		if f.fn == fn {
			n++
		}
	}
	return n > e.maxRec // maxRec recursive activations are inlined (0: none)
}

func (e *Engine) val(s *state, fr *frame, v ssa.Value) *Term {
	if v == nil {
		return nil
	}
	if t, ok := fr.env[v]; ok {
		return t
	}
	switch x := v.(type) {
	case *ssa.Const:
		if x.Value == nil {
			return mk("nil", typeStr(x.Type()), 0, x.Type())
		}
		return mk("const", x.Value.ExactString(), 0, x.Type())
	case *ssa.Global:
		return mk("gaddr", x.Pkg.Pkg.Path()+"."+x.Name(), 0, x.Type())
	case *ssa.Function:
		return mk("func", x.String(), 0, x.Type())
	case *ssa.Builtin:
		return mk("func", "builtin:"+x.Name(), 0, nil)
	case *ssa.Parameter, *ssa.FreeVar:
		return mk("unknown", "unbound:"+v.Name(), 0, v.Type())
	}
	if in, ok := v.(ssa.Instruction); ok && in.Block() != nil {
		t := e.eval(s, fr, v)
		fr.env[v] = t
		return t
	}
	return mk("unknown", v.Name(), 0, v.Type())
}

func typeStr(t types.Type) string {
	if t == nil {
		return ""
	}
	return types.TypeString(t, func(p *types.Package) string { return p.Name() })
}

func (e *Engine) load(s *state, addr *Term, typ types.Type) *Term {
	if v, ok := s.mem[addr.key]; ok {
		return v
	}
	if addr.Kind != "gaddr" {
		// a cell below a package-level variable that is only assigned by its initialiser (element of an array literal, …)
		if v, ok := e.globalInit[addr.key]; ok {
			return v
		}
	}
	switch addr.Kind {
	case "gaddr":
		if v, ok := e.globalInit[addr.key]; ok {
			return v
		}
		// a package-level structure whose fields are only assigned by its initialiser (var def = T{Name: "…"}): the cells
		// recorded below it; fields without a recorded cell stay symbolic
		if typ != nil {
			if st, ok := typ.Underlying().(*types.Struct); ok {
				g := mk("global", addr.Name, 0, typ)
				var fvs []*Term
				found := false
				for i := 0; i < st.NumFields(); i++ {
					f := st.Field(i)
					if cv, ok := e.globalInit[mk("faddr", f.Name(), 0, nil, addr).key]; ok {
						fvs = append(fvs, mk("fieldval", f.Name(), 0, nil, cv))
						found = true
					} else {
						fvs = append(fvs, mk("fieldval", f.Name(), 0, nil, mk("field", f.Name(), 0, f.Type(), g)))
					}
				}
				if found && e.bind[g.key] == nil {
					return mk("structval", typeStr(typ), 0, typ, fvs...)
				}
			}
		}
		return e.rebind(mk("global", addr.Name, 0, typ))
	case "faddr":
		base := addr.Args[0]
		if whole, ok := s.mem[base.key]; ok {
			return e.fieldOf(whole, addr.Name, typ)
		}
		if typ != nil && isLocalAddr(addr) {
			// an embedded/nested struct held field by field below a local allocation
			if sv, ok := e.structFromCells(s, addr, typ, 0); ok {
				return sv
			}
		}
		if base.Kind == "alloc" {
			return zeroOf(typ)
		}
		if base.Kind == "faddr" || base.Kind == "cell" || base.Kind == "indexaddr" || base.Kind == "gaddr" {
			// nested struct: load the parent then project
			return e.fieldOf(e.load(s, base, nil), addr.Name, typ)
		}
		return e.rebind(mk("field", addr.Name, 0, typ, base))
	case "alloc":
		if typ != nil {
			if sv, ok := e.structFromCells(s, addr, typ, 0); ok {
				return sv
			}
		}
		return zeroOf(typ)
	case "cell":
		if isLocalAddr(addr) {
			// a struct element assembled field by field
			if typ != nil {
				if st, ok := typ.Underlying().(*types.Struct); ok {
					var fs []*Term
					for i := 0; i < st.NumFields(); i++ {
						if fv, ok := s.mem[mk("faddr", st.Field(i).Name(), 0, nil, addr).key]; ok {
							fs = append(fs, mk("fieldval", st.Field(i).Name(), 0, nil, fv))
						}
					}
					if len(fs) > 0 {
						return mk("structval", typeStr(typ), 0, typ, fs...)
					}
				}
			}
			return zeroOf(typ)
		}
		return mk("deref", "", 0, typ, addr)
	case "indexaddr":
		// element of a slice literal or of an append chain over one, with a constant index
		if addr.Args[1].Kind == "const" {
			if els, ok := chainElems(addr.Args[0]); ok {
				if c, ok := constVal(addr.Args[1]); ok && c.IsInt64() && c.Int64() >= 0 && int(c.Int64()) < len(els) {
					return els[c.Int64()]
				}
			}
		}
		return e.rebind(mk("deref", "", 0, typ, addr))
	case "freevar", "param":
		// pointer-typed free variable (captured variable cell) or parameter
		return e.rebind(mk("deref", "", 0, typ, addr))
	}
	return e.rebind(mk("deref", "", 0, typ, addr))
}

// structFromCells assembles the value of a struct held at addr from the field cells written below it (nested structs
// recursively); ok is false when no cell is known.
func (e *Engine) structFromCells(s *state, addr *Term, typ types.Type, depth int) (*Term, bool) {
	st, isStruct := typ.Underlying().(*types.Struct)
	if !isStruct || depth > 4 {
		return nil, false
	}
	var fs []*Term
	for i := 0; i < st.NumFields(); i++ {
		fa := mk("faddr", st.Field(i).Name(), 0, nil, addr)
		if fv, ok := s.mem[fa.key]; ok {
			fs = append(fs, mk("fieldval", st.Field(i).Name(), 0, nil, fv))
			continue
		}
		if sub, ok := e.structFromCells(s, fa, st.Field(i).Type(), depth+1); ok {
			fs = append(fs, mk("fieldval", st.Field(i).Name(), 0, nil, sub))
		}
	}
	if len(fs) == 0 {
		return nil, false
	}
	return mk("structval", typeStr(typ), 0, typ, fs...), true
}

func (e *Engine) fieldOf(whole *Term, name string, typ types.Type) *Term {
	if whole.Kind == "structval" {
		for _, f := range whole.Args {
			if f.Name == name {
				return f.Args[0]
			}
		}
		return zeroOf(typ)
	}
	if whole.Kind == "zero" {
		return zeroOf(typ)
	}
	// the zero value of a structure type written as a literal (T{}): go/ssa represents it as a nil constant of that type
	if whole.Kind == "nil" && whole.Typ != nil {
		if _, isStruct := whole.Typ.Underlying().(*types.Struct); isStruct {
			return zeroOf(typ)
		}
	}
	return e.rebind(mk("field", name, 0, typ, whole))
}

func (e *Engine) eval(s *state, fr *frame, v ssa.Value) *Term {
	switch x := v.(type) {
	case *ssa.Alloc:
		a := mk("alloc", fr.ctx+"/"+x.Name()+"@"+e.posStr(x.Pos())+":"+x.Comment, 0, x.Type())
		// re-executed allocation (loop): fresh zero value
		for k := range s.mem {
			if strings.Contains(k, a.key) {
				delete(s.mem, k)
			}
		}
		return a
	case *ssa.Phi:
		for i, p := range fr.block.Preds {
			if p == fr.prev {
				return e.val(s, fr, x.Edges[i])
			}
		}
		return mk("unknown", "phi", 0, x.Type())
	case *ssa.UnOp:
		a := e.val(s, fr, x.X)
		switch x.Op {
		case token.MUL:
			v := e.load(s, a, x.Type())
			if v != nil && v.Kind == "field" && e.fieldConst != nil {
				// a field read through an unknown receiver whose only production value is one constant (devirt.go)
				if fa, ok := x.X.(*ssa.FieldAddr); ok {
					if c := e.fieldConst(fa); c != nil {
						return e.val(s, fr, c)
					}
				}
			}
			return v
		case token.NOT:
			if a.Kind == "unop" && a.Name == "!" {
				return a.Args[0]
			}
			if a.Kind == "const" {
				if a.Name == "true" {
					return mk("const", "false", 0, x.Type())
				}
				return mk("const", "true", 0, x.Type())
			}
			return mk("unop", "!", 0, x.Type(), a)
		case token.ARROW:
			s.emit(Event{Kind: "recv", Recv: a, Pos: x.Pos(), Ctx: fr.ctx, Depth: fr.depth, InFn: fr.fn})
			return mk("recvval", "", 0, x.Type(), a)
		}
		return mk("unop", x.Op.String(), 0, x.Type(), a)
	case *ssa.BinOp:
		a, b := e.val(s, fr, x.X), e.val(s, fr, x.Y)
		if a.Kind == "const" && b.Kind == "const" {
			if r, ok := foldConst(x.Op, a, b); ok {
				return mk("const", r, 0, x.Type())
			}
		}
		if r, ok := foldStatusCode(x.Op, a, b); ok {
			return mk("const", r, 0, x.Type())
		}
		return mk("binop", x.Op.String(), 0, x.Type(), a, b)
	case *ssa.FieldAddr:
		base := e.val(s, fr, x.X)
		st := x.X.Type().Underlying().(*types.Pointer).Elem().Underlying().(*types.Struct)
		if base.Kind == "call" {
			// a pointer returned by a call is dereferenced here (nil on that call's error paths for many APIs)
			s.emit(Event{Kind: "fieldaddr", Callee: st.Field(x.Field).Name(), Recv: base, Pos: x.Pos(), Ctx: fr.ctx, Depth: fr.depth, InFn: fr.fn})
		}
		return mk("faddr", st.Field(x.Field).Name(), 0, x.Type(), base)
	case *ssa.Field:
		base := e.val(s, fr, x.X)
		st := x.X.Type().Underlying().(*types.Struct)
		fv := e.fieldOf(base, st.Field(x.Field).Name(), x.Type())
		if fv != nil && fv.Kind == "field" && e.fieldConstByName != nil {
			// a field of a structure passed by value whose only production value is one constant (devirt.go)
			if c := e.fieldConstByName(typeStr(x.X.Type()), st.Field(x.Field).Name()); c != nil {
				return e.val(s, fr, c)
			}
		}
		return fv
	case *ssa.IndexAddr:
		base := e.val(s, fr, x.X)
		idx := e.val(s, fr, x.Index)
		if base.Kind == "alloc" && idx.Kind == "const" {
			return mk("cell", idx.Name, 0, x.Type(), base)
		}
		s.emit(Event{Kind: "index", Recv: base, Args: []*Term{idx}, Pos: x.Pos(), Ctx: fr.ctx, Depth: fr.depth, InFn: fr.fn})
		return mk("indexaddr", "", 0, x.Type(), base, idx)
	case *ssa.Index:
		ib, ii := e.val(s, fr, x.X), e.val(s, fr, x.Index)
		s.emit(Event{Kind: "index", Recv: ib, Args: []*Term{ii}, Pos: x.Pos(), Ctx: fr.ctx, Depth: fr.depth, InFn: fr.fn})
		return mk("index", "", 0, x.Type(), ib, ii)
	case *ssa.Slice:
		base := e.val(s, fr, x.X)
		if base.Kind == "alloc" && x.Low == nil && x.High == nil {
			if at, ok := x.X.Type().Underlying().(*types.Pointer); ok {
				if arr, ok := at.Elem().Underlying().(*types.Array); ok && arr.Len() <= 32 {
					var el []*Term
					anyCell := arr.Len() == 0
					for i := int64(0); i < arr.Len(); i++ {
						cellT := mk("cell", fmt.Sprint(i), 0, nil, base)
						if cv, ok := s.mem[cellT.key]; ok {
							el = append(el, cv)
							anyCell = true
						} else if lv := e.load(s, cellT, arr.Elem()); lv.Kind == "structval" {
							el = append(el, lv)
							anyCell = true
						} else {
							el = append(el, mk("zero", "", 0, nil))
						}
					}
					if anyCell {
						return mk("varargs", "", 0, x.Type(), el...)
					}
				}
			}
		}
		lo, hi := e.val(s, fr, x.Low), e.val(s, fr, x.High)
		if lo != nil || hi != nil {
			s.emit(Event{Kind: "slice", Recv: base, Args: []*Term{lo, hi}, Pos: x.Pos(), Ctx: fr.ctx, Depth: fr.depth, InFn: fr.fn})
		}
		return mk("slice", "", 0, x.Type(), base, lo, hi)
	case *ssa.Lookup:
		m, k := e.val(s, fr, x.X), e.val(s, fr, x.Index)
		if isMapTerm(m) && !isLocalAddr(m) && m.Kind != "maplit" {
			s.emit(Event{Kind: "mapread", Recv: m, Args: []*Term{k}, Pos: x.Pos(), Ctx: fr.ctx, Depth: fr.depth, InFn: fr.fn})
		}
		var vt types.Type
		if mt, ok := x.X.Type().Underlying().(*types.Map); ok {
			vt = mt.Elem()
		}
		if m.Kind == "maplit" && (k.Kind == "const" || k.Kind == "global" || k.Kind == "nil" || k.Kind == "stubval") {
			val, found := mk("zero", "", 0, vt), false
			if vt != nil {
				if bt, ok := vt.Underlying().(*types.Basic); ok && bt.Info()&types.IsNumeric != 0 {
					val = mk("const", "0", 0, vt)
				}
			}
			for i := 0; i+1 < len(m.Args); i += 2 {
				if m.Args[i] == k {
					val, found = m.Args[i+1], true
				}
			}
			if x.CommaOk {
				return mk("tuple", "", 0, nil, val, mk("const", fmt.Sprint(found), 0, types.Typ[types.Bool]))
			}
			return val
		}
		ep := 0
		if anySub(m, func(t *Term) bool { return t.Kind == "preset" }) {
			ep = s.epoch // value of a bound store's map as of this critical section
		}
		if x.CommaOk {
			return mk("tuple", "", 0, nil, mk("lookup", "val", ep, vt, m, k), mk("lookup", "ok", ep, types.Typ[types.Bool], m, k))
		}
		if vt == nil { // string index
			s.emit(Event{Kind: "index", Recv: m, Args: []*Term{k}, Pos: x.Pos(), Ctx: fr.ctx, Depth: fr.depth, InFn: fr.fn})
			return mk("index", "", 0, x.Type(), m, k)
		}
		return mk("lookup", "val", ep, x.Type(), m, k)
	case *ssa.Extract:
		t := e.val(s, fr, x.Tuple)
		if t.Kind == "tuple" && x.Index < len(t.Args) {
			return t.Args[x.Index]
		}
		if t.Kind == "call" {
			return mk("call", t.Name, x.Index+1, x.Type(), t.Args...)
		}
		return mk("extract", "", x.Index+1, x.Type(), t)
	case *ssa.MakeInterface:
		return e.val(s, fr, x.X)
	case *ssa.ChangeInterface:
		return e.val(s, fr, x.X)
	case *ssa.ChangeType:
		return e.val(s, fr, x.X)
	case *ssa.Convert:
		a := e.val(s, fr, x.X)
		if types.Identical(x.X.Type().Underlying(), x.Type().Underlying()) {
			return a
		}
		// an integer constant converted to another integer type that can hold it stays that constant
		if a.Kind == "const" && isIntType(x.X.Type()) && isIntType(x.Type()) {
			if c, ok := constVal(a); ok && c.IsInt64() && c.Int64() >= 0 && c.Int64() < 128 {
				return mk("const", a.Name, 0, x.Type())
			}
		}
		if _, fromSlice := x.X.Type().Underlying().(*types.Slice); fromSlice {
			// []byte -> string copies the bytes at this point in time (matters for views that are later invalidated)
			s.emit(Event{Kind: "copyconv", Args: []*Term{a}, Pos: x.Pos(), Ctx: fr.ctx, Depth: fr.depth, InFn: fr.fn})
		}
		return mk("conv", typeStr(x.Type()), 0, x.Type(), a)
	case *ssa.SliceToArrayPointer:
		sb := e.val(s, fr, x.X)
		s.emit(Event{Kind: "slice2arr", Recv: sb, Args: []*Term{mk("const", fmt.Sprint(x.Type().Underlying().(*types.Pointer).Elem().Underlying().(*types.Array).Len()), 0, types.Typ[types.Int])}, Pos: x.Pos(), Ctx: fr.ctx, Depth: fr.depth, InFn: fr.fn})
		return mk("slice2arr", typeStr(x.Type()), 0, x.Type(), sb)
	case *ssa.MakeClosure:
		fn := x.Fn.(*ssa.Function)
		var b []*Term
		for _, bv := range x.Bindings {
			b = append(b, e.val(s, fr, bv))
		}
		return mk("closure", fn.String(), 0, x.Type(), b...)
	case *ssa.MakeMap:
		return mk("alloc", fr.ctx+"/makemap@"+e.posStr(x.Pos()), 0, x.Type())
	case *ssa.MakeSlice:
		ln := e.val(s, fr, x.Len)
		s.emit(Event{Kind: "makeslice", Args: []*Term{ln, e.val(s, fr, x.Cap)}, Pos: x.Pos(), Ctx: fr.ctx, Depth: fr.depth, InFn: fr.fn})
		name := fr.ctx + "/makeslice@" + e.posStr(x.Pos())
		if ln != nil && ln.Kind == "const" {
			name += "|len=" + ln.Name // a constant length is part of the allocation's identity (known element count)
		}
		return mk("alloc", name, 0, x.Type())
	case *ssa.MakeChan:
		return mk("alloc", fr.ctx+"/makechan@"+e.posStr(x.Pos()), 0, x.Type())
	case *ssa.TypeAssert:
		a := e.val(s, fr, x.X)
		if x.CommaOk {
			return mk("tuple", "", 0, nil, mk("typeassert", typeStr(x.AssertedType), 0, x.AssertedType, a), mk("typeis", typeStr(x.AssertedType), 0, types.Typ[types.Bool], a))
		}
		s.emit(Event{Kind: "typeassert", Recv: a, Callee: typeStr(x.AssertedType), Pos: x.Pos(), Ctx: fr.ctx, Depth: fr.depth, InFn: fr.fn})
		return mk("typeassert", typeStr(x.AssertedType), 0, x.AssertedType, a)
	case *ssa.Range:
		m := e.val(s, fr, x.X)
		if isMapTerm(m) && !isLocalAddr(m) {
			s.emit(Event{Kind: "mapread", Recv: m, Pos: x.Pos(), Ctx: fr.ctx, Depth: fr.depth, InFn: fr.fn})
		}
		return mk("rangeiter", e.posStr(x.Pos()), 0, nil, m)
	}
	return mk("unknown", fmt.Sprintf("%T", v), 0, v.Type())
}

func foldConst(op token.Token, a, b *Term) (string, bool) {
	if a.Name == "true" || a.Name == "false" {
		if b.Name != "true" && b.Name != "false" {
			return "", false
		}
		switch op {
		case token.EQL:
			return fmt.Sprint(a.Name == b.Name), true
		case token.NEQ:
			return fmt.Sprint(a.Name != b.Name), true
		}
		return "", false
	}
	ca, cb := constant.MakeFromLiteral(a.Name, litKind(a.Name), 0), constant.MakeFromLiteral(b.Name, litKind(b.Name), 0)
	if ca.Kind() == constant.Unknown || cb.Kind() == constant.Unknown {
		return "", false
	}
	switch op {
	case token.EQL, token.NEQ, token.LSS, token.LEQ, token.GTR, token.GEQ:
		return fmt.Sprint(constant.Compare(ca, op, cb)), true
	case token.ADD, token.SUB:
		if ca.Kind() == constant.Int && cb.Kind() == constant.Int {
			x, ok1 := new(big.Int).SetString(ca.ExactString(), 10)
			y, ok2 := new(big.Int).SetString(cb.ExactString(), 10)
			if ok1 && ok2 && x.IsInt64() && y.IsInt64() && abs64(x.Int64()) < 1<<31 && abs64(y.Int64()) < 1<<31 {
				if op == token.ADD {
					return fmt.Sprint(x.Int64() + y.Int64()), true
				}
				return fmt.Sprint(x.Int64() - y.Int64()), true
			}
		}
	}
	return "", false
}

// foldStatusCode decides status.Code(e) ==/!= c when e's provenance fixes the answer: an error built by
// status.Error(f)(c', ...) has code c'; an error produced by database/sql, errors.New or fmt.Errorf over such errors is
// not a gRPC status (assumption recorded in the evidence), so its code is OK (nil) or Unknown.
func foldStatusCode(op token.Token, a, b *Term) (string, bool) {
	if op != token.EQL && op != token.NEQ {
		return "", false
	}
	if b.Kind == "call" && a.Kind == "const" {
		a, b = b, a
	}
	if a.Kind != "call" || b.Kind != "const" {
		return "", false
	}
	var e *Term
	switch {
	case a.Name == "google.golang.org/grpc/status.Code" && len(a.Args) == 3:
		e = a.Args[2]
	case strings.HasSuffix(a.Name, "status.Status).Code") && len(a.Args) >= 2 && a.Args[1] != nil && a.Args[1].Kind == "call" && len(a.Args[1].Args) == 3 &&
		(a.Args[1].Name == "google.golang.org/grpc/status.Convert" || a.Args[1].Name == "google.golang.org/grpc/status.FromError"):
		e = a.Args[1].Args[2]
	}
	if e == nil {
		return "", false
	}
	if e.Kind == "nil" { // status.Code(nil) is codes.OK
		return fmt.Sprint((b.Name == "0") == (op == token.EQL)), true
	}
	if e.Kind == "call" && (e.Name == "google.golang.org/grpc/status.Error" || e.Name == "google.golang.org/grpc/status.Errorf") && len(e.Args) > 2 && e.Args[2].Kind == "const" {
		return fmt.Sprint((e.Args[2].Name == b.Name) == (op == token.EQL)), true
	}
	if notGRPCStatus(e) && b.Name != "0" && b.Name != "2" {
		return fmt.Sprint(op == token.NEQ), true
	}
	return "", false
}

func notGRPCStatus(e *Term) bool {
	if e == nil || e.Kind != "call" {
		return false
	}
	switch {
	case strings.Contains(e.Name, "database/sql."):
		return true
	case e.Name == "errors.New":
		return true
	case e.Name == "fmt.Errorf":
		for _, a := range e.Args[2:] {
			bad := false
			anySub(a, func(t *Term) bool {
				if t.Typ != nil && isErrorType(t.Typ) && !notGRPCStatus(t) {
					bad = true
				}
				return false
			})
			if bad {
				return false
			}
		}
		return true
	}
	return false
}

func abs64(x int64) int64 {
	if x < 0 {
		return -x
	}
	return x
}

func litKind(s string) token.Token {
	if strings.HasPrefix(s, "\"") {
		return token.STRING
	}
	if strings.ContainsAny(s, ".eE/") && !strings.HasPrefix(s, "0x") {
		return token.FLOAT
	}
	return token.INT
}

// normFact normalises a branch condition. ok=false means the branch is statically dead.
func normFact(c *Term, pol bool) (Fact, bool) {
	for c.Kind == "unop" && c.Name == "!" {
		c = c.Args[0]
		pol = !pol
	}
	if c.Kind == "const" {
		if (c.Name == "true") == pol {
			return Fact{}, true
		}
		return Fact{}, false
	}
	if c.Kind == "binop" && (c.Name == "==" || c.Name == "!=") {
		r, known := nilCompare(c.Args[0], c.Args[1])
		if !known {
			r, known = identCompare(c.Args[0], c.Args[1])
		}
		if known {
			if (c.Name == "==") != r {
				pol = !pol
			}
			if pol {
				return Fact{}, true
			}
			return Fact{}, false
		}
	}
	if c.Kind == "binop" {
		a, b := c.Args[0], c.Args[1]
		switch c.Name {
		case "!=":
			return Fact{T: eqTerm(a, b), Pos: !pol}, true
		case "==":
			return Fact{T: eqTerm(a, b), Pos: pol}, true
		case "<":
			return Fact{T: mk("binop", "<", 0, c.Typ, a, b), Pos: pol}, true
		case ">":
			return Fact{T: mk("binop", "<", 0, c.Typ, b, a), Pos: pol}, true
		case "<=":
			return Fact{T: mk("binop", "<", 0, c.Typ, b, a), Pos: !pol}, true
		case ">=":
			return Fact{T: mk("binop", "<", 0, c.Typ, a, b), Pos: !pol}, true
		}
	}
	return Fact{T: c, Pos: pol}, true
}

func eqTerm(a, b *Term) *Term {
	if a.key > b.key {
		a, b = b, a
	}
	return mk("binop", "==", 0, types.Typ[types.Bool], a, b)
}

func sortedKeys(m map[string]*Term) []string {
	var ks []string
	for k := range m {
		ks = append(ks, k)
	}
	sort.Strings(ks)
	return ks
}

// nonNilCtor lists functions whose (error/pointer) result is never nil. One reason per entry.
var nonNilCtor = map[string]bool{
	"fmt.Errorf":                               true, // always allocates a *wrapError/*fmtError
	"errors.New":                               true, // always allocates
	"google.golang.org/grpc/status.Error":      true, // non-OK codes only are used in this repo (checked by rule NOTFOUND-EXACT)
	"google.golang.org/grpc/status.Errorf":     true, // idem
	"github.com/cenkalti/backoff/v4.Permanent": true, // wraps a non-nil error (argument checked never-nil by the C13 rule)
}

func neverNil(t *Term) bool {
	switch t.Kind {
	case "call":
		return t.Idx <= 1 && nonNilCtor[t.Name]
	case "global":
		// package-level error sentinels (Err*): assigned once at package init (rule IMMUT-GLOBALS)
		i := strings.LastIndex(t.Name, ".")
		return sentinelName(t.Name[i+1:]) && isErrorType(t.Typ)
	case "alloc", "closure", "func", "structval", "stubval", "maplit":
		return true
	}
	return false
}

func isErrorType(t types.Type) bool {
	if t == nil {
		return false
	}
	return types.Identical(t, types.Universe.Lookup("error").Type())
}

// nilCompare decides a == b when it is statically known.
func nilCompare(a, b *Term) (equal bool, known bool) {
	an, bn := a.Kind == "nil" || a.Kind == "zero" && isNilable(a.Typ), b.Kind == "nil" || b.Kind == "zero" && isNilable(b.Typ)
	if an && bn {
		return true, true
	}
	if an && neverNil(b) || bn && neverNil(a) {
		return false, true
	}
	return false, false
}

// successResults: calls whose listed results are non-nil whenever their error result (the last one) is nil.
var successResults = map[string][]int{
	"golang.org/x/mod/sumdb/note.Sign":                        {1}, // the signed note
	"golang.org/x/mod/sumdb/note.Open":                        {1},
	"github.com/transparency-dev/formats/log.ParseCheckpoint": {1, 3}, // checkpoint and note (result 2 is the remaining bytes)
	"(*database/sql.DB).Begin":                                {1},
}

// contradictsContract: f claims that a success result of one of those calls is nil although the path already established
// that the call's error is nil.
func contradictsContract(facts []Fact, f Fact) bool {
	// contract of x/mod note.Sign / note.Open (and ParseCheckpoint on top of it): signing adds signature lines and keeps the
	// text, so the text of a note re-opened from Sign(n, …) is n's text: "they differ" is infeasible
	if !f.Pos && f.T.Kind == "binop" && f.T.Name == "==" && len(f.T.Args) == 2 {
		if sameTextBySignContract(f.T.Args[0], f.T.Args[1]) || sameTextBySignContract(f.T.Args[1], f.T.Args[0]) {
			return true
		}
	}
	// contract of note.Open / ParseCheckpoint: a note that opened carries at least one verified signature, and the bytes a
	// witness verdict stands for (a stored or cosigned checkpoint) are never empty: "its length is zero" is infeasible
	if x := assertsEmpty(f); x != nil {
		if x.Kind == "stubval" {
			return true
		}
		if x.Kind == "field" && x.Name == "Sigs" && len(x.Args) == 1 {
			nt := x.Args[0]
			for nt != nil && nt.Kind == "deref" && len(nt.Args) == 1 {
				nt = nt.Args[0]
			}
			if nt != nil && nt.Kind == "call" {
				if idxs, ok := successResults[nt.Name]; ok {
					for _, i := range idxs {
						if nt.Idx == i && errNilInFacts(facts, nt) {
							return true
						}
					}
				}
			}
		}
	}
	// contract of bufio.Reader.ReadLine: a fragment returned with isPrefix == true filled the buffer, so it is not empty; a
	// slice that such a fragment was appended to is not nil
	if f.Pos && f.T.Kind == "binop" && f.T.Name == "==" && len(f.T.Args) == 2 {
		x, y := f.T.Args[0], f.T.Args[1]
		if x.Kind == "nil" {
			x, y = y, x
		}
		if y.Kind == "nil" && x.Kind == "append" {
			for t := x; t != nil && t.Kind == "append" && len(t.Args) >= 2; t = t.Args[0] {
				for _, el := range t.Args[1:] {
					if el != nil && el.Kind == "call" && el.Name == "(*bufio.Reader).ReadLine" && el.Idx == 1 {
						isPrefix := mk("call", el.Name, 2, types.Typ[types.Bool], el.Args...)
						for _, g := range facts {
							if g.Pos && g.T == isPrefix {
								return true
							}
						}
					}
				}
			}
		}
	}
	if !f.Pos || f.T.Kind != "binop" || f.T.Name != "==" {
		return false
	}
	a, b := f.T.Args[0], f.T.Args[1]
	if a.Kind == "nil" {
		a, b = b, a
	}
	if b.Kind != "nil" || a.Kind != "call" {
		return false
	}
	idxs, ok := successResults[a.Name]
	if !ok {
		return false
	}
	hit := false
	for _, i := range idxs {
		if a.Idx == i {
			hit = true
		}
	}
	if !hit {
		return false
	}
	for _, g := range facts {
		if !g.Pos || g.T.Kind != "binop" || g.T.Name != "==" {
			continue
		}
		x, y := g.T.Args[0], g.T.Args[1]
		if x.Kind == "nil" {
			x, y = y, x
		}
		if y.Kind == "nil" && x.Kind == "call" && x.Name == a.Name && x.Idx != a.Idx && isErrorType(x.Typ) && len(x.Args) == len(a.Args) {
			same := true
			for i := range x.Args {
				if x.Args[i] != a.Args[i] {
					same = false
				}
			}
			if same {
				return true
			}
		}
	}
	return false
}

// assertsEmpty: the fact says len(X) == 0 (in any of the forms the normaliser produces); returns X.
func assertsEmpty(f Fact) *Term {
	t := f.T
	if t.Kind != "binop" || len(t.Args) != 2 {
		return nil
	}
	lenArg := func(x *Term) *Term {
		if x != nil && x.Kind == "len" && len(x.Args) == 1 {
			return x.Args[0]
		}
		return nil
	}
	isC := func(x *Term, c string) bool { return x != nil && x.Kind == "const" && x.Name == c }
	a, b := t.Args[0], t.Args[1]
	switch {
	case t.Name == "==" && f.Pos && lenArg(a) != nil && isC(b, "0"):
		return lenArg(a)
	case t.Name == "==" && f.Pos && lenArg(b) != nil && isC(a, "0"):
		return lenArg(b)
	case t.Name == "<" && !f.Pos && isC(a, "0") && lenArg(b) != nil: // !(0 < len)
		return lenArg(b)
	case t.Name == "<" && f.Pos && lenArg(a) != nil && isC(b, "1"): // len < 1
		return lenArg(a)
	}
	return nil
}

// errNilInFacts: the facts establish that the error result of the call that t is a result of is nil.
func errNilInFacts(facts []Fact, t *Term) bool {
	for _, g := range facts {
		if !g.Pos || g.T.Kind != "binop" || g.T.Name != "==" {
			continue
		}
		x, y := g.T.Args[0], g.T.Args[1]
		if x.Kind == "nil" {
			x, y = y, x
		}
		if y.Kind == "nil" && x.Kind == "call" && x.Name == t.Name && x.Idx != t.Idx && isErrorType(x.Typ) && len(x.Args) == len(t.Args) {
			same := true
			for i := range x.Args {
				if x.Args[i] != t.Args[i] {
					same = false
				}
			}
			if same {
				return true
			}
		}
	}
	return false
}

// sameTextBySignContract: a is X.Text and b is (note opened from note.Sign(X, …)).Text.
func sameTextBySignContract(a, b *Term) bool {
	if a == nil || b == nil || a.Kind != "field" || b.Kind != "field" || a.Name != "Text" || b.Name != "Text" || len(a.Args) != 1 || len(b.Args) != 1 {
		return false
	}
	x, reopened := a.Args[0], b.Args[0]
	for reopened != nil && reopened.Kind == "deref" && len(reopened.Args) == 1 {
		reopened = reopened.Args[0]
	}
	for x != nil && x.Kind == "deref" && len(x.Args) == 1 {
		x = x.Args[0]
	}
	if reopened == nil || reopened.Kind != "call" || len(reopened.Args) < 3 {
		return false
	}
	isOpen := strings.HasSuffix(reopened.Name, "sumdb/note.Open") || strings.HasSuffix(reopened.Name, "formats/log.ParseCheckpoint")
	if !isOpen {
		return false
	}
	src := reopened.Args[2]
	if src == nil || src.Kind != "call" || !strings.HasSuffix(src.Name, "sumdb/note.Sign") || len(src.Args) < 3 {
		return false
	}
	signed := src.Args[2]
	for signed != nil && signed.Kind == "deref" && len(signed.Args) == 1 {
		signed = signed.Args[0]
	}
	return signed == x
}

// isSentinel: a package-level Err* error variable (assigned once at init by errors.New: rule IMMUT-GLOBALS).
func isSentinel(t *Term) bool {
	if t == nil || t.Kind != "global" {
		return false
	}
	i := strings.LastIndex(t.Name, ".")
	return sentinelName(t.Name[i+1:]) && isErrorType(t.Typ)
}

// sentinelName: ErrX or errX — the naming convention of package-level error values (exported or not).
func sentinelName(n string) bool {
	if strings.HasPrefix(n, "Err") {
		return true
	}
	return strings.HasPrefix(n, "err") && len(n) > 3 && n[3] >= 'A' && n[3] <= 'Z'
}

// identCompare decides == between error sentinels and stub values by identity: distinct sentinels are distinct
// errors.New allocations; a stub value stands for "any value that is none of the named ones".
func identCompare(a, b *Term) (equal bool, known bool) {
	if a == b && (isSentinel(a) || a.Kind == "stubval") {
		return true, true
	}
	if (isSentinel(a) || a.Kind == "stubval") && (isSentinel(b) || b.Kind == "stubval") {
		return false, true
	}
	// a freshly allocated error is never identical to a sentinel that existed before the call
	fresh := func(t *Term) bool {
		return t.Kind == "call" && t.Idx <= 1 && (t.Name == "fmt.Errorf" || t.Name == "errors.New" || t.Name == "google.golang.org/grpc/status.Error" || t.Name == "google.golang.org/grpc/status.Errorf")
	}
	if (isSentinel(a) && fresh(b)) || (isSentinel(b) && fresh(a)) {
		return false, true
	}
	return false, false
}

// errorsIsKnown decides errors.Is(x, target) for sentinel targets when x is nil, a sentinel, or a stub value
// (errors.New values wrap nothing; a stub value stands for an error that is and wraps none of the sentinels).
func errorsIsKnown(x, target *Term) (bool, bool) {
	if !isSentinel(target) {
		return false, false
	}
	switch {
	case x.Kind == "nil":
		return false, true
	case isSentinel(x):
		return x == target, true
	case x.Kind == "stubval":
		return false, true
	}
	return false, false
}

func isNilable(t types.Type) bool {
	if t == nil {
		return false
	}
	switch t.Underlying().(type) {
	case *types.Pointer, *types.Interface, *types.Slice, *types.Map, *types.Chan, *types.Signature:
		return true
	}
	return false
}

package main

// Structural and path rules over the two stores and the code that may touch them:
// SOLE-WRITER, IMMUT, C03.c/d, C04.d, C05.b-g, C06.a/b, C07.c-f, C12.b.

import (
	"fmt"
	"go/constant"
	"go/token"
	"go/types"
	"strings"

	"golang.org/x/tools/go/ssa"
)

const (
	fnSQLSet        = "(*" + pSQL + ".writer).Set"
	fnSQLClose      = "(*" + pSQL + ".writer).Close"
	fnSQLWGet       = "(*" + pSQL + ".writer).GetLatest"
	fnSQLRGet       = "(*" + pSQL + ".reader).GetLatest"
	fnSQLWriteOps   = "(*" + pSQL + ".sqlLogPersistence).WriteOps"
	fnSQLReadOps    = "(*" + pSQL + ".sqlLogPersistence).ReadOps"
	fnSQLLogs       = "(*" + pSQL + ".sqlLogPersistence).Logs"
	fnSQLInit       = "(*" + pSQL + ".sqlLogPersistence).Init"
	fnMemWriteOps   = "(*" + pInmem + ".inMemoryPersistence).WriteOps"
	fnMemReadOps    = "(*" + pInmem + ".inMemoryPersistence).ReadOps"
	fnMemLogs       = "(*" + pInmem + ".inMemoryPersistence).Logs"
	fnMemExpect     = "(*" + pInmem + ".inMemoryPersistence).expectAndWrite"
	fnMemGet        = "(*" + pInmem + ".readWriter).GetLatest"
	fnMemSet        = "(*" + pInmem + ".readWriter).Set"
	fnMemClose      = "(*" + pInmem + ".readWriter).Close"
	fnGetCheckpoint = "(*" + pWitness + ".Witness).GetCheckpoint"
	fnGetLogs       = "(*" + pWitness + ".Witness).GetLogs"
	fnWitnessNew    = pWitness + ".New"
)

type sumCacheKey struct {
	w     *World
	name  string
	depth int
	loops int
}

var sumCache = map[sumCacheKey][]Summary{}
var engCache = map[*World]map[string]*Engine{}

func engFor(w *World, depth, loops int, opaque ...string) *Engine {
	if engCache[w] == nil {
		engCache[w] = map[string]*Engine{}
	}
	k := fmt.Sprint(depth, loops, opaque)
	if e, ok := engCache[w][k]; ok {
		return e
	}
	e := w.engine(depth, loops)
	for _, o := range opaque {
		e.opaque[o] = true
	}
	engCache[w][k] = e
	return e
}

// exploreOpaque is explore with the named module functions kept as opaque call events.
func exploreOpaque(w *World, r *Run, rule, name string, depth, loops int, opaque ...string) ([]Summary, *Engine, bool) {
	fn := w.fn(name)
	if fn == nil {
		r.Undecided(rule, name, "", "anchor function not found in the type-checked program")
		return nil, nil, false
	}
	e := engFor(w, depth, loops, opaque...)
	k := sumCacheKey{w, name + "|opaque:" + strings.Join(opaque, ","), depth, loops}
	sums, ok := sumCache[k]
	if !ok {
		sums = e.Explore(fn)
		sumCache[k] = sums
	}
	r.Analysed(name, len(sums))
	for _, s := range sums {
		if s.Trunc != "" {
			r.Undecided(rule, name, w.pos(fn.Pos()), "path enumeration truncated: "+s.Trunc)
			return nil, e, false
		}
	}
	if len(sums) == 0 {
		r.Undecided(rule, name, w.pos(fn.Pos()), "no feasible path")
		return nil, e, false
	}
	return sums, e, true
}

// explore returns the path summaries of a named module function, or reports undecided.
func explore(w *World, r *Run, rule, name string, depth, loops int) ([]Summary, *Engine, bool) {
	fn := w.fn(name)
	if fn == nil {
		r.Undecided(rule, name, "", "anchor function not found in the type-checked program")
		return nil, nil, false
	}
	return exploreFn(w, r, rule, fn, depth, loops)
}

func exploreFn(w *World, r *Run, rule string, fn *ssa.Function, depth, loops int) ([]Summary, *Engine, bool) {
	name := funcNameOrSSA(fn)
	e := engFor(w, depth, loops)
	k := sumCacheKey{w, name, depth, loops}
	sums, ok := sumCache[k]
	if !ok {
		sums = e.Explore(fn)
		sumCache[k] = sums
	}
	r.Analysed(name, len(sums))
	for _, s := range sums {
		if s.Trunc != "" {
			r.Undecided(rule, name, w.pos(fn.Pos()), "path enumeration truncated: "+s.Trunc)
			return nil, e, false
		}
	}
	if len(sums) == 0 {
		r.Undecided(rule, name, w.pos(fn.Pos()), "no feasible path")
		return nil, e, false
	}
	return sums, e, true
}

func recvParam(fn *ssa.Function) *Term {
	if fn.Signature.Recv() == nil || len(fn.Params) == 0 {
		return nil
	}
	return mk("param", fn.Params[0].Name(), 0, fn.Params[0].Type())
}

func paramN(fn *ssa.Function, i int) *Term {
	if fn.Signature.Recv() != nil {
		i++
	}
	if i >= len(fn.Params) {
		return nil
	}
	return mk("param", fn.Params[i].Name(), 0, fn.Params[i].Type())
}

// memField reads field name of a struct alloc from the final memory of a path.
func memField(s Summary, alloc *Term, name string) *Term {
	if alloc == nil {
		return nil
	}
	if v, ok := s.Mem[mk("faddr", name, 0, nil, alloc).key]; ok {
		return v
	}
	if whole, ok := s.Mem[alloc.key]; ok && whole.Kind == "structval" {
		for _, f := range whole.Args {
			if f.Name == name {
				return f.Args[0]
			}
		}
	}
	return nil
}

// ---------------------------------------------------------------- production scope helpers

func (w *World) prodFns() []*ssa.Function {
	var out []*ssa.Function
	for _, fn := range w.modFns {
		if w.isProd(fn) {
			out = append(out, fn)
		}
	}
	return out
}

func outermost(fn *ssa.Function) *ssa.Function {
	for fn.Parent() != nil {
		fn = fn.Parent()
	}
	return fn
}

func fieldOfAddr(fa *ssa.FieldAddr) *types.Var {
	st := fa.X.Type().Underlying().(*types.Pointer).Elem().Underlying().(*types.Struct)
	return st.Field(fa.Field)
}

// baseIsLocalAlloc: the struct whose field is addressed was allocated in this very function.
func baseIsLocalAlloc(v ssa.Value) bool {
	switch x := v.(type) {
	case *ssa.Alloc:
		return true
	case *ssa.FieldAddr:
		return baseIsLocalAlloc(x.X)
	case *ssa.IndexAddr:
		return baseIsLocalAlloc(x.X)
	}
	return false
}

// constructionOption: fn is a function literal with the single parameter base (a "functional option" func(*T)), and every
// call in production code through a function value of that signature hands it a value the calling function has just
// allocated: the option runs as part of construction only.
func (w *World) constructionOption(fn *ssa.Function, base ssa.Value) bool {
	if fn.Parent() == nil || len(fn.Params) != 1 || base != ssa.Value(fn.Params[0]) {
		return false
	}
	sig := fn.Signature
	if sig.Results().Len() > 1 {
		return false
	}
	sites := 0
	for _, g := range w.prodFns() {
		for _, b := range g.Blocks {
			for _, in := range b.Instrs {
				var cc *ssa.CallCommon
				switch x := in.(type) {
				case *ssa.Call:
					cc = &x.Call
				case *ssa.Defer:
					cc = &x.Call
				case *ssa.Go:
					cc = &x.Call
				default:
					continue
				}
				if cc.IsInvoke() || cc.StaticCallee() != nil {
					continue
				}
				if _, isB := cc.Value.(*ssa.Builtin); isB {
					continue
				}
				cs, ok := cc.Value.Type().Underlying().(*types.Signature)
				if !ok || !types.Identical(cs, sig) || len(cc.Args) != 1 {
					continue
				}
				sites++
				if !baseIsLocalAlloc(cc.Args[0]) {
					return false
				}
			}
		}
	}
	return sites > 0
}

// mapFieldOf: if v is a map value loaded from a struct field, returns that field and the base.
func mapFieldOf(v ssa.Value) (*types.Var, ssa.Value) {
	if u, ok := v.(*ssa.UnOp); ok {
		if fa, ok := u.X.(*ssa.FieldAddr); ok {
			return fieldOfAddr(fa), fa.X
		}
	}
	if f, ok := v.(*ssa.Field); ok {
		st := f.X.Type().Underlying().(*types.Struct)
		return st.Field(f.Field), f.X
	}
	return nil, nil
}

// ---------------------------------------------------------------- IMMUT

func containsStr(xs []string, x string) bool {
	for _, y := range xs {
		if y == x {
			return true
		}
	}
	return false
}

func ruleImmut(w *World, r *Run, rule string, fs []fieldRef) {
	for _, f := range fs {
		fv := w.structField(f.pkg, f.typ, f.field)
		key := f.pkg + "." + f.typ + "." + f.field + " | written only by its constructor"
		if fv == nil {
			r.Undecided(rule, key, "", "field not found")
			continue
		}
		bad := 0
		n := 0
		for _, fn := range w.prodFns() {
			for _, b := range fn.Blocks {
				for _, in := range b.Instrs {
					switch x := in.(type) {
					case *ssa.Store:
						if fa, ok := x.Addr.(*ssa.FieldAddr); ok && fieldOfAddr(fa) == fv {
							n++
							if !baseIsLocalAlloc(fa.X) && !w.constructionOption(fn, fa.X) {
								bad++
								r.Fail(rule, key, w.pos(x.Pos()), "field "+f.typ+"."+f.field+" is written in "+short(fn.String())+" on a value that function did not construct")
							}
						}
					case *ssa.MapUpdate:
						if mf, base := mapFieldOf(x.Map); mf == fv {
							n++
							if !baseIsLocalAlloc(base) {
								bad++
								r.Fail(rule, key, w.pos(x.Pos()), "map "+f.typ+"."+f.field+" is updated in "+short(fn.String())+" outside construction")
							}
						}
					case *ssa.Call:
						if bi, ok := x.Call.Value.(*ssa.Builtin); ok && bi.Name() == "delete" {
							if mf, base := mapFieldOf(x.Call.Args[0]); mf == fv && !baseIsLocalAlloc(base) {
								bad++
								r.Fail(rule, key, w.pos(x.Pos()), "map "+f.typ+"."+f.field+" has an entry deleted in "+short(fn.String()))
							}
						}
						// mutation of a concurrent container / atomic held in the field (sync.Map.Store, atomic.Value.Store, …)
						if sc := x.Call.StaticCallee(); sc != nil && sc.Signature.Recv() != nil && len(x.Call.Args) > 0 {
							name := funcName(sc)
							mut := false
							for _, m := range []string{").Store", ").LoadOrStore", ").LoadAndDelete", ").Delete", ").Swap", ").CompareAndSwap", ").CompareAndDelete", ").Add", ").Clear"} {
								if strings.HasPrefix(name, "(*sync") && strings.HasSuffix(name, m) {
									mut = true
								}
							}
							if fa, ok := x.Call.Args[0].(*ssa.FieldAddr); ok && mut && fieldOfAddr(fa) == fv && !baseIsLocalAlloc(fa.X) {
								bad++
								r.Fail(rule, key, w.pos(x.Pos()), "field "+f.typ+"."+f.field+" is a concurrent container/atomic mutated in "+short(fn.String())+" ("+short(name)+"): state that outlives the request and is shared across logs and requests")
							}
						}
					}
				}
			}
		}
		if bad == 0 {
			r.Pass(rule, key, "", "")
		}
		_ = n
	}
}

// immutable configuration/handle types: every field is written only by the function constructing the value.
// Exceptions are listed with a reason.
var immutTypes = [][2]string{
	{pWitness, "Witness"}, {pSQL, "writer"}, {pSQL, "reader"}, {pSQL, "sqlLogPersistence"}, {pInmem, "readWriter"},
	{pBastion, "addHandler"}, {pRest, "Distributor"}, {pIHTTP, "Server"}, {pConfig, "Log"},
}

var immutExceptions = map[string]string{
	pInmem + ".readWriter.toStore": "scratch copy of the value handed to Set; never read back by another request (checked: only Set touches it)",
}

func immutCoreFields(w *World, r *Run, rule string, only ...string) []fieldRef {
	var out []fieldRef
	for _, tn := range immutTypes {
		if len(only) > 0 && !containsStr(only, tn[1]) {
			continue
		}
		o := w.lookup(tn[0], tn[1])
		if o == nil {
			r.Info(rule, tn[0]+"."+tn[1], "", "type no longer present (renamed?): its fields are not covered by the immutability rule")
			continue
		}
		st, ok := o.Type().Underlying().(*types.Struct)
		if !ok {
			continue
		}
		for i := 0; i < st.NumFields(); i++ {
			f := st.Field(i)
			if _, exc := immutExceptions[tn[0]+"."+tn[1]+"."+f.Name()]; exc {
				continue
			}
			out = append(out, fieldRef{tn[0], tn[1], f.Name()})
		}
	}
	if len(out) < 10 && len(only) == 0 || len(out) == 0 {
		r.Undecided(rule, "immutable configuration types", "", fmt.Sprintf("only %d fields found", len(out)))
	}
	return out
}

// ---------------------------------------------------------------- SOLE-WRITER

var sqlMutating = map[string]bool{"INSERT": true, "UPDATE": true, "DELETE": true, "REPLACE": true, "DROP": true, "ALTER": true, "TRUNCATE": true, "VACUUM": true, "ATTACH": true, "PRAGMA": true}

func isSQLExec(name string) (isExec bool, onTx bool) {
	switch name {
	case "(*database/sql.DB).Exec", "(*database/sql.DB).ExecContext", "(*database/sql.Conn).ExecContext", "(*database/sql.Stmt).Exec", "(*database/sql.Stmt).ExecContext",
		"(*database/sql.DB).Prepare", "(*database/sql.DB).PrepareContext":
		return true, false
	case "(*database/sql.Tx).Exec", "(*database/sql.Tx).ExecContext", "(*database/sql.Tx).Prepare", "(*database/sql.Tx).PrepareContext":
		return true, true
	}
	return false, false
}

func isSQLQuery(name string) bool {
	switch name {
	case "(*database/sql.DB).Query", "(*database/sql.DB).QueryContext", "(*database/sql.DB).QueryRow", "(*database/sql.DB).QueryRowContext",
		"(*database/sql.Tx).Query", "(*database/sql.Tx).QueryContext", "(*database/sql.Tx).QueryRow", "(*database/sql.Tx).QueryRowContext":
		return true
	}
	return false
}

// sqlTextSSA resolves the text of an SQL statement argument when it is not a literal at the call: a concatenation of
// literals with a configured identifier (a table name handed to the constructor; rendered as the identifier tbl_cfg), a
// field that is assigned in exactly one place of the module (statements prepared once by the constructor and kept in a
// struct), or a parameter for which every caller passes the same text.
func sqlTextSSA(w *World, fn *ssa.Function, v ssa.Value, depth int) (string, bool) {
	if depth > 8 {
		return "", false
	}
	if t, ok := constString(v); ok {
		return t, true
	}
	isStr := func(t types.Type) bool {
		b, ok := t.Underlying().(*types.Basic)
		return ok && b.Info()&types.IsString != 0
	}
	if !isStr(v.Type()) {
		return "", false
	}
	switch x := v.(type) {
	case *ssa.BinOp:
		if x.Op != token.ADD {
			return "", false
		}
		part := func(o ssa.Value) (string, bool) {
			if t, ok := sqlTextSSA(w, fn, o, depth+1); ok {
				return t, true
			}
			if _, isParam := o.(*ssa.Parameter); isParam {
				return "tbl_cfg", true // an identifier handed in by configuration
			}
			return "", false
		}
		a, ok1 := part(x.X)
		b, ok2 := part(x.Y)
		return a + b, ok1 && ok2
	case *ssa.UnOp:
		fa, ok := x.X.(*ssa.FieldAddr)
		if !ok {
			return "", false
		}
		fv := fieldOfAddr(fa)
		if fv == nil {
			return "", false
		}
		var texts []string
		for _, g := range w.prodFns() {
			for _, b := range g.Blocks {
				for _, in := range b.Instrs {
					st, ok := in.(*ssa.Store)
					if !ok {
						continue
					}
					if sfa, ok := st.Addr.(*ssa.FieldAddr); ok && fieldOfAddr(sfa) == fv {
						t, ok := sqlTextSSA(w, g, st.Val, depth+1)
						if !ok {
							return "", false
						}
						texts = append(texts, t)
					}
				}
			}
		}
		texts = uniqStrings(texts)
		if len(texts) == 1 {
			return texts[0], true
		}
		return "", false
	case *ssa.Parameter:
		idx := -1
		for i, p := range fn.Params {
			if p == x {
				idx = i
			}
		}
		if idx < 0 {
			return "", false
		}
		var texts []string
		for _, g := range w.prodFns() {
			for _, b := range g.Blocks {
				for _, in := range b.Instrs {
					c, ok := in.(ssa.CallInstruction)
					if !ok || c.Common().StaticCallee() != fn || idx >= len(c.Common().Args) {
						continue
					}
					t, ok := sqlTextSSA(w, g, c.Common().Args[idx], depth+1)
					if !ok {
						return "", false
					}
					texts = append(texts, t)
				}
			}
		}
		texts = uniqStrings(texts)
		if len(texts) == 1 {
			return texts[0], true
		}
		return "", false
	case *ssa.Phi:
		var texts []string
		for _, e := range x.Edges {
			t, ok := sqlTextSSA(w, fn, e, depth+1)
			if !ok {
				return "", false
			}
			texts = append(texts, t)
		}
		texts = uniqStrings(texts)
		if len(texts) == 1 {
			return texts[0], true
		}
	}
	return "", false
}

func constString(v ssa.Value) (string, bool) {
	if c, ok := v.(*ssa.Const); ok && c.Value != nil && c.Value.Kind() == constant.String {
		return constant.StringVal(c.Value), true
	}
	return "", false
}

func ruleSoleWriter(w *World, r *Run, rule string) {
	updFn := w.fn(fnUpdate)
	if updFn == nil {
		r.Undecided(rule, fnUpdate, "", "anchor not found")
		return
	}
	nWrite, nSet, nMap, nExec := 0, 0, 0, 0
	// concrete write entry points: the stores' implementations of LogStateWriteOps.Set and LogStatePersistence.WriteOps/Init
	implNames := map[string]string{}
	writeEntry := map[string]bool{cSet: true, cWriteOps: true}
	setRoots := map[string]map[*ssa.Function]bool{} // per package
	initRoots := map[string]map[*ssa.Function]bool{}
	for _, im := range []struct{ iface, meth string }{{"LogStateWriteOps", "Set"}, {"LogStatePersistence", "WriteOps"}, {"LogStatePersistence", "Init"}} {
		m := ifaceMethod(w, pPersist, im.iface, im.meth)
		if m == nil {
			r.Undecided(rule, pPersist+"."+im.iface+"."+im.meth, "", "interface method not found")
			return
		}
		for _, f := range w.implementations(m) {
			if !w.isProd(f) || f.Synthetic != "" {
				continue
			}
			if im.meth != "Init" {
				implNames[funcName(f)] = im.meth
				writeEntry[funcName(f)] = true
			}
			tbl := setRoots // write roots: Set and WriteOps (a closure built in WriteOps counts as part of it)
			if im.meth == "Init" {
				tbl = initRoots
			}
			if tbl[pkgPathOf(f)] == nil {
				tbl[pkgPathOf(f)] = map[*ssa.Function]bool{}
			}
			tbl[pkgPathOf(f)][f] = true
		}
	}
	if len(setRoots[pInmem]) == 0 || len(setRoots[pSQL]) == 0 || len(initRoots[pSQL]) == 0 {
		r.Undecided(rule, "storage implementations", "", "could not find the stores' Set/Init implementations")
		return
	}
	var ckField *types.Var
	if st := storeType(w, "inmemory"); st != nil {
		if mf := memMapField(mk("preset", "inmemory", 0, st)); mf != nil {
			ckField = structFieldVar(st, mf.Name)
			if len(mf.Args) == 1 && mf.Args[0].Kind == "field" && mf.Args[0].Typ != nil {
				ckField = structFieldVar(mf.Args[0].Typ, mf.Name) // the map inside a helper structure of the store
			}
		}
	}
	if ckField == nil {
		r.Undecided(rule, "in-memory store | checkpoint map", "", "field not found")
	}
	for _, fn := range w.prodFns() {
		for _, b := range fn.Blocks {
			for _, in := range b.Instrs {
				mc, ok := in.(*ssa.MakeClosure)
				if !ok {
					continue
				}
				f := mc.Fn.(*ssa.Function)
				if !strings.HasSuffix(f.Name(), "$bound") {
					continue
				}
				if obj, ok := f.Object().(*types.Func); ok && writeEntry[obj.FullName()] {
					r.Fail(rule, short(obj.FullName())+" | not taken as a method value", w.pos(in.Pos()), "a write entry point is turned into a function value in "+short(fn.String())+": calls through it are invisible to the sole-writer rule")
				}
			}
		}
	}
	for _, fn := range w.prodFns() {
		host := outermost(fn)
		for _, b := range fn.Blocks {
			for _, in := range b.Instrs {
				var cc *ssa.CallCommon
				switch x := in.(type) {
				case *ssa.Call:
					cc = &x.Call
				case *ssa.Defer:
					cc = &x.Call
				case *ssa.Go:
					cc = &x.Call
				case *ssa.MapUpdate:
					if mf, base := mapFieldOf(x.Map); mf != nil && sameFieldVar(mf, ckField) {
						nMap++
						key := "in-memory checkpoints map | updated only by the compare-and-set"
						ok := w.onlyReachableFrom(fn, setRoots[pInmem]) || baseIsLocalAlloc(base)
						r.Check(ok, rule, key, w.pos(x.Pos()), "the in-memory checkpoint map is written in "+short(fn.String())+", which is reachable otherwise than through the store's WriteOps/Set")
					}
					continue
				default:
					continue
				}
				name := ""
				if cc.IsInvoke() {
					name = canonPersistenceMethod(w, cc.Method)
					// a query interface of the store's own (satisfied only by *sql.DB / *sql.Tx, directly or through an adapter)
					if n := ssaCallName(cc); isSQLQuery(n) {
						name = n
					} else if isE, _ := isSQLExec(n); isE {
						name = n
					}
				} else if sc := cc.StaticCallee(); sc != nil {
					name = funcName(sc)
				} else if bi, ok := cc.Value.(*ssa.Builtin); ok && bi.Name() == "delete" {
					if mf, _ := mapFieldOf(cc.Args[0]); mf != nil && sameFieldVar(mf, ckField) {
						r.Fail(rule, "in-memory checkpoints map | no deletion", w.pos(in.Pos()), "an entry of the in-memory checkpoint map is deleted in "+short(fn.String()))
					}
					continue
				}
				switch name {
				case cWriteOps, cSet:
					if name == cSet {
						nSet++
					} else {
						nWrite++
					}
					key := short(name) + " | invoked only from Update"
					// a store that wraps another one: its own implementation of the same interface method hands the call on;
					// whoever invokes the wrapper does so through the interface and is subject to this rule
					if meth := implNames[funcName(host)]; (meth == "Set" && name == cSet) || (meth == "WriteOps" && name == cWriteOps) {
						r.Pass(rule, key+" | delegation inside an implementation of the same method", w.pos(in.Pos()), "")
						continue
					}
					r.Check(w.onlyReachableFrom(fn, map[*ssa.Function]bool{updFn: true}), rule, key, w.pos(in.Pos()), short(name)+" is invoked from "+short(fn.String())+", which is reachable from outside Update; only Update (and helpers private to it) may open a write operation or store a checkpoint")
				}
				if what, ok := implNames[name]; ok && w.fn(name) != nil && pkgPathOf(fn) != pkgPathOf(w.fn(name)) {
					r.Fail(rule, short(name)+" | not called directly from outside its package", w.pos(in.Pos()), "storage implementation method "+what+" is called directly from "+short(fn.String()))
				}
				if isExec, onTx := isSQLExec(name); isExec {
					nExec++
					key := "SQL exec in " + short(funcName(host))
					args := cc.Args
					if !cc.IsInvoke() && cc.StaticCallee() != nil && cc.StaticCallee().Signature.Recv() != nil {
						args = args[1:]
					}
					var text string
					okc := false
					for _, a0 := range args {
						if t, ok := sqlTextSSA(w, fn, a0, 0); ok {
							text, okc = t, true
							break
						}
					}
					if !okc {
						r.Undecided(rule, key, w.pos(in.Pos()), "SQL statement text is not a constant; cannot classify")
						continue
					}
					st := parseSQL(text)
					switch {
					case st.err != "" && !sqlMutating[st.verb]:
						r.Undecided(rule, key, w.pos(in.Pos()), "SQL tokenizer: "+st.err)
					case sqlMutating[st.verb]:
						ok := onTx && w.onlyReachableFrom(fn, setRoots[pSQL])
						r.Check(ok, rule, key+" | mutating statement only in writer.Set on the transaction", w.pos(in.Pos()), fmt.Sprintf("mutating SQL statement (%s) executed in %s (on transaction: %v); only writer.Set may mutate, and only inside the transaction", st.verb, short(fn.String()), onTx))
					case st.verb == "CREATE":
						ok := st.ifNotExists && w.onlyReachableFrom(fn, initRoots[pSQL])
						r.Check(ok, rule, key+" | idempotent DDL only in Init", w.pos(in.Pos()), "CREATE statement outside Init or without IF NOT EXISTS")
					default:
						r.Undecided(rule, key, w.pos(in.Pos()), "unclassified SQL verb "+st.verb)
					}
				}
			}
		}
	}
	if nWrite == 0 || nSet == 0 || nMap == 0 || nExec < 2 {
		r.Undecided(rule, "sole-writer anchors", "", fmt.Sprintf("vacuity floor: WriteOps sites=%d Set sites=%d map updates=%d SQL exec sites=%d", nWrite, nSet, nMap, nExec))
	}
	r.sites += nWrite + nSet + nMap + nExec
}

// upsertReplacesValue: ON CONFLICT … DO UPDATE sets the value column (second column written) from the new row
// (excluded.<col>) or from a placeholder.
func upsertReplacesValue(u sqlStmt) bool {
	if u.conflictNothing || len(u.cols) < 2 {
		return false
	}
	for _, a := range u.conflictSet {
		if strings.EqualFold(a[0], u.cols[1]) {
			rhs := strings.ToLower(a[1])
			return rhs == "?" || rhs == "excluded."+strings.ToLower(u.cols[1])
		}
	}
	return false
}

// ---------------------------------------------------------------- SQL tokenizer (constant statements of this repository)

type sqlStmt struct {
	verb            string
	orReplace       bool
	onConflict      bool
	conflictNothing bool
	conflictSet     [][2]string // ON CONFLICT … DO UPDATE SET column = value
	ifNotExists     bool
	table           string
	cols            []string // INSERT column list / SELECT projection / CREATE columns
	pk              string   // CREATE: primary key column
	pkCollate       string   // CREATE: COLLATE clause of the primary key column ("" = the default, BINARY)
	whereCol        string
	wherePH         bool
	values          int // number of placeholders in VALUES
	multi           bool
	err             string
}

func sqlTokens(s string) []string {
	var toks []string
	i := 0
	for i < len(s) {
		c := s[i]
		switch {
		case c == ' ' || c == '\t' || c == '\n' || c == '\r':
			i++
		case c == '(' || c == ')' || c == ',' || c == ';' || c == '=' || c == '?' || c == '*':
			toks = append(toks, string(c))
			i++
		case c == '\'' || c == '"' || c == '`':
			j := i + 1
			for j < len(s) && s[j] != c {
				j++
			}
			toks = append(toks, s[i:min(j+1, len(s))])
			i = j + 1
		case c == '-' && i+1 < len(s) && s[i+1] == '-':
			for i < len(s) && s[i] != '\n' {
				i++
			}
		default:
			j := i
			for j < len(s) && !strings.ContainsRune(" \t\n\r(),;=?*'\"`", rune(s[j])) {
				j++
			}
			toks = append(toks, s[i:j])
			i = j
		}
	}
	return toks
}

func parseSQL(text string) sqlStmt {
	t := sqlTokens(text)
	st := sqlStmt{}
	if len(t) == 0 {
		st.err = "empty statement"
		return st
	}
	up := func(i int) string {
		if i < len(t) {
			return strings.ToUpper(t[i])
		}
		return ""
	}
	// more than one statement?
	for i, tk := range t {
		if tk == ";" && i != len(t)-1 {
			st.multi = true
		}
	}
	st.verb = up(0)
	i := 1
	list := func() []string {
		var out []string
		if i < len(t) && t[i] == "(" {
			i++
			depth := 1
			first := true
			for i < len(t) && depth > 0 {
				switch t[i] {
				case "(":
					depth++
				case ")":
					depth--
				case ",":
					first = true
				default:
					if first && depth == 1 {
						out = append(out, t[i])
						first = false
					}
				}
				i++
			}
		}
		return out
	}
	switch st.verb {
	case "INSERT", "REPLACE":
		if up(i) == "OR" {
			if up(i+1) == "REPLACE" {
				st.orReplace = true
			}
			i += 2
		}
		if st.verb == "REPLACE" {
			st.orReplace = true
		}
		if up(i) != "INTO" {
			st.err = "expected INTO"
			return st
		}
		i++
		st.table = t[i]
		i++
		st.cols = list()
		if up(i) != "VALUES" {
			st.err = "expected VALUES"
			return st
		}
		i++
		vals := list()
		for _, v := range vals {
			if v == "?" {
				st.values++
			} else {
				st.err = "non-placeholder value " + v
			}
		}
		for ; i < len(t); i++ {
			if up(i) == "ON" && up(i+1) == "CONFLICT" {
				st.onConflict = true
				// ON CONFLICT [(col)] DO UPDATE SET c = excluded.c | ? [, …]: what each column is set to
				for j := i + 2; j < len(t); j++ {
					if up(j) == "DO" && up(j+1) == "NOTHING" {
						st.conflictNothing = true
					}
					if up(j) == "SET" {
						for k := j + 1; k+2 < len(t); k++ {
							if t[k+1] == "=" {
								rhs := t[k+2]
								if k+4 < len(t) && t[k+3] == "." {
									rhs = t[k+2] + "." + t[k+4]
								}
								st.conflictSet = append(st.conflictSet, [2]string{t[k], rhs})
							}
						}
					}
				}
			}
		}
	case "SELECT":
		for i < len(t) && up(i) != "FROM" {
			if t[i] != "," {
				st.cols = append(st.cols, t[i])
			}
			i++
		}
		i++
		if i < len(t) {
			st.table = t[i]
			i++
		}
		if up(i) == "WHERE" {
			if i+3 < len(t) && t[i+2] == "=" {
				st.whereCol = t[i+1]
				st.wherePH = t[i+3] == "?"
				i += 4
			} else {
				st.err = "WHERE clause shape not understood"
			}
		}
		for ; i < len(t); i++ {
			if t[i] != ";" {
				st.err = "trailing tokens after SELECT: " + t[i]
			}
		}
	case "CREATE":
		if up(i) != "TABLE" {
			st.err = "only CREATE TABLE is understood"
			return st
		}
		i++
		if up(i) == "IF" && up(i+1) == "NOT" && up(i+2) == "EXISTS" {
			st.ifNotExists = true
			i += 3
		}
		st.table = t[i]
		i++
		// column definitions
		if i < len(t) && t[i] == "(" {
			i++
			var def []string
			flush := func() {
				if len(def) > 0 {
					st.cols = append(st.cols, def[0])
					for k := 0; k+1 < len(def); k++ {
						if strings.ToUpper(def[k]) == "PRIMARY" && strings.ToUpper(def[k+1]) == "KEY" {
							st.pk = def[0]
							for j := 0; j+1 < len(def); j++ {
								if strings.ToUpper(def[j]) == "COLLATE" {
									st.pkCollate = strings.ToUpper(def[j+1])
								}
							}
						}
					}
				}
				def = nil
			}
			depth := 1
			for i < len(t) && depth > 0 {
				switch t[i] {
				case "(":
					depth++
				case ")":
					depth--
					if depth == 0 {
						flush()
					}
				case ",":
					if depth == 1 {
						flush()
					}
				default:
					def = append(def, t[i])
				}
				i++
			}
		}
	default:
		// other verbs are only classified
	}
	return st
}

type sqlSite struct {
	fn   *ssa.Function
	name string // callee
	text string
	st   sqlStmt
	pos  string
}

// sqlSites lists every constant SQL statement passed to database/sql in production code.
func sqlSites(w *World) []sqlSite {
	var out []sqlSite
	for _, fn := range w.prodFns() {
		for _, b := range fn.Blocks {
			for _, in := range b.Instrs {
				call, ok := in.(*ssa.Call)
				if !ok {
					continue
				}
				var name string
				args := call.Call.Args
				if sc := call.Call.StaticCallee(); sc != nil {
					name = funcName(sc)
					if sc.Signature.Recv() != nil && len(args) > 0 {
						args = args[1:]
					}
				} else {
					// interface method (a local query interface satisfied by *sql.DB/*sql.Tx) or a function value
					name = "dyn"
					if call.Call.IsInvoke() {
						if n := ssaCallName(&call.Call); isSQLQuery(n) {
							name = n
						} else if isE, _ := isSQLExec(n); isE {
							name = n
						}
					}
				}
				isE, _ := isSQLExec(name)
				if !(isE || isSQLQuery(name) || name == "dyn") {
					continue
				}
				for _, a0 := range args {
					if t, ok := sqlTextSSA(w, fn, a0, 0); ok {
						if name == "dyn" {
							up := strings.ToUpper(strings.TrimSpace(t))
							if !(strings.HasPrefix(up, "SELECT ") || strings.HasPrefix(up, "INSERT ") || strings.HasPrefix(up, "UPDATE ") || strings.HasPrefix(up, "DELETE ") || strings.HasPrefix(up, "CREATE ")) {
								break
							}
						}
						out = append(out, sqlSite{fn, name, t, parseSQL(t), w.pos(call.Pos())})
						break
					}
				}
			}
		}
	}
	return out
}

// ---------------------------------------------------------------- C03.c STORAGE-REFUSAL, C06.a/b, C05.e

// C06.b ONE-STATEMENT-IN-TX and writer/reader table agreement
func ruleOneStatement(w *World, r *Run, rule string) {
	var create, upsert, sel, list *sqlSite
	sites := sqlSites(w)
	for i := range sites {
		s := &sites[i]
		if s.st.err != "" {
			r.Undecided(rule, "SQL statement in "+short(funcName(outermost(s.fn))), s.pos, "SQL tokenizer: "+s.st.err+": "+s.text)
			continue
		}
		switch {
		case s.st.verb == "CREATE":
			create = s
		case s.st.verb == "INSERT" || s.st.verb == "REPLACE":
			if upsert != nil {
				r.Fail(rule, "SQL constants | one writing statement", s.pos, "more than one INSERT/REPLACE statement in the SQL store")
			}
			upsert = s
		case s.st.verb == "SELECT" && s.st.whereCol != "":
			sel = s
		case s.st.verb == "SELECT":
			list = s
		}
	}
	r.sites += len(sites)
	if create == nil || upsert == nil || sel == nil || list == nil {
		r.Undecided(rule, "SQL constants", "", fmt.Sprintf("could not find all four statements (create=%v upsert=%v select-one=%v select-keys=%v)", create != nil, upsert != nil, sel != nil, list != nil))
		return
	}
	key := "writer.Set statement | single upsert keyed by the primary key"
	u := upsert.st
	switch {
	case u.multi:
		r.Fail(rule, key, upsert.pos, "more than one statement in the text executed by Set")
	case !(u.orReplace || u.onConflict):
		r.Fail(rule, key, upsert.pos, "the statement is a plain INSERT: the second update of a log would fail or, without a key, append a row")
	case len(u.cols) != u.values || len(u.cols) < 2:
		r.Fail(rule, key, upsert.pos, "column list and placeholders disagree")
	case u.onConflict && !u.orReplace && !upsertReplacesValue(u):
		r.Fail(rule, key, upsert.pos, fmt.Sprintf("on a conflict the statement does not replace the stored checkpoint with the new one (DO NOTHING, or SET %v without taking column %s from the new row): the first write for a log sticks and every later Set commits without changing anything", u.conflictSet, u.cols[1]))
	case create.st.pk == "" || !strings.EqualFold(u.cols[0], create.st.pk):
		r.Fail(rule, key, upsert.pos, fmt.Sprintf("first column written (%s) is not the table's PRIMARY KEY column (%s): REPLACE would not replace", u.cols[0], create.st.pk))
	case !strings.EqualFold(u.table, create.st.table) || !strings.EqualFold(sel.st.table, create.st.table) || !strings.EqualFold(list.st.table, create.st.table):
		r.Fail(rule, key, upsert.pos, "writer, readers and DDL name different tables")
	default:
		r.Pass(rule, key, upsert.pos, "")
	}
	// the key column compares byte for byte: log IDs are opaque, case-sensitive strings everywhere else (the witness's
	// map of logs, the in-memory store, the HTTP routes), so a collation that identifies different IDs files two logs
	// under one row
	r.Check(create.st.pkCollate == "" || create.st.pkCollate == "BINARY", rule, "CREATE TABLE | the key column compares log IDs byte for byte", create.pos, fmt.Sprintf("the primary key column %s is declared COLLATE %s: two log IDs that differ only in what that collation ignores share one row, so a checkpoint of one log is stored under and served for the other", create.st.pk, create.st.pkCollate))
	if len(u.cols) < 2 {
		return
	}
	key = "reader/writer column agreement"
	switch {
	case len(sel.st.cols) != 1 || !strings.EqualFold(sel.st.cols[0], u.cols[1]):
		r.Fail(rule, key, sel.pos, fmt.Sprintf("GetLatest projects %v but Set writes the checkpoint into column %s", sel.st.cols, u.cols[1]))
	case !strings.EqualFold(sel.st.whereCol, u.cols[0]) || !sel.st.wherePH:
		r.Fail(rule, key, sel.pos, fmt.Sprintf("GetLatest selects by %s but Set keys rows by %s", sel.st.whereCol, u.cols[0]))
	case len(list.st.cols) != 1 || !strings.EqualFold(list.st.cols[0], u.cols[0]):
		r.Fail(rule, key, list.pos, fmt.Sprintf("Logs() lists column %v, not the key column %s", list.st.cols, u.cols[0]))
	default:
		r.Pass(rule, key, sel.pos, "")
	}
	// binding of arguments (first placeholder <- the request's log ID, second <- the cosigned bytes): on Update ∘ sql
	ruleComposedSQL(w, r, rule)
}

// C04.d READ-VERBATIM
func ruleReadVerbatim(w *World, r *Run, rule string) {
	sums, _, ok := explore(w, r, rule, fnGetCheckpoint, 4, 1)
	if !ok {
		return
	}
	fn := w.fn(fnGetCheckpoint)
	lsp := fieldByType(recvParam(fn), "persistence.LogStatePersistence")
	logID := paramN(fn, 0)
	nOK := 0
	for _, s := range sums {
		if len(s.Rets) != 2 {
			continue
		}
		ro := calls(s, cReadOps)
		gl := calls(s, cGetLatest)
		// `return read.GetLatest()`: both results of the store's read handed on as they are (success and failure alike)
		if len(ro) == 1 && ro[0].Recv == lsp && len(ro[0].Args) == 1 && ro[0].Args[0] == logID && okBefore(s, ro[0], 0) &&
			len(gl) == 1 && gl[0].Recv == res(ro[0], 0) && s.Rets[0] == res(gl[0], 0) && s.Rets[1] == errRes(gl[0]) {
			nOK++
			r.Pass(rule, fnGetCheckpoint+" | returns ReadOps(logID).GetLatest() unchanged", w.pos(s.RetPos), "")
			continue
		}
		if s.Rets[1].Kind == "nil" {
			good := len(ro) == 1 && ro[0].Recv == lsp && len(ro[0].Args) == 1 && ro[0].Args[0] == logID && okBefore(s, ro[0], 0) &&
				len(gl) == 1 && gl[0].Recv == res(ro[0], 0) && okBefore(s, gl[0], 0) && s.Rets[0] == res(gl[0], 0)
			if good {
				nOK++
			}
			r.Check(good, rule, fnGetCheckpoint+" | returns ReadOps(logID).GetLatest() unchanged", w.pos(s.RetPos), "GetCheckpoint's success value is "+short(s.Rets[0].String())+", not the bytes read from the store for the requested log ID")
		} else {
			// errors are passed through so that NotFound survives to the HTTP layer / adapter
			if len(gl) == 1 && failed(s, gl[0]) {
				r.Check(s.Rets[1] == errRes(gl[0]) && s.Rets[0].Kind == "nil", rule, fnGetCheckpoint+" | store error passed through", w.pos(s.RetPos), "GetLatest's error is not returned as is (a NotFound status would be lost)")
			}
		}
		for _, ev := range s.Events {
			if ev.Kind == "call" && (ev.Callee == cWriteOps || ev.Callee == cSet) {
				r.Fail(rule, fnGetCheckpoint+" | read-only", w.pos(ev.Pos), "GetCheckpoint opens a write operation")
			}
		}
	}
	if nOK == 0 {
		r.Undecided(rule, fnGetCheckpoint, "", "no success path recognised")
	}
}

// ---------------------------------------------------------------- C07.c (storage layer), C07.d, C07.e

// C07.e ADAPTER
func ruleAdapter(w *World, r *Run, rule string) {
	name, un := adapterMethods(w)
	if name == "" || un == "" {
		r.Undecided(rule, pOmni+" | adapter between the witness and feeder.Witness", "", "no type of the package implements feeder.Witness")
		return
	}
	sums, _, ok := exploreOpaque(w, r, rule, name, 4, 1, fnGetCheckpoint, fnUpdate)
	if !ok {
		return
	}
	notExist := mk("global", "os.ErrNotExist", 0, nil)
	nMap := 0
	for _, s := range sums {
		gc := calls(s, fnGetCheckpoint)
		if len(gc) != 1 || len(s.Rets) != 2 {
			r.Undecided(rule, name, w.pos(s.RetPos), "adapter does not call GetCheckpoint exactly once")
			continue
		}
		e := errRes(gc[0])
		key := name + " | os.ErrNotExist only under NotFound"
		k, isNil, _ := nilFact(s, e)
		kn, isNF, _ := notFoundFact(w, s, e)
		switch {
		case s.Rets[1] == notExist || (s.Rets[1].Kind == "global" && s.Rets[1].Name == "os.ErrNotExist"):
			nMap++
			// an affirmative NotFound status implies a non-nil error (status.Code(nil) is OK)
			r.Check(kn && isNF && s.Rets[0].Kind == "nil" && !(k && isNil), rule, key, w.pos(s.RetPos), "the adapter reports 'no checkpoint yet' on a path that did not establish a NotFound status: a storage failure would make the feeder start from scratch")
		case k && !isNil:
			r.Check(s.Rets[1] == e, rule, name+" | other errors passed through", w.pos(s.RetPos), "a failing read is not reported with its original error")
		case k && isNil:
			r.Check(s.Rets[0] == res(gc[0], 0) && (s.Rets[1] == e || s.Rets[1].Kind == "nil"), rule, name+" | success passes the bytes through", w.pos(s.RetPos), "adapter alters the checkpoint bytes")
		case s.Rets[0] == res(gc[0], 0) && s.Rets[1] == e:
			// both results handed on unchanged (after the NotFound test said no)
			r.Pass(rule, name+" | results passed through", w.pos(s.RetPos), "")
		default:
			r.Fail(rule, name+" | error checked", w.pos(s.RetPos), "adapter returns without examining GetCheckpoint's error")
		}
	}
	if nMap == 0 {
		r.Fail(rule, name+" | NotFound mapped", "", "no path maps NotFound to os.ErrNotExist: the feeder could never make its first submission")
	}
	// adapter Update passes through unchanged
	if sums, _, ok := exploreOpaque(w, r, rule, un, 4, 1, fnGetCheckpoint, fnUpdate); ok {
		fn := w.fn(un)
		for _, s := range sums {
			uc := calls(s, fnUpdate)
			good := len(uc) == 1 && len(uc[0].Args) == 5 && len(s.Rets) == 2 && s.Rets[0] == res(uc[0], 0) && s.Rets[1] == res(uc[0], 1)
			if good {
				for i := 0; i < 5; i++ {
					if uc[0].Args[i] != paramN(fn, i) {
						good = false
					}
				}
			}
			r.Check(good, rule, un+" | passes arguments and results through", w.pos(s.RetPos), "adapter Update alters arguments or results")
		}
	}
}

// ---------------------------------------------------------------- C05.b LOCKSET, C05.c CAS, C05.d SNAPSHOT-PAIRING

func ast_IsExported(n string) bool { return n != "" && n[0] >= 'A' && n[0] <= 'Z' }

var snapshotEq = map[string]bool{"reflect.DeepEqual": true, "bytes.Equal": true}

// C05.f GLOBALS
func ruleGlobals(w *World, r *Run, rule string, pkgs []string) {
	inPkgs := map[string]bool{}
	for _, p := range pkgs {
		inPkgs[p] = true
	}
	n := 0
	for _, fn := range w.prodFns() {
		for _, b := range fn.Blocks {
			for _, in := range b.Instrs {
				st, ok := in.(*ssa.Store)
				if !ok {
					continue
				}
				g, ok := st.Addr.(*ssa.Global)
				if !ok || !inPkgs[g.Pkg.Pkg.Path()] || strings.HasPrefix(g.Name(), "init$") {
					continue
				}
				n++
				key := g.Pkg.Pkg.Path() + "." + g.Name() + " | assigned only at package init or inside sync.Once.Do"
				okInit := fn.Name() == "init" && fn.Synthetic != ""
				inOnce := w.inOnce(fn)
				r.Check(okInit || inOnce, rule, key, w.pos(st.Pos()), "package-level variable "+g.Name()+" is assigned in "+short(fn.String())+" (shared mutable state across requests/logs)")
			}
		}
	}
	if n == 0 {
		r.Undecided(rule, "globals", "", "no global assignments found (vacuous)")
	}
}

// C05.g NO-INPLACE-MUTATION: no store through a []byte that flows to Set or comes from GetLatest (Update and both stores).
func ruleNoInplace(w *World, r *Run, a *updAnalysis, rule string) {
	if !a.guard(r, rule) {
		return
	}
	bad := 0
	for _, v := range a.paths {
		for _, ev := range v.s.Events {
			if ev.Kind == "store" && ev.Recv != nil && ev.Recv.Kind == "indexaddr" {
				base := ev.Recv.Args[0]
				if (v.stored != nil && mentions(base, v.stored)) || mentions(base, a.pNext) || (base.Kind == "call" && base.Name == cSign) {
					bad++
					r.Fail(rule, a.key(v, "in-place write"), w.pos(ev.Pos), "bytes of a checkpoint are modified in place")
				}
			}
			if ev.Kind == "call" && ev.Callee == "builtin:copy" {
				bad++
				r.Fail(rule, a.key(v, "copy into checkpoint bytes"), w.pos(ev.Pos), "copy() used in Update")
			}
		}
	}
	if bad == 0 {
		r.Pass(rule, fnUpdate+" | no in-place mutation of checkpoint bytes", "", "")
	}
}

// adapterMethods: the omniwitness package's implementation of feeder.Witness (GetLatestCheckpoint, Update), whatever the
// adapter type is called and whether its methods have value or pointer receivers.
func adapterMethods(w *World) (getLatest, update string) {
	pick := func(meth string) string {
		m := ifaceMethod(w, pFeeder, "Witness", meth)
		if m == nil {
			return ""
		}
		var names []string
		for _, f := range w.implementations(m) {
			if pkgPathOf(f) == pOmni && f.Synthetic == "" && w.isProd(f) {
				names = append(names, funcName(f))
			}
		}
		names = uniqStrings(names)
		if len(names) == 0 {
			// the adapter lives elsewhere: the in-process implementation is the one that calls the witness's own methods
			// (the HTTP client and cmd/feedbastion's bastion client implement the interface too, over the network)
			for _, f := range w.implementations(m) {
				if f.Synthetic == "" && w.isProd(f) && !strings.Contains(pkgPathOf(f), "/cmd/") && callsNamed(f, fnUpdate, fnGetCheckpoint) {
					names = append(names, funcName(f))
				}
			}
			names = uniqStrings(names)
		}
		if len(names) != 1 {
			return ""
		}
		return names[0]
	}
	return pick("GetLatestCheckpoint"), pick("Update")
}

// canonPersistenceMethod names an invoked interface method after the persistence interface it narrows: a consumer-side
// interface whose methods are a subset of LogStateWriteOps / LogStatePersistence calls the same Set / WriteOps.
func canonPersistenceMethod(w *World, m *types.Func) string {
	recv := m.Type().(*types.Signature).Recv()
	if recv == nil {
		return m.FullName()
	}
	it, ok := recv.Type().Underlying().(*types.Interface)
	if !ok {
		return m.FullName()
	}
	for _, an := range []string{"LogStateWriteOps", "LogStatePersistence"} {
		o := w.lookup(pPersist, an)
		if o == nil {
			continue
		}
		if types.Identical(o.Type(), recv.Type()) {
			return m.FullName()
		}
		if (m.Name() == "Set" || m.Name() == "WriteOps") && types.Implements(o.Type(), it) {
			if am := ifaceMethod(w, pPersist, an, m.Name()); am != nil && types.Identical(am.Type().(*types.Signature).Params(), m.Type().(*types.Signature).Params()) {
				return am.FullName()
			}
		}
	}
	return m.FullName()
}

// sameFieldVar: the same structure field, also across instantiations of a generic structure.
func sameFieldVar(a, b *types.Var) bool {
	if a == nil || b == nil {
		return false
	}
	return a == b || a.Origin() == b.Origin()
}

package main

// C11: agreement between the writers and the readers of the two text formats.

import (
	"fmt"
	"strings"
)

const (
	fnBCUpdate  = "(*github.com/transparency-dev/witness/cmd/feedbastion.bastionClient).Update"
	fnMarshal   = "(" + pWitness + ".Proof).Marshal"
	fnUnmarshal = "(*" + pWitness + ".Proof).Unmarshal"
	cEncode     = "(*encoding/base64.Encoding).EncodeToString"
	cDecode     = "(*encoding/base64.Encoding).DecodeString"
)

// encodingObjects returns the distinct receiver terms of base64 encode/decode calls on all paths.
// every way of encoding / decoding with an encoding object
var encodeMethods = []string{cEncode, "(*encoding/base64.Encoding).AppendEncode", "(*encoding/base64.Encoding).Encode"}
var decodeMethods = []string{cDecode, "(*encoding/base64.Encoding).AppendDecode", "(*encoding/base64.Encoding).Decode"}

func encodingObjects(sums []Summary, callee string) map[string]bool {
	out := map[string]bool{}
	names := []string{callee}
	if callee == cEncode {
		names = encodeMethods
	} else if callee == cDecode {
		names = decodeMethods
	}
	for _, s := range sums {
		for _, c := range calls(s, names...) {
			if c.Recv != nil {
				out[c.Recv.String()] = true
			}
		}
	}
	return out
}

func keysOf(m map[string]bool) string {
	var ks []string
	for k := range m {
		ks = append(ks, short(k))
	}
	return strings.Join(uniqStrings(ks), ",")
}

// readerSizePrefix extracts the literal prefix parseBody requires on the size line.
func readerSizePrefix(sums []Summary) (string, bool) {
	for _, s := range sums {
		for _, c := range calls(s, "strings.CutPrefix", "strings.HasPrefix", "strings.TrimPrefix", "bytes.CutPrefix", "bytes.HasPrefix", "bytes.TrimPrefix") {
			if len(c.Args) == 2 {
				if p, ok := constInt(c.Args[1]); ok && strings.HasPrefix(p, "\"") {
					return unquote(p), true
				}
				if p, ok := constStr(c.Args[1]); ok && p != "" { // []byte("old ")
					return p, true
				}
			}
		}
		for _, c := range calls(s, "fmt.Sscanf") {
			if len(c.Args) >= 2 {
				if p, ok := constInt(c.Args[1]); ok {
					f := unquote(p)
					if i := strings.Index(f, "%"); i >= 0 {
						return f[:i], true
					}
				}
			}
		}
	}
	return "", false
}

func unquote(s string) string {
	s = strings.TrimPrefix(s, "\"")
	s = strings.TrimSuffix(s, "\"")
	s = strings.ReplaceAll(s, "\\n", "\n")
	return s
}

// concatLeaves flattens a string concatenation term into its leaves (left to right).
func concatLeaves(t *Term) []*Term {
	if t.Kind == "binop" && t.Name == "+" {
		return append(concatLeaves(t.Args[0]), concatLeaves(t.Args[1])...)
	}
	return []*Term{t}
}

func ruleCodecAgreement(w *World, r *Run, rule string) {
	// ---- request body: cmd/feedbastion writer vs bastion.parseBody reader
	wr, _, ok1 := explore(w, r, rule, fnBCUpdate, 4, 2)
	rd, _, ok2 := explore(w, r, rule, fnParseBody, 4, 2)
	if ok1 && ok2 {
		we, de := encodingObjects(wr, cEncode), encodingObjects(rd, cDecode)
		key := "add-checkpoint body | writer and reader use the same base64 alphabet"
		r.Check(len(we) == 1 && len(de) == 1 && keysOf(we) == keysOf(de), rule, key, w.pos(w.fn(fnParseBody).Pos()), "writer encodes proof lines with {"+keysOf(we)+"} but the reader decodes with {"+keysOf(de)+"}")
		// the body handed to the HTTP client on the path with one proof element
		prefix, okp := readerSizePrefix(rd)
		if !okp {
			r.Undecided(rule, fnParseBody+" | size-line prefix", "", "could not extract the literal prefix the reader requires")
		}
		checked := 0
		for _, s := range wr {
			var body *Term
			for _, c := range calls(s, "bytes.NewReader", "strings.NewReader", "bytes.NewBufferString", "bytes.NewBuffer") {
				body = c.Args[0]
			}
			var leaves []*Term
			// (a) the body is a string concatenation
			if body != nil {
				for body.Kind == "conv" {
					body = body.Args[0]
				}
				leaves = concatLeaves(body)
			}
			// (b) the body is assembled in a bytes.Buffer / strings.Builder: the ordered writes are the leaves
			if len(leaves) < 3 {
				var buf *Term
				// (a body that is sb.String() / buf.Bytes() is read as a template below: the builder's writes in order)
				viaTemplate := body != nil && body.Kind == "call" && (strings.HasSuffix(body.Name, ".Bytes") || strings.HasSuffix(body.Name, ".String"))
				for _, p := range calls(s, "(*net/http.Client).Post", "net/http.NewRequest", "net/http.NewRequestWithContext") {
					for _, a0 := range p.Args {
						if a0 != nil && a0.Kind == "alloc" && strings.Contains(typeStr(a0.Typ), "Buffer") {
							buf = a0
						}
					}
				}
				if buf != nil && !viaTemplate {
					leaves = nil
					for _, ev := range s.Events {
						if ev.Kind != "call" || ev.Recv != buf {
							continue
						}
						switch {
						case strings.HasSuffix(ev.Callee, ".WriteString"), strings.HasSuffix(ev.Callee, ".Write"):
							x := ev.Args[0]
							leaves = append(leaves, concatLeaves(x)...)
						case strings.HasSuffix(ev.Callee, ".WriteByte"), strings.HasSuffix(ev.Callee, ".WriteRune"):
							if c, ok := constVal(ev.Args[0]); ok && c.IsInt64() {
								leaves = append(leaves, mk("const", "\""+strings.ReplaceAll(string(rune(c.Int64())), "\n", "\\n")+"\"", 0, nil))
							} else {
								leaves = append(leaves, ev.Args[0])
							}
						}
					}
					body = buf
				}
			}
			if len(leaves) < 3 {
				// (c) the body as a string template (append chains, AppendEncode, strconv.Append*): "<prefix><dec>\n" (enc "\n")* "\n" cp
				if body != nil {
					pieceCtx = &s
					pcs := mergeLits(strPieces(body))
					pieceCtx = nil
					if len(pcs) >= 2 && pcs[0].k == "lit" && strings.HasPrefix(pcs[0].lit, prefix) && okp {
						// header: "<prefix><decimal>\n", the decimal either rendered from a value or written out
						var rest []piece
						hdrOK := false
						if pcs[0].lit == prefix && len(pcs) >= 3 && pcs[1].k == "dec" && pcs[2].k == "lit" && strings.HasPrefix(pcs[2].lit, "\n") {
							hdrOK = true
							if tail := pcs[2].lit[1:]; tail != "" {
								rest = append(rest, piece{k: "lit", lit: tail})
							}
							rest = append(rest, pcs[3:]...)
						} else {
							digits := strings.TrimPrefix(pcs[0].lit, prefix)
							n := 0
							for n < len(digits) && digits[n] >= '0' && digits[n] <= '9' {
								n++
							}
							if n > 0 && n < len(digits) && digits[n] == '\n' {
								hdrOK = true
								if tail := digits[n+1:]; tail != "" {
									rest = append(rest, piece{k: "lit", lit: tail})
								}
								rest = append(rest, pcs[1:]...)
							}
						}
						checked++
						r.Check(hdrOK, rule, "add-checkpoint body | writer's size line carries the prefix the reader requires", w.pos(s.RetPos), fmt.Sprintf("writer starts the body with %q but the reader requires the prefix %q followed by a decimal and a newline", pcs[0].lit, prefix))
						if !hdrOK || len(rest) == 0 {
							continue
						}
						newCP := paramN(w.fn(fnBCUpdate), 3)
						last := rest[len(rest)-1]
						lt := last.t
						for lt != nil && lt.Kind == "conv" && len(lt.Args) == 1 {
							lt = lt.Args[0]
						}
						okShape := last.k == "str" && lt == newCP
						pat := ""
						for _, pc := range rest[:len(rest)-1] {
							switch {
							case pc.k == "lit":
								pat += pc.lit
							case pc.k == "str" && pc.t != nil && pc.t.Kind == "call" && isEncodeCall(pc.t.Name):
								pat += "E"
							default:
								pat += "?"
							}
						}
						// (encoded line "\n")* then the blank line
						for strings.HasPrefix(pat, "E\n") {
							pat = pat[2:]
						}
						if pat != "\n" {
							okShape = false
						}
						r.Check(okShape, rule, "add-checkpoint body | writer emits proof lines, a blank line, then the checkpoint verbatim", w.pos(s.RetPos), "writer's body is "+piecesString(pcs))
					}
				}
				continue
			}
			checked++
			first, _ := constInt(leaves[0])
			f := unquote(first)
			good := okp && strings.HasPrefix(f, prefix) && strings.HasSuffix(f, "\n") && isDecimal(strings.TrimSuffix(strings.TrimPrefix(f, prefix), "\n"))
			r.Check(good, rule, "add-checkpoint body | writer's size line carries the prefix the reader requires", w.pos(s.RetPos), fmt.Sprintf("writer starts the body with %q but the reader requires the prefix %q followed by a decimal and a newline", f, prefix))
			// structure: (encoded + "\n")* "\n" checkpoint
			last := leaves[len(leaves)-1]
			newCP := paramN(w.fn(fnBCUpdate), 3)
			okTail := last == newCP || (last.Kind == "conv" && last.Args[0] == newCP)
			sep, _ := constInt(leaves[len(leaves)-2])
			okTail = okTail && unquote(sep) == "\n"
			mid := leaves[1 : len(leaves)-2]
			okMid := len(mid)%2 == 0
			for i := 0; i+1 < len(mid); i += 2 {
				nl, _ := constInt(mid[i+1])
				if !(mid[i].Kind == "call" && mid[i].Name == cEncode && unquote(nl) == "\n") {
					okMid = false
				}
			}
			r.Check(okTail && okMid, rule, "add-checkpoint body | writer emits proof lines, a blank line, then the checkpoint verbatim", w.pos(s.RetPos), "writer's body is "+short(body.String()))
		}
		if checked == 0 {
			r.Undecided(rule, fnBCUpdate, "", "could not find the body the writer sends")
		}
	}
	// ---- proof text format: Marshal vs Unmarshal
	ms, _, ok3 := explore(w, r, rule, fnMarshal, 4, 2)
	us, _, ok4 := explore(w, r, rule, fnUnmarshal, 4, 2)
	if ok3 && ok4 {
		we, de := encodingObjects(ms, cEncode), encodingObjects(us, cDecode)
		r.Check(len(we) == 1 && len(de) == 1 && keysOf(we) == keysOf(de), rule, "proof text | Marshal and Unmarshal use the same base64 alphabet", w.pos(w.fn(fnUnmarshal).Pos()), "Marshal encodes with {"+keysOf(we)+"}, Unmarshal decodes with {"+keysOf(de)+"}")
		// terminator: Marshal writes '\n' after each element; Unmarshal requires/splits on the same
		term := map[string]bool{}
		for _, s := range ms {
			for _, c := range calls(s, "(*strings.Builder).WriteRune", "(*strings.Builder).WriteByte") {
				if v, ok := constInt(c.Args[0]); ok {
					term[v] = true
				}
			}
			for _, c := range calls(s, "(*strings.Builder).WriteString") {
				if v, ok := constInt(c.Args[0]); ok {
					term[fmt.Sprint([]byte(unquote(v)))] = true
				}
			}
		}
		if term["[10]"] {
			// WriteString("\n") and WriteRune('\n') write the same byte
			delete(term, "[10]")
			term["10"] = true
		}
		delim := map[string]bool{}
		for _, s := range us {
			for _, c := range calls(s, "strings.Split", "strings.HasSuffix", "strings.SplitAfter", "strings.TrimSuffix") {
				if v, ok := constInt(c.Args[1]); ok {
					delim[unquote(v)] = true
				}
			}
		}
		// the writer may also build its output by appending: the terminator is the literal after the encoded element in the
		// template of a one-element list
		if len(term) == 0 {
			for i := range ms {
				if ms[i].Panic || len(ms[i].Rets) != 1 {
					continue
				}
				pieceCtx = &ms[i]
				pcs := mergeLits(strPieces(ms[i].Rets[0]))
				pieceCtx = nil
				if len(pcs) == 2 && pcs[0].k == "str" && pcs[1].k == "lit" {
					term[fmt.Sprint([]byte(pcs[1].lit))] = true
				}
			}
			if term["[10]"] {
				delete(term, "[10]")
				term["10"] = true
			}
		}
		for _, s := range us {
			for _, c := range calls(s, "bytes.Split", "bytes.HasSuffix", "bytes.SplitAfter", "bytes.TrimSuffix", "bytes.Cut", "strings.Cut", "bytes.IndexByte", "bytes.Index", "strings.Index", "strings.IndexByte", "bytes.Count") {
				if len(c.Args) < 2 {
					continue
				}
				if v, ok := constStr(c.Args[1]); ok {
					delim[v] = true
				} else if cv, ok := constVal(c.Args[1]); ok && cv.IsInt64() {
					delim[string(rune(cv.Int64()))] = true
				}
			}
		}
		good := len(term) == 1 && term["10"] && (len(delim) == 0 || (len(delim) == 1 && delim["\n"]))
		r.Check(good, rule, "proof text | Marshal's line terminator is Unmarshal's delimiter", w.pos(w.fn(fnMarshal).Pos()), fmt.Sprintf("Marshal terminates lines with %v, Unmarshal splits on %q", term, keysOf(delim)))
		// order preserving: element i is decoded from line i
		for _, s := range us {
			for _, ev := range eventsOfKind(s, "store") {
				_ = ev
			}
		}
	}
}

func isEncodeCall(name string) bool {
	for _, m := range encodeMethods {
		if name == m {
			return true
		}
	}
	return false
}

func isDecimal(s string) bool {
	if s == "" {
		return false
	}
	for _, c := range s {
		if c < '0' || c > '9' {
			return false
		}
	}
	return true
}

// C11.b (Unmarshal half): *p assigned only on the success path
func ruleUnmarshalTotal(w *World, r *Run, rule string) {
	sums, _, ok := explore(w, r, rule, fnUnmarshal, 4, 2)
	if !ok {
		return
	}
	fn := w.fn(fnUnmarshal)
	p := recvParam(fn)
	nOK := 0
	for _, s := range sums {
		if len(s.Rets) != 1 {
			continue
		}
		stores := 0
		for _, ev := range eventsOfKind(s, "store") {
			if ev.Recv == p || mentions(ev.Recv, p) {
				stores++
			}
		}
		if s.Rets[0].Kind == "nil" {
			nOK++
			r.Check(stores == 1, rule, fnUnmarshal+" | success assigns the receiver once", w.pos(s.RetPos), fmt.Sprintf("success path assigns the receiver %d times", stores))
		} else {
			r.Check(stores == 0 && neverNil(s.Rets[0]), rule, fnUnmarshal+" | refusal leaves the receiver untouched", w.pos(s.RetPos), "an error path of Unmarshal has already modified the receiver (partly understood input)")
		}
	}
	if nOK == 0 {
		r.Undecided(rule, fnUnmarshal, "", "no success path recognised")
	}
	// a bounded split silently merges or drops the lines beyond the bound
	for _, s := range sums {
		for _, sp := range calls(s, "strings.SplitN", "strings.SplitAfterN", "bytes.SplitN") {
			n, okc := constVal(sp.Args[2])
			r.Check(okc && n.Sign() < 0, "C11.d", fnUnmarshal+" | lines split without a bound", w.pos(sp.Pos), "the proof text is split with a bound ("+short(sp.Args[2].String())+"): a proof with that many hashes or more reads back shorter than it was written")
		}
	}
	// order: r[i] = decode(lines[i]) — the store into the result uses the loop index of the line decoded
	for _, s := range sums {
		decs := calls(s, cDecode)
		for _, ev := range eventsOfKind(s, "store") {
			_ = ev
		}
		for i, d := range decs {
			// the argument is element i of the split lines
			ok := anySub(d.Args[0], func(t *Term) bool {
				return t.Kind == "indexaddr" && t.Args[1].Kind == "const" && t.Args[1].Name == fmt.Sprint(i)
			})
			// … or the line cut off by the i-th Cut of a walk over the text (line, rest, _ = strings.Cut(rest, "\n"))
			if cuts := calls(s, "strings.Cut", "bytes.Cut"); !ok && i < len(cuts) && mentions(d.Args[0], res(cuts[i], 0)) {
				ok = true
			}
			r.Check(ok, "C11.d", fnUnmarshal+" | line i decoded into element i", w.pos(d.Pos), "decode #"+fmt.Sprint(i)+" reads "+short(d.Args[0].String()))
		}
	}
}

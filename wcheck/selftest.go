package main

// Sensitivity self-test (thorough tier): every catalogue entry is a small textual mutation of the
// CURRENT source, applied through packages.Config.Overlay in a child process (one process per
// mutant keeps memory bounded), and the named rule must report it. The self-test measures the
// checker, not the tree: it never changes the exit status.

import (
	"encoding/json"
	"fmt"
	"os"
	"os/exec"
	"path/filepath"
	"strings"
	"sync"
)

type mutation struct {
	Prop   string `json:"prop"`
	Name   string `json:"name"`
	File   string `json:"file"`
	Old    string `json:"old"`
	New    string `json:"new"`
	Expect string `json:"expect"` // rule id expected to fire (prefix match)
}

func runSelfTest(r *Run, prop, repo, vdir string) {
	b, err := os.ReadFile(filepath.Join(vdir, "wcheck", "selftest_catalogue.json"))
	if err != nil {
		r.extra["selftest_note"] = "catalogue not found: " + err.Error()
		return
	}
	var cat []mutation
	if err := json.Unmarshal(b, &cat); err != nil {
		r.extra["selftest_note"] = "catalogue unreadable: " + err.Error()
		return
	}
	exe, err := os.Executable()
	if err != nil {
		return
	}
	var mine []mutation
	for _, m := range cat {
		if m.Prop == prop {
			mine = append(mine, m)
		}
	}
	if len(mine) == 0 {
		return
	}
	tmp, err := os.MkdirTemp("", "wcheck-selftest-")
	if err != nil {
		return
	}
	defer os.RemoveAll(tmp)
	results := make([]map[string]any, len(mine))
	sem := make(chan struct{}, 6)
	var wg sync.WaitGroup
	for i, m := range mine {
		wg.Add(1)
		go func(i int, m mutation) {
			defer wg.Done()
			sem <- struct{}{}
			defer func() { <-sem }()
			dir := filepath.Join(tmp, fmt.Sprint(i))
			cmd := exec.Command(exe, "-prop", prop, "-tier", "quick", "-repo", repo, "-verif", vdir, "-evdir", dir, "-sub", m.File+"::"+m.Old+"::"+m.New)
			out, _ := cmd.CombinedOutput()
			res := map[string]any{"mutation": m.Name, "file": m.File, "expect": m.Expect}
			text := string(out)
			switch {
			case strings.Contains(text, "SUB-SITE-NOT-FOUND"):
				res["verdict"] = "skipped (site no longer present)"
			case strings.Contains(text, "rule LOAD undecided"):
				res["verdict"] = "skipped (mutant does not type-check)"
			case strings.Contains(text, "rule "+m.Expect):
				res["verdict"] = "detected"
			case strings.Contains(text, "VIOLATION property="):
				res["verdict"] = "detected by another rule"
				for _, ln := range strings.Split(text, "\n") {
					if i := strings.Index(ln, ": rule "); i >= 0 {
						res["fired"] = strings.Fields(ln[i+7:])[0]
						break
					}
				}
			default:
				res["verdict"] = "NOT DETECTED"
				fmt.Printf("SELFTEST-WEAK rule=%s mutation=%q\n", m.Expect, m.Name)
			}
			results[i] = res
		}(i, m)
	}
	wg.Wait()
	det := 0
	for _, x := range results {
		if v, _ := x["verdict"].(string); strings.HasPrefix(v, "detected") {
			det++
		}
	}
	r.selftest = results
	r.extra["selftest_detected"] = det
	r.extra["selftest_total"] = len(results)
	fmt.Printf("selftest %s: %d/%d mutations detected\n", prop, det, len(results))
}

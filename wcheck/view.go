package main

// Helpers shared by the rules: event/fact queries over path summaries. All callee
// matching is by canonical, type-resolved name (types.Func.FullName()).

import (
	"fmt"
	"go/types"
	"os"
	"sort"
	"strings"

	"golang.org/x/tools/go/ssa"
)

const (
	pPersist = "github.com/transparency-dev/witness/internal/persistence"
	pWitness = "github.com/transparency-dev/witness/internal/witness"
	pBastion = "github.com/transparency-dev/witness/internal/feeder/bastion"
	pFeeder  = "github.com/transparency-dev/witness/internal/feeder"
	pRest    = "github.com/transparency-dev/witness/internal/distribute/rest"
	pOmni    = "github.com/transparency-dev/witness/omniwitness"
	pConfig  = "github.com/transparency-dev/witness/internal/config"
	pMon     = "github.com/transparency-dev/witness/monitoring"
	pInmem   = "github.com/transparency-dev/witness/internal/persistence/inmemory"
	pSQL     = "github.com/transparency-dev/witness/internal/persistence/sql"
	pIHTTP   = "github.com/transparency-dev/witness/internal/http"
	pCHTTP   = "github.com/transparency-dev/witness/client/http"
	pClient  = "github.com/transparency-dev/witness/internal/client"
	pAPI     = "github.com/transparency-dev/witness/api"

	cParse      = "github.com/transparency-dev/formats/log.ParseCheckpoint"
	cLogID      = "github.com/transparency-dev/formats/log.ID"
	cSign       = "golang.org/x/mod/sumdb/note.Sign"
	cOpen       = "golang.org/x/mod/sumdb/note.Open"
	cVerify     = "github.com/transparency-dev/merkle/proof.VerifyConsistency"
	cWriteOps   = "(" + pPersist + ".LogStatePersistence).WriteOps"
	cReadOps    = "(" + pPersist + ".LogStatePersistence).ReadOps"
	cLogs       = "(" + pPersist + ".LogStatePersistence).Logs"
	cInit       = "(" + pPersist + ".LogStatePersistence).Init"
	cGetLatest  = "(" + pPersist + ".LogStateReadOps).GetLatest"
	cSet        = "(" + pPersist + ".LogStateWriteOps).Set"
	cClose      = "(" + pPersist + ".LogStateWriteOps).Close"
	cInc        = "(" + pMon + ".Counter).Inc"
	cBytesEq    = "bytes.Equal"
	cCTCmp      = "crypto/subtle.ConstantTimeCompare"
	cStatusCode = "google.golang.org/grpc/status.Code"
	cErrorsIs   = "errors.Is"
	cErrorf     = "fmt.Errorf"
)

// calls returns the call events (not defers/go) whose canonical callee is one of names.
func calls(s Summary, names ...string) []Event {
	var out []Event
	for _, e := range s.Events {
		if e.Kind != "call" {
			continue
		}
		for _, n := range names {
			if e.Callee == n {
				out = append(out, e)
				break
			}
		}
	}
	return out
}

func eventsOfKind(s Summary, kinds ...string) []Event {
	var out []Event
	for _, e := range s.Events {
		for _, k := range kinds {
			if e.Kind == k {
				out = append(out, e)
			}
		}
	}
	return out
}

// res returns result #i of a multi-result call event (or the call itself for i==0 on single results).
func res(e Event, i int) *Term {
	if e.Res == nil {
		return nil
	}
	if tup, ok := e.Res.Typ.(*types.Tuple); ok && tup.Len() > 1 {
		return mk("call", e.Res.Name, i+1, tup.At(i).Type(), e.Res.Args...)
	}
	return e.Res
}

// errRes returns the error-typed (last) result of a call event.
func errRes(e Event) *Term {
	if e.Res == nil {
		return nil
	}
	if tup, ok := e.Res.Typ.(*types.Tuple); ok && tup.Len() > 1 {
		return res(e, tup.Len()-1)
	}
	return e.Res
}

// nilFact reports whether the path carries a fact about t == nil; and its polarity.
func nilFact(s Summary, t *Term) (known, isNil bool, seq int) {
	for _, f := range s.Facts {
		if f.T.Kind == "binop" && f.T.Name == "==" {
			a, b := f.T.Args[0], f.T.Args[1]
			if (a == t && b.Kind == "nil") || (b == t && a.Kind == "nil") {
				return true, f.Pos, f.Seq
			}
		}
	}
	return false, false, 0
}

// okFact: the path established err == nil for the call before seq (0 = anywhere).
func okBefore(s Summary, e Event, seq int) bool {
	k, isNil, fs := nilFact(s, errRes(e))
	return k && isNil && (seq == 0 || fs < seq)
}

func failed(s Summary, e Event) bool {
	k, isNil, _ := nilFact(s, errRes(e))
	return k && !isNil
}

func boolFact(s Summary, t *Term) (known, val bool, seq int) {
	for _, f := range s.Facts {
		if f.T == t {
			return true, f.Pos, f.Seq
		}
	}
	return false, false, 0
}

// eqConstFact looks for a fact (t == const c) and returns its polarity.
func eqConstFact(s Summary, t *Term, c string) (known, val bool, seq int) {
	for _, f := range s.Facts {
		if f.T.Kind == "binop" && f.T.Name == "==" {
			a, b := f.T.Args[0], f.T.Args[1]
			if (a == t && b.Kind == "const" && b.Name == c) || (b == t && a.Kind == "const" && a.Name == c) {
				return true, f.Pos, f.Seq
			}
		}
	}
	return false, false, 0
}

// eqFact looks for a fact (a == b) for arbitrary terms.
func eqFact(s Summary, a, b *Term) (known, val bool, seq int) {
	t := eqTerm(a, b)
	return boolFact(s, t)
}

func fieldT(base *Term, name string, typ types.Type) *Term { return mk("field", name, 0, typ, base) }

// fieldByType selects the field of base's struct type whose type prints as want (unexported fields are an
// implementation detail: rules address them by what they hold, not by what they are called).
func fieldByType(base *Term, want string) *Term {
	if base == nil || base.Typ == nil {
		return mk("field", "?unknown-base:"+want, 0, nil, base)
	}
	t := base.Typ
	if p, ok := t.Underlying().(*types.Pointer); ok {
		t = p.Elem()
	}
	st, ok := t.Underlying().(*types.Struct)
	if !ok {
		return mk("field", "?not-a-struct:"+want, 0, nil, base)
	}
	var found *types.Var
	for i := 0; i < st.NumFields(); i++ {
		if typeStr(st.Field(i).Type()) == want {
			if found != nil {
				return mk("field", "?ambiguous:"+want, 0, nil, base)
			}
			found = st.Field(i)
		}
	}
	if found == nil {
		// a field declared with a narrower, consumer-side interface that the wanted type satisfies holds the same value
		if wt := typeByStr[want]; wt != nil {
			for i := 0; i < st.NumFields(); i++ {
				it, isIface := st.Field(i).Type().Underlying().(*types.Interface)
				if !isIface || it.NumMethods() == 0 {
					continue
				}
				if types.Implements(wt, it) {
					if found != nil {
						return mk("field", "?ambiguous:"+want, 0, nil, base)
					}
					found = st.Field(i)
				}
			}
		}
	}
	if found == nil && curWorld != nil {
		// a field declared with a module interface that only ever holds one concrete structure (an adapter embedding the
		// wanted handle: `db database` <- sqlDB{*sql.DB}): the handle inside that structure
		var hit *Term
		for i := 0; i < st.NumFields(); i++ {
			_, conc := curWorld.ifaceFlow(st.Field(i).Type())
			if conc == nil {
				continue
			}
			ct := conc
			if p, ok := ct.Underlying().(*types.Pointer); ok {
				ct = p.Elem()
			}
			cs, ok := ct.Underlying().(*types.Struct)
			if !ok {
				continue
			}
			for j := 0; j < cs.NumFields(); j++ {
				if typeStr(cs.Field(j).Type()) == want {
					if hit != nil {
						return mk("field", "?ambiguous:"+want, 0, nil, base)
					}
					hit = mk("field", cs.Field(j).Name(), 0, cs.Field(j).Type(), mk("field", st.Field(i).Name(), 0, st.Field(i).Type(), base))
				}
			}
		}
		if hit != nil {
			return hit
		}
	}
	if found == nil {
		return mk("field", "?missing:"+want, 0, nil, base)
	}
	return mk("field", found.Name(), 0, found.Type(), base)
}

// typeByStr: named types of every loaded package (and pointers to them) by their short type string.
var typeByStr = map[string]types.Type{}

func registerTypes(pkgs map[string]*types.Package) {
	for _, p := range pkgs {
		sc := p.Scope()
		for _, n := range sc.Names() {
			if tn, ok := sc.Lookup(n).(*types.TypeName); ok && !tn.IsAlias() {
				typeByStr[typeStr(tn.Type())] = tn.Type()
				typeByStr[typeStr(types.NewPointer(tn.Type()))] = types.NewPointer(tn.Type())
			}
		}
	}
}

func isParam(t *Term, name string) bool { return t != nil && t.Kind == "param" && t.Name == name }

// paramByType finds the unique parameter of fn with the given type string.
func paramByType(fn *ssa.Function, typ string) (*Term, error) {
	var found *Term
	for _, p := range fn.Params {
		if typeStr(p.Type()) == typ {
			if found != nil {
				return nil, fmt.Errorf("%s has two parameters of type %s", fn.String(), typ)
			}
			found = mk("param", p.Name(), 0, p.Type())
		}
	}
	if found == nil {
		return nil, fmt.Errorf("%s has no parameter of type %s", fn.String(), typ)
	}
	return found, nil
}

func codesConst(w *World, name string) string {
	o := w.lookup("google.golang.org/grpc/codes", name)
	if c, ok := o.(*types.Const); ok {
		return c.Val().ExactString()
	}
	return "?"
}

// notFoundFact recognises the accepted NotFound test idioms on error term e:
//
//	status.Code(e) == codes.NotFound   (if-form; the switch-form lowers to the same comparison)
//	status.Convert(e).Code() == codes.NotFound
func notFoundFact(w *World, s Summary, e *Term) (known, val bool, seq int) {
	nf := codesConst(w, "NotFound")
	for _, c := range calls(s, cStatusCode) {
		if len(c.Args) == 1 && c.Args[0] == e {
			if k, v, sq := eqConstFact(s, c.Res, nf); k {
				return k, v, sq
			}
		}
	}
	for _, c := range calls(s, "google.golang.org/grpc/status.Convert") {
		if len(c.Args) == 1 && c.Args[0] == e {
			for _, c2 := range s.Events {
				if c2.Kind == "call" && strings.HasSuffix(c2.Callee, "status.Status).Code") && c2.Recv == c.Res {
					if k, v, sq := eqConstFact(s, c2.Res, nf); k {
						return k, v, sq
					}
				}
			}
		}
	}
	return false, false, 0
}

// eqCallFact: truth of an equality predicate call (bytes.Equal, reflect.DeepEqual: boolean result;
// subtle.ConstantTimeCompare: result compared with 1).
func eqCallFact(s Summary, ev Event) (known, val bool, seq int) {
	if ev.Callee == cCTCmp {
		return eqConstFact(s, ev.Res, "1")
	}
	return boolFact(s, ev.Res)
}

// wraps reports whether error term t is, or is built by fmt.Errorf/%w-style wrapping from, inner.
func wraps(t, inner *Term) bool {
	if t == inner {
		return true
	}
	if t.Kind == "call" && (t.Name == cErrorf || t.Name == "github.com/cenkalti/backoff/v4.Permanent") {
		for _, a := range t.Args[2:] {
			if a != nil && (a == inner || mentions(a, inner)) {
				return true
			}
		}
	}
	return false
}

func uniqStrings(in []string) []string {
	sort.Strings(in)
	var out []string
	for i, s := range in {
		if i == 0 || s != in[i-1] {
			out = append(out, s)
		}
	}
	return out
}

func factsString(s Summary) string {
	var fs []string
	for _, f := range s.Facts {
		fs = append(fs, short(f.String()))
	}
	return strings.Join(fs, " ; ")
}

// pathString renders a compact path description for diagnostics.
func pathString(e *Engine, s Summary) string {
	var sb strings.Builder
	sb.WriteString("entry")
	for _, f := range s.Facts {
		sb.WriteString(" → [" + short(f.String()) + "]")
	}
	var rs []string
	for _, r := range s.Rets {
		rs = append(rs, short(r.String()))
	}
	sb.WriteString(" → return(" + strings.Join(rs, ", ") + ")@" + e.posStr(s.RetPos))
	return sb.String()
}

// retClass classifies an error return term.
func errClass(t *Term) string {
	switch {
	case t == nil:
		return "none"
	case t.Kind == "nil":
		return "nil"
	case t.Kind == "global":
		return t.Name
	default:
		return "other-error"
	}
}

func shortGlobal(n string) string {
	if i := strings.LastIndex(n, "."); i >= 0 {
		return n[i+1:]
	}
	return n
}

// sliceElems: the elements of a slice value at the end of a path: an append chain / literal, or an allocation of constant
// length whose cells were assigned by constant index.
func sliceElems(s Summary, t *Term) ([]*Term, bool) {
	if els, ok := chainElems(t); ok {
		return els, true
	}
	if t.Kind == "alloc" {
		var els []*Term
		for i := 0; ; i++ {
			v, ok := s.Mem[mk("cell", fmt.Sprint(i), 0, nil, t).key]
			if !ok {
				break
			}
			els = append(els, v)
		}
		if n, known := knownLen(t); known && n != len(els) && len(els) > 0 {
			// not every cell assigned: the rest hold zero values
			for len(els) < n {
				els = append(els, mk("zero", "", 0, nil))
			}
		}
		return els, len(els) > 0
	}
	return nil, false
}

// fieldByTypeCtor is fieldByType with one more way to tell fields of the same type apart: the field that the type's
// constructors fill from one of their parameters (configuration handed in) as opposed to fields left at a default and set
// by options. Used for plain-typed fields (string, int) where a feature may add a sibling of the same type.
func fieldByTypeCtor(w *World, base *Term, want string) *Term {
	f := fieldByType(base, want)
	if !strings.HasPrefix(f.Name, "?ambiguous:") {
		return f
	}
	t := base.Typ
	if p, ok := t.Underlying().(*types.Pointer); ok {
		t = p.Elem()
	}
	named, ok := t.(*types.Named)
	if !ok || named.Obj().Pkg() == nil {
		return f
	}
	var picked string
	for _, fn := range w.prodFns() {
		if fn.Parent() != nil || fn.Signature.Recv() != nil || pkgPathOf(fn) != named.Obj().Pkg().Path() || fn.Signature.Results().Len() == 0 {
			continue
		}
		rt := fn.Signature.Results().At(0).Type()
		if p, ok := rt.Underlying().(*types.Pointer); ok {
			rt = p.Elem()
		}
		if !types.Identical(rt, named) {
			continue
		}
		e := w.engine(3, 1)
		for _, s := range e.Explore(fn) {
			if s.Panic || len(s.Rets) == 0 || s.Rets[0] == nil {
				continue
			}
			v := s.Rets[0]
			if v.Kind != "alloc" {
				continue
			}
			st := named.Underlying().(*types.Struct)
			for i := 0; i < st.NumFields(); i++ {
				if typeStr(st.Field(i).Type()) != want {
					continue
				}
				if fv := memField(s, v, st.Field(i).Name()); fv != nil && fv.Kind == "param" {
					if picked != "" && picked != st.Field(i).Name() {
						return f
					}
					picked = st.Field(i).Name()
				}
			}
		}
	}
	if os.Getenv("WCHECK_DEBUG_CTOR") != "" {
		fmt.Fprintf(os.Stderr, "fieldByTypeCtor %s want=%s picked=%q\n", named, want, picked)
	}
	if picked == "" {
		return f
	}
	st := named.Underlying().(*types.Struct)
	for i := 0; i < st.NumFields(); i++ {
		if st.Field(i).Name() == picked {
			return mk("field", picked, 0, st.Field(i).Type(), base)
		}
	}
	return f
}

package main

// D-rules (thorough tier, informational): contracts of pinned dependencies that the rules rely on are
// discharged structurally from the dependencies' own source. They never change the exit status: the
// dependencies are not the code under test and cannot change offline; a D-rule that no longer holds is
// printed and recorded in the evidence file so that the trusted base is stated honestly.

import (
	"fmt"
	"go/ast"
	"go/token"
	"strings"

	"golang.org/x/tools/go/ssa"
)

func depFn(w *World, name string) *ssa.Function {
	for _, fn := range w.funcs {
		if fn.Blocks != nil && fn.Synthetic == "" && funcName(fn) == name && fn.Parent() == nil {
			return fn
		}
	}
	return nil
}

func runDRules(w *World, r *Run, which ...string) {
	var res []map[string]any
	note := func(id, what string, ok bool, detail string) {
		res = append(res, map[string]any{"d_rule": id, "contract": what, "discharged": ok, "detail": detail})
		if !ok {
			fmt.Printf("D-RULE-NOT-DISCHARGED %s: %s (%s)\n", id, what, detail)
		}
	}
	for _, id := range which {
		switch id {
		case "D1":
			what := "formats/log.ParseCheckpoint: a non-nil *Checkpoint is returned only after note.Open succeeded, a signature matching the log verifier's key hash and name was found, the body unmarshalled, and cp.Origin == origin; every other return carries a nil checkpoint and a non-nil error"
			fn := depFn(w, cParse)
			if fn == nil {
				note(id, what, false, "source of the dependency not loaded")
				continue
			}
			e := &Engine{prog: w.prog, fset: w.fset, modPrefix: "github.com/transparency-dev/formats/log", maxDepth: 1, loopBound: 2, maxPaths: 20000, funcByName: w.funcs,
				opaque: map[string]bool{"(*github.com/transparency-dev/formats/log.Checkpoint).Unmarshal": true}, hof: map[string]int{}}
			sums := e.Explore(fn)
			ok := len(sums) > 0
			detail := fmt.Sprintf("%d paths", len(sums))
			nOK := 0
			origin := mk("param", fn.Params[1].Name(), 0, fn.Params[1].Type())
			lv := mk("param", fn.Params[2].Name(), 0, fn.Params[2].Type())
			for _, s := range sums {
				if s.Trunc != "" || len(s.Rets) != 4 {
					ok, detail = false, "truncated or malformed path"
					continue
				}
				if s.Rets[0].Kind == "nil" {
					if !neverNil(s.Rets[3]) {
						ok, detail = false, "nil checkpoint returned with a possibly nil error"
					}
					continue
				}
				nOK++
				op := calls(s, cOpen)
				um := calls(s, "(*github.com/transparency-dev/formats/log.Checkpoint).Unmarshal")
				good := len(op) == 1 && okBefore(s, op[0], 0) && len(um) == 1 && okBefore(s, um[0], 0) && s.Rets[3].Kind == "nil" && s.Rets[2] == res0(op[0])
				// signature match facts: s.Hash == logVerifier.KeyHash() and s.Name == logVerifier.Name()
				kh, nm, org := false, false, false
				for _, f := range s.Facts {
					if f.T.Kind != "binop" || f.T.Name != "==" {
						continue
					}
					str := f.T.String()
					if f.Pos && strings.Contains(str, "KeyHash") && strings.Contains(str, ".Hash") && mentions(f.T, lv) {
						kh = true
					}
					if f.Pos && strings.Contains(str, ").Name") && strings.Contains(str, ".Name") && mentions(f.T, lv) {
						nm = true
					}
					if f.Pos && mentions(f.T, origin) && strings.Contains(str, "Origin") {
						org = true
					}
				}
				if !(good && kh && nm && org) {
					ok = false
					detail = fmt.Sprintf("a success path lacks a contract fact (open/unmarshal=%v keyhash=%v name=%v origin=%v)", good, kh, nm, org)
				}
			}
			if nOK == 0 {
				ok, detail = false, "no success path"
			}
			note(id, what, ok, detail)
		case "D2":
			what := "x/mod note.Open: refuses notes with more than 100 signature lines (the limit C08.a guards against)"
			p := w.pkg("golang.org/x/mod/sumdb/note")
			ok, detail := false, "package not loaded"
			if p != nil {
				// the limit is the comparison `numSig > 100` on the counter incremented per signature line in Open
				fd := findFuncDecl(p.Syntax, "", "Open")
				detail = "Open not found"
				if fd != nil {
					detail = "no '> 100' comparison found in Open"
					ast.Inspect(fd, func(n ast.Node) bool {
						be, isB := n.(*ast.BinaryExpr)
						if !isB || be.Op != token.GTR {
							return true
						}
						if bl, isL := be.Y.(*ast.BasicLit); isL && bl.Value == "100" {
							ok, detail = true, "Open rejects when its per-line counter exceeds 100 ("+w.pos(be.Pos())+")"
						}
						return true
					})
				}
			}
			note(id, what, ok, detail)
		}
	}
	r.extra["d_rules"] = res
}

func res0(e Event) *Term { return res(e, 0) }

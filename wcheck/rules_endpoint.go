package main

// The bastion add-checkpoint endpoint decided by composition: ServeHTTP is explored once per outcome class of the real
// Update (error sentinel x bytes class, taken from Update's own path summaries) with the witness call answered by that
// class; every module helper of the endpoint is inlined, so that the rules do not depend on how the handler is split into
// functions, how the verdict travels (tuple, struct, responder helper) or how the status table is written (switch, map).

import (
	"fmt"
	"go/types"
	"sort"
	"strings"
)

type epRun struct {
	o    *updOutcome
	sums []Summary
	eng  *Engine
}

var epCache = map[*World]map[updOutcome]*epRun{}

var tBytes, tError = tBytesType(), tErrorType()

// endpointUnder explores ServeHTTP with the witness's Update answered by outcome class o.
func endpointUnder(w *World, r *Run, rule string, o updOutcome) (*epRun, bool) {
	if epCache[w] == nil {
		epCache[w] = map[updOutcome]*epRun{}
	}
	label := fmt.Sprintf("%s ∘ Update=(%s, %s bytes)", fnServeHTTP, shortGlobal(o.err), o.bytes)
	if ep, ok := epCache[w][o]; ok {
		r.Analysed(label, len(ep.sums))
		return ep, true
	}
	fn := w.fn(fnServeHTTP)
	if fn == nil {
		r.Undecided(rule, fnServeHTTP, "", "anchor not found")
		return nil, false
	}
	e := w.engine(7, 1) // the body parser is inlined too: what reaches the witness is traced back to the request's Body
	var trusted, uerr *Term
	if o.bytes == "nil" {
		trusted = mk("nil", "", 0, tBytes)
	} else {
		trusted = mk("stubval", "trusted:"+o.bytes, 0, tBytes)
	}
	switch o.err {
	case "nil":
		uerr = mk("nil", "", 0, tError)
	case "other-error":
		uerr = mk("stubval", "other-error", 0, tError)
	default:
		uerr = mk("global", o.err, 0, tError)
	}
	e.stub = map[string][]*Term{cFeederUpdate: {trusted, uerr}}
	sums := e.Explore(fn)
	for _, s := range sums {
		if s.Trunc != "" {
			r.Undecided(rule, label, w.pos(fn.Pos()), "path enumeration truncated: "+s.Trunc)
			return nil, false
		}
	}
	if len(sums) == 0 {
		r.Undecided(rule, label, w.pos(fn.Pos()), "no feasible path")
		return nil, false
	}
	ep := &epRun{o: &o, sums: sums, eng: e}
	epCache[w][o] = ep
	r.Analysed(label, len(sums))
	return ep, true
}

func statusWrites(s Summary) []Event { return calls(s, cWriteHeader, "net/http.Error") }

func statusOf(s Summary) (string, bool) {
	whs := statusWrites(s)
	if len(whs) != 1 {
		return "", false
	}
	return constInt(whs[0].Args[len(whs[0].Args)-1])
}

func contentTypes(s Summary) []*Term {
	var out []*Term
	for _, hd := range calls(s, "(net/http.Header).Add", "(net/http.Header).Set") {
		if len(hd.Args) == 2 {
			if k, _ := constInt(hd.Args[0]); strings.EqualFold(k, "\"Content-Type\"") {
				out = append(out, hd.Args[1])
			}
		}
	}
	return out
}

// decimalSizeBody: t renders `size` in decimal followed by a newline.
func decimalSizeBody(s Summary, t, size *Term) bool {
	// the size is a uint64: rendered through a signed integer it comes out negative from 2^63 on
	if anySub(t, func(x *Term) bool {
		if x.Kind != "conv" || len(x.Args) != 1 || x.Typ == nil || normInt(x.Args[0]) != normInt(size) {
			return false
		}
		b, ok := x.Typ.Underlying().(*types.Basic)
		return ok && b.Info()&types.IsInteger != 0 && b.Info()&types.IsUnsigned == 0
	}) {
		return false
	}
	// as a template: exactly <decimal of size> "\n", however it is assembled
	prev := pieceCtx
	pieceCtx = &s
	pcs := mergeLits(strPieces(t))
	pieceCtx = prev
	if len(pcs) == 2 && pcs[0].k == "dec" && pcs[0].t == normInt(size) && pcs[1].k == "lit" && pcs[1].lit == "\n" {
		return true
	}
	for _, sp := range calls(s, "fmt.Sprintf", "fmt.Appendf", "fmt.Fprintf") {
		if sp.Res == nil || !(mentions(t, sp.Res) || sp.Callee == "fmt.Fprintf") {
			continue
		}
		var fmtArg, va *Term
		for _, x := range sp.Args {
			if x != nil && x.Kind == "const" && strings.HasPrefix(x.Name, "\"") {
				fmtArg = x
			}
			if x != nil && x.Kind == "varargs" {
				va = x
			}
		}
		if fmtArg != nil && fmtArg.Name == "\"%d\\n\"" && va != nil && len(va.Args) == 1 && va.Args[0] == size && sp.Callee != "fmt.Fprintf" {
			return true
		}
	}
	for _, sp := range calls(s, "strconv.FormatUint", "strconv.AppendUint") {
		if sp.Res == nil || !mentions(t, sp.Res) {
			continue
		}
		n := len(sp.Args)
		base, _ := constInt(sp.Args[n-1])
		if sp.Args[n-2] == size && base == "10" {
			// and a newline after it
			nl := anySub(t, func(x *Term) bool {
				return x.Kind == "const" && (x.Name == "\"\\n\"" || x.Name == "10") && x != sp.Args[n-1]
			})
			if nl {
				return true
			}
		}
	}
	return false
}

// zeroLenFactOn: the path branched on the length of a term satisfying pred (the only reason a correct body is not written).
func lenFactOn(s Summary, pred func(*Term) bool) bool {
	for _, f := range s.Facts {
		hit := false
		anySub(f.T, func(x *Term) bool {
			if (x.Kind == "len" || (x.Kind == "call" && x.Name == "builtin:len")) && len(x.Args) > 0 {
				for _, a := range x.Args {
					if a != nil && pred(a) {
						hit = true
					}
				}
			}
			return false
		})
		if hit {
			return true
		}
	}
	return false
}

type epView struct {
	s               Summary
	al, pb, upd, pc []Event
	status          string
	statusOK        bool
}

// C10.a STATUS-TABLE, C10.d BODY-PROVENANCE, C10.e (witness asked with the request's values) on the composed endpoint.
func ruleStatusTable(w *World, r *Run, a *updAnalysis, rule string) {
	if !a.guard(r, rule) {
		return
	}
	fn := w.fn(fnServeHTTP)
	if fn == nil {
		r.Undecided(rule, fnServeHTTP, "", "anchor not found")
		return
	}
	recv := recvParam(fn)
	verifier := fieldByType(recv, "note.Verifier")
	for _, o := range updateOutcomes(a) {
		ep, ok := endpointUnder(w, r, rule, o)
		if !ok {
			return
		}
		key := fmt.Sprintf("%s | Update outcome (%s, %s bytes)", fnServeHTTP, shortGlobal(o.err), o.bytes)
		want, known := wantStatus[o.err]
		if !known {
			want = "500"
		}
		if o.err == "nil" && o.bytes != "cosigned" {
			r.Fail("C10.d", fnServeHTTP+" | 200 carries a cosignature made over the submitted text", w.pos(fn.Pos()), "the witness can report acceptance while returning "+o.bytes+" bytes (not the cosignature it just made over the submitted note): the endpoint's 200 body would be a signature line that does not verify over the submitted checkpoint")
			continue
		}
		trusted := ep.eng.stub[cFeederUpdate][0]
		n := 0
		allGood := true
		var sample Summary
		for _, s := range ep.sums {
			upd := calls(s, cFeederUpdate)
			if len(upd) == 0 {
				continue
			}
			if len(upd) != 1 {
				r.Fail(rule, key, w.pos(upd[1].Pos), "the witness is asked more than once for one request")
				allGood = false
				continue
			}
			// the parse of the checkpoint the witness returned
			var pc *Event
			parseFailed := false
			for _, pe := range calls(s, cParse) {
				pe := pe
				if len(pe.Args) == 4 && pe.Args[0] == trusted {
					if failed(s, pe) {
						parseFailed = true
					} else if okBefore(s, pe, 0) {
						pc = &pe
					}
				}
			}
			status, isConst := statusOf(s)
			if !isConst {
				allGood = false
				r.Fail(rule, key, w.pos(s.RetPos), "no single constant status on this path; path: "+pathString(ep.eng, s))
				continue
			}
			if parseFailed {
				// fault arm: the witness's own checkpoint does not open under its verifier (trusted not to happen); must not look like a verdict
				if status != "500" {
					allGood = false
					r.Fail(rule, key+" | stored checkpoint unreadable", w.pos(s.RetPos), "an unreadable witness checkpoint is answered "+status+", want 500")
				}
				continue
			}
			n++
			sample = s
			if status != want {
				allGood = false
				r.Fail(rule, key, w.pos(s.RetPos), fmt.Sprintf("the endpoint answers %s when the witness's verdict is (%s, %s bytes); the protocol says %s; path: %s", status, shortGlobal(o.err), o.bytes, want, pathString(ep.eng, s)))
				continue
			}
			cts := contentTypes(s)
			writes := calls(s, cRWWrite)
			switch {
			case o.err == pWitness+".ErrCheckpointStale":
				good := len(cts) == 1 && cts[0].Kind == "const" && cts[0].Name == "\"text/x.tlog.size\"" && pc != nil && pc.Args[2] == verifier
				if good {
					size := sizeOf(res(*pc, 0))
					isBody := func(t *Term) bool { return decimalSizeBody(s, t, size) }
					switch len(writes) {
					case 1:
						good = isBody(writes[0].Args[0])
					case 0:
						good = lenFactOn(s, isBody)
					default:
						good = false
					}
				}
				if !good {
					allGood = false
					r.Fail(rule, key+" | size body", w.pos(s.RetPos), "409 for a stale old size must carry Content-Type text/x.tlog.size and the decimal size of the witness's current checkpoint (parsed under the witness's verifier from the bytes Update returned) followed by a newline; path: "+pathString(ep.eng, s))
				}
			case o.err == "nil":
				good := pc != nil && pc.Args[2] == verifier
				var body *Term
				if good {
					sigs := mk("field", "Sigs", 0, nil, res(*pc, 2))
					isBody := func(t *Term) bool {
						return anySub(t, func(x *Term) bool { return x.Kind == "field" && x.Name == "Base64" && mentions(x, sigs) }) &&
							anySub(t, func(x *Term) bool { return x.Kind == "field" && x.Name == "Name" && mentions(x, sigs) }) &&
							!anySub(t, func(x *Term) bool { return x.Kind == "field" && x.Name == "UnverifiedSigs" })
					}
					switch len(writes) {
					case 1:
						body = writes[0].Args[0]
						good = isBody(body)
					case 0:
						good = lenFactOn(s, isBody)
					default:
						good = false
					}
				}
				for _, ct := range cts {
					if ct.Kind == "const" && ct.Name == "\"text/x.tlog.size\"" {
						good = false
					}
				}
				if !good {
					allGood = false
					r.Fail("C10.d", fnServeHTTP+" | 200 body = signature line(s) verified under the witness's own verifier", w.pos(s.RetPos), "the 200 body is not built from the signatures that note.Open verified under the witness verifier on the bytes Update returned: "+short(fmt.Sprint(body))+"; path: "+pathString(ep.eng, s))
				} else {
					r.Pass("C10.d", fnServeHTTP+" | 200 body = signature line(s) verified under the witness's own verifier", w.pos(s.RetPos), "")
				}
			default:
				// every other verdict: a bare status
				bad := len(writes) > 0
				for _, ct := range cts {
					if !(ct.Kind == "const" && ct.Name == "\"\"") {
						bad = true
					}
				}
				if bad && status != "500" {
					allGood = false
					r.Fail(rule, key+" | bare status", w.pos(s.RetPos), "a verdict other than accepted / stale old size carries a body or a content type")
				}
			}
			// C10.e: the witness is asked with the request's own values
			idc := calls(s, cLogID)
			u := upd[0]
			good, whyArgs := len(u.Args) == 5 && len(idc) >= 1 && u.Recv == fieldByType(recv, "feeder.Witness"), "the witness call has an unexpected shape"
			if good {
				good, whyArgs = requestPartsOK(s, u, mk("field", "Body", 0, nil, paramN(fn, 1)))
				okID := false
				for _, ic := range idc {
					if u.Args[1] == ic.Res {
						okID = true
					}
				}
				if good && !okID {
					good, whyArgs = false, "the log ID handed to the witness is not formats/log.ID of the checkpoint's first line"
				}
			}
			r.Check(good, "C10.e", fnServeHTTP+" | Update(ctx, ID(first line), parsed old size, checkpoint, proof) passed through", w.pos(u.Pos), whyArgs+": "+short(fmt.Sprint(u.Args)))
		}
		if n == 0 {
			r.Fail(rule, key, w.pos(fn.Pos()), "no path of the endpoint answers this verdict of the witness")
			continue
		}
		if allGood {
			r.Pass(rule, key, w.pos(sample.RetPos), "")
			r.Sample(map[string]string{"update_outcome": shortGlobal(o.err) + "/" + o.bytes, "status": want, "return_at": w.pos(sample.RetPos), "paths": fmt.Sprint(n)})
		}
	}
}

// C09.b SENTINEL-EXHAUSTIVE: every sentinel Update can return is a verdict the endpoint knows (no sentinel falls to 500).
func ruleSentinelExhaustive(w *World, r *Run, a *updAnalysis, rule string) {
	if !a.guard(r, rule) {
		return
	}
	sentinels := map[string]bool{}
	for _, v := range a.paths {
		if len(v.s.Rets) == 2 && v.s.Rets[1].Kind == "global" {
			sentinels[v.s.Rets[1].Name] = true
		}
		// a wrapped sentinel would need errors.Is on the caller side
		if len(v.s.Rets) == 2 && v.s.Rets[1].Kind == "call" && v.s.Rets[1].Name == cErrorf {
			for _, x := range v.s.Rets[1].Args[2:] {
				if x != nil && anySub(x, func(t *Term) bool { return t.Kind == "global" && strings.HasPrefix(t.Name, pWitness+".Err") }) {
					r.Fail(rule, fnUpdate+" | sentinels returned by identity", w.pos(v.s.RetPos), "Update wraps a sentinel error; callers compare by identity")
				}
			}
		}
	}
	var names []string
	for n := range sentinels {
		names = append(names, n)
	}
	sort.Strings(names)
	if len(names) < 4 {
		r.Undecided(rule, fnUpdate+" | sentinels", "", fmt.Sprintf("only %d sentinel outcomes found", len(names)))
	}
	for _, o := range updateOutcomes(a) {
		if !sentinels[o.err] {
			continue
		}
		ep, ok := endpointUnder(w, r, rule, o)
		if !ok {
			return
		}
		trusted := ep.eng.stub[cFeederUpdate][0]
		handled, n := true, 0
		for _, s := range ep.sums {
			if len(calls(s, cFeederUpdate)) == 0 {
				continue
			}
			fault := false
			for _, pe := range calls(s, cParse) {
				if len(pe.Args) == 4 && pe.Args[0] == trusted && failed(s, pe) {
					fault = true
				}
			}
			if fault {
				continue
			}
			n++
			if st, isConst := statusOf(s); !isConst || st == "500" {
				handled = false
			}
		}
		r.Check(handled && n > 0, rule, fnServeHTTP+" | case for "+shortGlobal(o.err)+" ("+o.bytes+" bytes)", w.pos(w.fn(fnServeHTTP).Pos()), "Update can return "+shortGlobal(o.err)+" but the endpoint has no case for it (it would answer 500)")
	}
}

// C10.b RATE-LIMIT-FIRST, C10.c EXACTLY-ONE-STATUS, C10.e PRE-CHECKS over the composed endpoint (all outcome classes).
func ruleServeHTTP(w *World, r *Run, ruleB, ruleC, ruleE string) {
	a := analyseUpdate(w, r)
	if !a.guard(r, ruleC) {
		return
	}
	fn := w.fn(fnServeHTTP)
	if fn == nil {
		r.Undecided(ruleC, fnServeHTTP, "", "anchor not found")
		return
	}
	recv := recvParam(fn)
	rw := paramN(fn, 0)
	req := paramN(fn, 1)
	reqBody := mk("field", "Body", 0, nil, req)
	limiter := fieldByType(recv, "*rate.Limiter")
	logsMap := fieldByType(recv, "map[string]config.Log")
	allowed := map[string]bool{"200": true, "400": true, "403": true, "404": true, "409": true, "422": true, "429": true, "500": true}
	n429, nPre := 0, 0
	for _, o := range updateOutcomes(a) {
		ep, ok := endpointUnder(w, r, ruleC, o)
		if !ok {
			return
		}
		e := ep.eng
		for _, s := range ep.sums {
			if s.Panic {
				r.Fail(ruleC, fnServeHTTP+" | no panic", w.pos(s.RetPos), "explicit panic on a request path")
				continue
			}
			al := calls(s, cAllow)
			upd := calls(s, cFeederUpdate)
			whs := statusWrites(s)
			writes := calls(s, cRWWrite)
			// ---- C10.c
			key := fnServeHTTP + " | exactly one documented status on every path"
			switch {
			case len(whs) != 1:
				r.Fail(ruleC, key, w.pos(s.RetPos), fmt.Sprintf("%d status writes on this path (a path without WriteHeader answers an implicit 200; two are a superfluous WriteHeader); path: %s", len(whs), pathString(e, s)))
			default:
				wh := whs[0]
				arg := wh.Args[len(wh.Args)-1]
				good := wh.Recv == rw || (wh.Callee == "net/http.Error" && wh.Args[0] == rw)
				if c, ok := constInt(arg); ok {
					good = good && allowed[c]
				} else {
					good = false
				}
				for _, wr := range writes {
					if wr.Seq < wh.Seq || wr.Recv != rw {
						good = false
					}
				}
				r.Check(good, ruleC, key, w.pos(wh.Pos), "status written is "+short(arg.String())+": not a constant among the documented codes, written to something other than the response, or preceded by a body write")
			}
			if len(upd) == 0 && len(writes) > 0 {
				r.Fail(ruleC, fnServeHTTP+" | no body before the witness's verdict", w.pos(writes[0].Pos), "a body is written on a path that never asked the witness")
			}
			// 200, 403, 409 and 422 are the witness's verdicts: the endpoint may not pronounce them itself (a request it
			// turns away on its own is malformed, unknown or over the rate: 400, 404, 429)
			if len(upd) == 0 && len(whs) == 1 {
				if c, ok := constInt(whs[0].Args[len(whs[0].Args)-1]); ok && (c == "200" || c == "403" || c == "409" || c == "422") {
					r.Fail(ruleC, fnServeHTTP+" | verdict statuses only after the witness was asked", w.pos(whs[0].Pos), "the endpoint answers "+c+" on a path that never called the witness's Update: the request is neither counted as an attempt nor judged by the witness's rules (an early refusal of its own must be 400, 404 or 429)")
				}
			}
			// ---- C10.b
			keyB := fnServeHTTP + " | limiter consulted before the body is read"
			if len(al) == 0 && limiterNilOnPath(s, limiter) && limiterAlwaysBuilt(w) {
				// a guard for a handler built without a limiter: FeedBastion, the only place that builds handlers, always
				// installs one, so this arm is not reachable in the assembled witness
				r.Pass(ruleB, keyB+" | nil-limiter guard (unreachable: the constructor always installs a limiter)", w.pos(s.RetPos), "")
				continue
			} else if len(al) != 1 || al[0].Recv != limiter {
				r.Fail(ruleB, keyB, w.pos(s.RetPos), "path does not consult the configured rate limiter exactly once")
				continue
			}
			k, allowedNow, _ := boolFact(s, al[0].Res)
			if !k {
				r.Fail(ruleB, keyB, w.pos(al[0].Pos), "limiter verdict ignored")
				continue
			}
			status, _ := statusOf(s)
			if !allowedNow {
				n429++
				clean := len(upd) == 0
				for _, ev := range s.Events {
					if ev.Kind != "call" || ev.AtExit {
						continue
					}
					if ev.Recv != nil && mentions(ev.Recv, reqBody) {
						clean = false
					}
					for _, x := range ev.Args {
						if x != nil && mentions(x, reqBody) {
							clean = false
						}
					}
				}
				r.Check(status == "429" && clean, ruleB, fnServeHTTP+" | over-rate request answered 429 without being processed", w.pos(s.RetPos), "a request over the configured rate is answered "+status+" or is parsed/processed before being pushed back")
				continue
			}
			// nothing of the request body is touched before the limiter has admitted the request
			for _, ev := range s.Events {
				if ev.Kind != "call" || ev.AtExit || ev.Seq > al[0].Seq {
					continue
				}
				touched := ev.Recv != nil && mentions(ev.Recv, reqBody)
				for _, x := range ev.Args {
					if x != nil && mentions(x, reqBody) {
						touched = true
					}
				}
				r.Check(!touched, ruleB, keyB, w.pos(ev.Pos), short(ev.Callee)+" reads the request body before the rate limiter was consulted")
			}
			for _, x := range upd {
				r.Check(al[0].Seq < x.Seq, ruleB, keyB, w.pos(x.Pos), short(x.Callee)+" runs before the rate limiter was consulted")
			}
			// ---- C10.e PRE-CHECKS
			var lk []Event
			for _, ev := range eventsOfKind(s, "mapread") {
				if ev.Recv == logsMap {
					lk = append(lk, ev)
				}
			}
			if len(upd) == 0 {
				// a pre-check refused: which one?
				nPre++
				if len(lk) == 1 {
					k, found, _ := boolFact(s, mk("lookup", "ok", 0, nil, lk[0].Recv, lk[0].Args[0]))
					r.Check(k && !found && status == "404", ruleE, fnServeHTTP+" | unknown origin answered 404", w.pos(s.RetPos), "an origin that is not configured is answered "+status)
				} else {
					r.Check(status == "400" && len(lk) == 0, ruleE, fnServeHTTP+" | malformed body or checkpoint without a first line answered 400", w.pos(s.RetPos), "a body that does not parse, or a checkpoint that cannot be split into origin line and rest, is answered "+status)
				}
				continue
			}
			// the witness is reached: with what
			u := upd[0]
			good := len(u.Args) == 5 && len(lk) == 1
			var idc []Event
			if good {
				idc = calls(s, cLogID)
				good = len(idc) == 1 && lk[0].Args[0] == idc[0].Res && u.Args[1] == idc[0].Res
			}
			why := "the log ID looked up and handed to the witness is not ID(first line of the checkpoint)"
			if good {
				// the origin line is what precedes the first newline of the checkpoint handed to the witness, and a newline was found
				good = false
				cp := u.Args[3]
				for _, sp := range calls(s, "strings.SplitN", "strings.Cut", "bytes.Cut", "strings.Index", "bytes.IndexByte", "strings.IndexByte", "bytes.Index") {
					if sp.Res != nil && len(sp.Args) >= 2 && mentions(sp.Args[0], cp) && (mentions(idc[0].Args[0], sp.Res) || mentions(idc[0].Args[0], cp)) {
						sepOK := anySub(sp.Args[1], func(x *Term) bool { return x.Kind == "const" && (x.Name == "\"\\n\"" || x.Name == "10") })
						if sepOK {
							good = true
						}
					}
				}
				why = "the origin is not cut from the checkpoint at its first newline"
			}
			if good {
				entry := mk("lookup", "val", 0, nil, lk[0].Recv, idc[0].Res)
				if k, found, _ := boolFact(s, mk("lookup", "ok", 0, nil, lk[0].Recv, idc[0].Res)); !(k && found) {
					good, why = false, "the witness is reached although the origin was not found in the configured logs"
				}
				// every parse of what the witness returned uses that log's configured origin
				trusted := e.stub[cFeederUpdate][0]
				for _, pe := range calls(s, cParse) {
					if len(pe.Args) == 4 && pe.Args[0] == trusted && pe.Args[1] != mk("field", "Origin", 0, nil, entry) {
						good, why = false, "the witness's answer is parsed under "+short(pe.Args[1].String())+", not under the configured origin of the log looked up"
					}
				}
				if good {
					good, why = requestPartsOK(s, u, reqBody)
				}
			}
			r.Check(good, ruleE, fnServeHTTP+" | witness asked with (ID(first line), parsed old size, checkpoint, proof) of a configured log", w.pos(u.Pos), why+": "+short(fmt.Sprint(u.Args)))
		}
	}
	if n429 == 0 {
		r.Fail(ruleB, fnServeHTTP+" | push-back path exists", "", "no path answers 429 when the limiter refuses")
	}
	if nPre < 3 {
		r.Undecided(ruleE, fnServeHTTP+" | pre-checks", "", fmt.Sprintf("only %d pre-check refusals found (expected: malformed body, no first line, unknown origin)", nPre))
	}
}

func tBytesType() types.Type { return types.NewSlice(types.Typ[types.Byte]) }
func tErrorType() types.Type { return types.Universe.Lookup("error").Type() }

// aliasOf: t shares its backing array with base (base itself or a reslice of it).
func aliasOf(t, base *Term) bool {
	for t != nil {
		if t == base {
			return true
		}
		if t.Kind != "slice" || len(t.Args) == 0 {
			return false
		}
		t = t.Args[0]
	}
	return false
}

// writesThrough lists the events of a path that can write into the backing array of base: element stores, copy into it,
// append/Append* onto a reslice of it (the spare capacity of a shrunk slice is the original's own bytes).
func writesThrough(s Summary, base *Term) []Event {
	var out []Event
	for _, ev := range s.Events {
		switch {
		case ev.Kind == "store" && ev.Recv != nil && ev.Recv.Kind == "indexaddr" && aliasOf(ev.Recv.Args[0], base):
			out = append(out, ev)
		case ev.Kind == "call" && ev.Callee == "builtin:copy" && len(ev.Args) > 0 && aliasOf(ev.Args[0], base):
			out = append(out, ev)
		case ev.Kind == "call" && strings.Contains(ev.Callee[strings.LastIndex(ev.Callee, ".")+1:], "Append") && len(ev.Args) > 0 && ev.Args[0] != nil && ev.Args[0] != base && aliasOf(ev.Args[0], base):
			out = append(out, ev)
		case ev.Kind == "call":
			hit := false
			for _, a := range ev.Args {
				if a == nil {
					continue
				}
				anySub(a, func(x *Term) bool {
					if x.Kind == "append" && len(x.Args) > 0 && x.Args[0] != base && aliasOf(x.Args[0], base) {
						hit = true
					}
					return false
				})
			}
			if hit {
				out = append(out, ev)
			}
		}
	}
	return out
}

// tainted: t is computed from src other than by looking a configured value up with it.
func tainted(t, src *Term) bool {
	if t == nil {
		return false
	}
	if t == src {
		return true
	}
	if t.Kind == "lookup" {
		return false
	}
	for _, a := range t.Args {
		if tainted(a, src) {
			return true
		}
	}
	return false
}

// ruleEndpointHygiene (C03.e / C10.c / C19.d): on every composed endpoint path the bytes the witness returned are never
// written through (with the in-memory store they are the stored checkpoint itself), and metric labels never carry request
// bytes (the Prometheus factory panics on a label that is not valid UTF-8; request-chosen labels are unbounded).
func ruleEndpointHygiene(w *World, r *Run, rule string) {
	a := analyseUpdate(w, r)
	if !a.guard(r, rule) {
		return
	}
	nInc := 0
	cleanAlias, cleanLabel := true, true
	var reqBody *Term
	if sfn := w.fn(fnServeHTTP); sfn != nil {
		reqBody = mk("field", "Body", 0, nil, paramN(sfn, 1))
	}
	for _, o := range updateOutcomes(a) {
		ep, ok := endpointUnder(w, r, rule, o)
		if !ok {
			return
		}
		trusted := ep.eng.stub[cFeederUpdate][0]
		for _, s := range ep.sums {
			if trusted.Kind == "stubval" {
				for _, ev := range writesThrough(s, trusted) {
					cleanAlias = false
					r.Fail(rule, fnServeHTTP+" | checkpoint bytes returned by the witness are not modified in place", w.pos(ev.Pos), "the endpoint writes into the buffer of the checkpoint the witness returned ("+short(ev.Callee)+" on "+short(fmt.Sprint(ev.Args))+"): with the in-memory store that buffer is the stored checkpoint, so a refused request changes the witness's state")
				}
			}
			for _, inc := range calls(s, cInc) {
				nInc++
				for _, l := range inc.Args {
					if l != nil && tainted(l, reqBody) {
						cleanLabel = false
						r.Fail(rule, fnServeHTTP+" | metric labels are constants, configured values or the peer address, never request bytes", w.pos(inc.Pos), "a counter is labelled with a value computed from the request body ("+short(l.String())+"): a label that is not valid UTF-8 makes the Prometheus counter panic before the request is answered, and request-chosen labels are unbounded")
					}
				}
			}
		}
	}
	if cleanAlias {
		r.Pass(rule, fnServeHTTP+" | checkpoint bytes returned by the witness are not modified in place", "", "")
	}
	if cleanLabel {
		r.Check(nInc >= 3, rule, fnServeHTTP+" | metric labels are constants, configured values or the peer address, never request bytes", "", fmt.Sprintf("vacuity floor: only %d counter increments seen on the endpoint's paths", nInc))
	}
}

// C07.g: a failing outcome of Update is never answered 200 by the endpoint.
func ruleNoFalseSuccessAtEndpoint(w *World, r *Run, a *updAnalysis, rule string) {
	if !a.guard(r, rule) {
		return
	}
	n := 0
	for _, o := range updateOutcomes(a) {
		if o.err == "nil" {
			continue
		}
		ep, ok := endpointUnder(w, r, rule, o)
		if !ok {
			return
		}
		for _, s := range ep.sums {
			if len(calls(s, cFeederUpdate)) == 0 {
				continue
			}
			n++
			st, isConst := statusOf(s)
			key := fmt.Sprintf("%s | Update failing with (%s, %s bytes) is not answered 200", fnServeHTTP, shortGlobal(o.err), o.bytes)
			r.Check(isConst && st != "200", rule, key, w.pos(s.RetPos), "an update that the witness refused or could not store is answered "+st+" by the endpoint (false success); path: "+pathString(ep.eng, s))
		}
	}
	if n == 0 {
		r.Undecided(rule, fnServeHTTP, "", "no failing outcome of Update reaches the endpoint analysis")
	}
}

// requestPartsOK: the (old size, checkpoint, proof) handed to the witness are what was parsed from this request's body:
// the old size is the result of an integer parse of a line read from it, the checkpoint is the unmodified remainder read
// from it, every proof element is a base64 decoding of a line read from it; each producing call was found to have
// succeeded before the witness is asked.
func requestPartsOK(s Summary, u Event, reqBody *Term) (bool, string) {
	if len(u.Args) != 5 {
		return false, "the witness call has an unexpected shape"
	}
	producedOK := func(t *Term) bool {
		for _, ev := range s.Events {
			if ev.Kind == "call" && ev.Res != nil && ev.Seq < u.Seq && (res(ev, 0) == t || ev.Res == t) {
				return okBefore(s, ev, u.Seq)
			}
		}
		return false
	}
	old, cp, proof := u.Args[2], u.Args[3], u.Args[4]
	if !(old.Kind == "call" && strings.HasPrefix(old.Name, "strconv.Parse") && mentions(old, reqBody) && producedOK(old)) {
		return false, "the old size handed to the witness is not the successfully parsed size line of this request (" + short(old.String()) + ")"
	}
	if !(cp.Kind == "call" && cp.Name == "io.ReadAll" && mentions(cp, reqBody) && producedOK(cp)) {
		return false, "the checkpoint handed to the witness is not the unmodified remainder of this request's body (" + short(cp.String()) + ")"
	}
	els, ok := sliceElems(s, proof)
	if !ok && !(proof.Kind == "alloc" || proof.Kind == "nil") {
		return false, "the proof handed to the witness is not a list built from this request's proof lines (" + short(proof.String()) + ")"
	}
	for _, el := range els {
		decodedOK := el.Kind == "call" && strings.HasSuffix(el.Name, ".DecodeString") && mentions(el, reqBody) && producedOK(el)
		if !decodedOK && el.Kind == "slice" && len(el.Args) == 3 {
			// buf[:n] for n, err := enc.Decode(buf, line)
			for _, dv := range calls(s, "(*encoding/base64.Encoding).Decode") {
				if dv.Seq < u.Seq && isDecodedValue(el, dv) && mentions(dv.Args[1], reqBody) && okBefore(s, dv, u.Seq) {
					decodedOK = true
				}
			}
		}
		if !decodedOK {
			return false, "a proof element handed to the witness is not the successful base64 decoding of a line of this request (" + short(el.String()) + ")"
		}
	}
	return true, ""
}

func limiterNilOnPath(s Summary, limiter *Term) bool {
	k, isNil, _ := nilFact(s, limiter)
	return k && isNil
}

var limiterBuiltCache = map[*World]int{}

// limiterAlwaysBuilt: every path of FeedBastion that reaches the serving loop has stored the result of rate.NewLimiter in
// the handler's limiter field.
func limiterAlwaysBuilt(w *World) bool {
	if v, ok := limiterBuiltCache[w]; ok {
		return v == 1
	}
	limiterBuiltCache[w] = 0
	fn := w.fn(fnFeedBastion)
	if fn == nil {
		return false
	}
	e := w.engine(3, 1)
	e.opaque[fnConnect] = true
	n := 0
	for _, s := range e.Explore(fn) {
		for _, c := range calls(s, fnConnect) {
			n++
			found := false
			for _, a := range c.Args {
				v := structArg(c, a)
				if v == nil || v.Kind != "structval" {
					continue
				}
				for _, f := range v.Args {
					if len(f.Args) == 1 && f.Args[0] != nil && f.Args[0].Kind == "call" && strings.HasSuffix(f.Args[0].Name, "time/rate.NewLimiter") {
						found = true
					}
				}
			}
			if !found {
				return false
			}
		}
	}
	if n == 0 {
		return false
	}
	limiterBuiltCache[w] = 1
	return true
}

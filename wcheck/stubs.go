package main

type fieldRef struct{ pkg, typ, field string }

func ruleConfigKeying(w *World, r *Run, rule string)  {}
func ruleInitBeforeUse(w *World, r *Run, rule string) {}

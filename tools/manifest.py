#!/usr/bin/env python3
"""Regenerates /verif/MANIFEST.json from the table below (kept next to the checker so the two stay in step)."""
import json, sys, os

SETUP = ("cd /verif/wcheck && GOFLAGS=-mod=mod GOPROXY=off GOSUMDB=off GOTOOLCHAIN=local GOWORK=off go build -o ../bin/wcheck . "
         "&& (cd /repo && GOFLAGS=-mod=mod GOPROXY=off GOSUMDB=off GOTOOLCHAIN=local go build ./... )")

NOTE_COMMON = ("Trusted: Go type checker + go/ssa (x/tools v0.29.0); contracts of pinned dependencies named in the evidence file "
               "(ParseCheckpoint, note.Open/Sign, VerifyConsistency, database/sql, sync). Static only: nothing is executed.")

CLAIMED = {
 "C01": ("path-sensitive effect summaries over go/ssa (all paths of Update) + zone domain + who-may-call queries",
         "Decides the inductive step of the append-only invariant on every control-flow path of Update for every ordering of sizes (guarded accept, proof argument positions, single write handle, sole writer via the call graph, first use only on an exact NotFound, accepted implies committed on the composition Update∘store for both stores). Not the cryptographic/numeric validity of proofs; not histories as executions.", "5/C01"),
 "C02": ("path-sensitive provenance analysis over go/ssa (authentication dominates every use) + composition Update∘store",
         "Decides that an unknown log is refused first and that every storage call/signature/field read in Update is preceded by a successful ParseCheckpoint under exactly the configured origin and verifier of the named log; configuration map keyed by ID(origin); the bastion endpoint hands the witness the request's checkpoint bytes unmodified; on the composition with both stores the authenticated checkpoint is stored under the request's own log ID. Crypto soundness of note.Open trusted. Also: witness.New hands the configured log map, signers and store to the witness unchanged and never writes the map; the module implements no note.Verifier/Signer of its own.", "5/C02"),
 "C03": ("path-sensitive effect summaries (no Set / no leak on refusal paths) + composition Update/GetCheckpoint/GetLogs∘store + composition endpoint∘Update outcome classes",
         "Decides that no refusal path of Update can write or return anything but nil/the stored bytes, that on the composed paths with either store a refusal leaves the store untouched and read paths never mutate and return only what the database/the map holds (no state outside the store), that requests the endpoint refuses (429/400/404) never reach the witness, and that the endpoint never writes through the bytes the witness returned. Does not compare runtime byte values. Also: the error returned for a refused update is never formatted from the cosigned bytes, non-200 answers carry no text from the witness, and the adapter passes the witness's results through.", "5/C03"),
 "C04": ("value-identity (provenance) analysis over path summaries + handler-verbatim rule",
         "Decides returned==stored==Sign(verified note, all signers) on every success path, no short-circuit, reads verbatim from the store and through the HTTP read handler, SQL success only through Commit. Signature validity and timestamp value are trusted to x/mod note and formats/note. Also: nothing is appended or copied into the backing array of a stored checkpoint (earlier reads alias it), and the bundled client returns the whole body of a 200 answer.", "5/C04"),
 "C05": ("lockset + compare-and-set with lock epochs + transaction-scope + immutability analyses on the compositions root∘concrete store",
         "Necessary structural conditions only (level other): on Update/GetCheckpoint/GetLogs composed with the in-memory store every map access is under the lock (writes under the exclusive lock, released on all exits, no re-entrant locking) and the map is written only after re-reading the same key inside the writing critical section and finding it equal to the snapshot taken when the write operation was opened; composed with SQL: read/exec/commit/rollback on one transaction keyed by the request's log ID; first use only on affirmative absence; no nested storage access; package variables assigned only at init/Once; checkpoint bytes never modified in place. Linearizability itself, SQLite isolation and schedules are not explored.", "5/C05"),
 "C06": ("ordering (must-pass-through) analysis over path summaries + SQL statement tokenizer (writer/reader agreement)",
         "Necessary structural conditions only: success only after Commit of a single upsert on the handle's transaction (per function and on Update∘sql: Begin→QueryRow→Exec→Commit→return→Rollback); no autocommit mutation; reads served from the durable store only. SQLite's crash atomicity is trusted; crash points are not explored.", "5/C06"),
 "C07": ("error-discipline analysis over path summaries of Update and of the compositions with both stores, the adapter and the endpoint",
         "Decides the error discipline on every path: TOFU only on affirmative absence (sql.ErrNoRows / missing map entry), Close at every exit and a transaction begun is rolled back at exit on every path, no dropped database/sql error, no nested storage access, reads served from committed state only, the adapter maps only NotFound to os.ErrNotExist, and no failing outcome of Update is answered 200 by the endpoint. Does not exercise database/sql's pool under faults.", "5/C07"),
 "C08": ("typestate rule (stored value must be re-openable) + honest-step completeness over order classes of the path summaries + endpoint limiter/pre-check rules",
         "Necessary conditions of the liveness claim (level other): nothing stored can be unreadable by the witness's own reader; no ordering class of (stored, submitted) size is a dead end for an honest request and acceptance follows from honesty alone (no extra predicate, no state outside the store); refusals release the storage connection; the endpoint consults its limiter exactly once through Allow and hands honest requests to the witness unmodified. K1 (stored size 0 < submitted) is a known finding. Histories are not enumerated.", "5/C08"),
 "C09": ("exhaustive decision table over a finite order abstraction (weak orderings x predicate valuations) of the path summaries + endpoint composition",
         "Decides that every abstract cell (known, signature, stored, ordering of 0/old/stored/submitted sizes, rootEq, proofOK, proofEmpty) is answered by exactly one fault-free path with the outcome the first-match table prescribes; that verdicts branch only on the request, the configuration and the checkpoint read in this call (no hidden state); that first use needs affirmative absence; that every sentinel the witness returns has its own answer at the endpoint. The proof verdict is an uninterpreted boolean tied to VerifyConsistency's contract.", "5/C09"),
 "C10": ("composition: ServeHTTP explored once per outcome class of the real Update (witness call answered by the class, helpers inlined) against the protocol status table",
         "Decides the endpoint's verdict-to-status mapping composed with the real Update's outcome classes whatever way the handler is split or the table is written (switch, map, helper structs), limiter-first, exactly one documented constant status per path, 200 only for a committed, freshly cosigned checkpoint and with a body built from signatures verified under the witness key, stale 409 with the decimal current size, the pre-checks, strict decimal old size, metric labels free of request bytes, witness bytes never written through. Transport, crypto validity of the cosignature and the limiter's rate are not decided.", "5/C10"),
 "C11": ("sibling agreement (writer vs reader) over path summaries + refusal-totality + disallowed-call query",
         "Narrow structural claim (level other): same base64 object/terminator/prefix in writers and readers, error returns carry nothing else, success only after the blank separator, strict whole-string integer parsing, order-preserving element construction, an ownership rule (a bufio ReadLine view is never retained un-copied), unbounded line split, and the reader's framing conditions decided on the writer's output templates for 0/1/2 hashes (reported F7, fixed). Round-trip equality of values is not decided.", "5/C11"),
 "C13": ("provenance analysis over the path summaries of FeedOnce with the retried operation inlined (captured variables it assigns are carried-over unknowns)",
         "Decides verify-before-submit, anchoring of old size and proof to the witness's latest of the same attempt (nothing is reused from an earlier attempt), never-when-ahead, retry bound to the context, result pass-through, adapter mapping, no leaked transaction behind the witness. Retry convergence and timing are not decided. Also: fetch functions make their network calls under the context they are called with, and no closure built in FeedLog captures FeedLog's own context.", "5/C13"),
 "C15": ("provenance + implied-fact (zone) analysis over the path summaries of distributeForLog/DistributeOnce + Main wiring",
         "Decides PUT-verbatim, verify-before-PUT with exactly two verified signatures, target URL construction, success implies status == 200 with method PUT, per-log isolation and failure accounting (loop unrolled twice), counters by metric name, and that Main hands the distributor every configured log. Signature validity and net/http behaviour trusted. Also: the response of a failed request is never dereferenced.", "5/C15"),
 "C16": ("value-identity analysis over handler/client path summaries + code tables + route-pattern check against the ID alphabet",
         "Decides handler-verbatim, NotFound<->404<->os.ErrNotExist mappings on implied facts, log list = JSON of storage keys, route pattern admits every hex ID, returned==stored in Update, the shared client never writes through its receiver. Routing internals of gorilla/mux trusted. The handlers are found through the router (HandleFunc/Handle run as higher-order calls), not by name.", "5/C16"),
 "C12": ("key pass-through/provenance analysis over path summaries + sibling agreement over the feeder registry + constructor-discipline queries",
         "Decides that the request's log ID is the only key used in Update and both stores, that every origin->ID derivation is formats/log.ID(origin), that feeders/bastion/distributor use {ID, Origin, Verifier} of one config.Log, that duplicates are refused before start-up, that the origin check binds a checkpoint to its log ID, and that no cross-log mutable state exists. Executions of interleaved histories are not explored.", "5/C12"),
 "C14": ("wiring analysis over the path summaries of Main with goroutine bodies inlined (errgroup.Go as a higher-order call), Run, connectAndServe + enum exhaustiveness over the feeder registry",
         "Narrow structural claim (level other): one witness instance behind every component, every registry feeder has an implementation, each launched feeder runs as feeder(group context, its own log, the adapter around that witness, client, poll interval) with log and feeder taken from one (config.NewLog(E), E.Feeder.FeedFunc()) pair, one goroutine per pair, service loops return only on context end, first-feed proof is empty, proof builders are per call, tile URLs follow tlog's layout, the fork guard and nothing that can wedge the shared witness. Convergence, timing and restarts are not decided.", "5/C14"),
 "C17": ("configuration lint: every entry of the embedded YAML files validated against constraint sets extracted from the code on each run (incl. numeric start-up checks evaluated for 32- and 64-bit int)",
         "Exhaustive over the finite set of shipped entries: key parses (production parser), ID unique, feeder known, URL acceptable to its feeder (required parameters, schemes, integer parses on both word sizes); plus code-side exhaustiveness, abort-on-error wiring, (log, feeder) pairing, every configured log reaches the bastion/distributor list, NewLog passes the configured values through unchanged. Does not decide that the keys/URLs are the right ones. Also: if any production decoder of the configuration rejects unknown fields, every key of every shipped entry is a declared field; witness.New keeps the configured map as it is.", "5/C17"),
 "C18": ("string-template normalisation of every URL reaching the SumDB fetcher on ReadTiles∘client (Sprintf/concatenation/strconv reduced to literal, decimal and zero-padded pieces) compared with tlog's layout + plumbing analysis",
         "Narrow structural claim (level other): every tile URL is tile/<H>/<L>/[x<NNN>/]*<NNN>[.p/<W>] with H the reader's height, L and the index those of the requested tile, base-1000 digit groups emitted exactly under the matching range conditions (up to three groups explored), the partial suffix exactly for tiles narrower than 1<<H carrying t.W; height constants coherent; ProveTree arguments in position; empty-proof shortcut only for from.Size == 0; Accept-Encoding never set by hand. Proof acceptance is NOT decided. Also: read limits are positive constants; the feeder's proof is requested for the latest checkpoint of the same attempt.", "5/C18"),
 "C19": ("reachability of panic sites in the network-input call graph + zone-domain discharge of every index/slice site on every path + bounded-narrowing rule + constant checks of caps/time-outs",
         "Structural necessary conditions (level other): no reachable explicit panic, every implicit-panic instruction dominated by bounds facts or in a reasoned table, bounded size narrowing before tlog, bounded make() lengths, one status per path, 16 KiB cap, time-outs present, no request path leaves the storage connection pinned. Termination in general, memory exhaustion and dependency panics are not decided. Also: sizes handed to tlog are bounded by 2^62-1 (tlog evaluates maxpow2(size+1)); every mutex taken in the module is released on every returning path; every counter increment passes as many label values as the counter has labels; a failed response is never dereferenced.", "5/C19"),
 "C20": ("path-sensitive effect summaries: outcome-to-counter table over all paths of Update",
         "Decides exactly-once increments per outcome with counters identified by the metric name they were created with (found by running the function that only Once.Do runs), label provenance, creation only under the Once, constructors create the counters before anything else. Also: increments pass as many label values as the counter was created with.", "5/C20"),
}

NA = {
}

PENDING = "check not built yet in this revision of /verif (work in progress; see DESIGN.md section 5)"

def main():
    ids = ["C%02d" % i for i in range(1, 21)]
    claimed = json.load(open(os.path.join(os.path.dirname(__file__), "claimed.json")))
    checks = []
    na = []
    for i in ids:
        if i in claimed and i in CLAIMED:
            tech, text, ref = CLAIMED[i]
            checks.append({
                "property_id": i,
                "quick_cmd": "bin/wcheck -prop %s -tier quick" % i,
                "thorough_cmd": "bin/wcheck -prop %s -tier thorough" % i,
                "evidence_file": "/verif/evidence/%s.json" % i,
                "replay_cmd_template": "bin/wcheck -explain {path}",
                "engine": "wcheck",
                "level_claimed": {"category": "other", "text": text, "design_ref": "DESIGN.md section " + ref},
                "level_note": NOTE_COMMON,
                "technique": "static analysis: " + tech,
            })
        else:
            na.append({"property_id": i, "reason": NA.get(i, PENDING)})
    m = {
        "version": 1,
        "setup_cmd": SETUP,
        "hooks": {"guard": "verif", "enable": "none needed: static analysis reads /repo's working tree as is", "baseline_off_cmd": "cd /repo && go test -vet=off -count=1 ./...", "source_commits": [], "add_only": True},
        "engines": [{"name": "wcheck", "path": "/verif/wcheck", "serves_properties": [c["property_id"] for c in checks],
                     "kind_free_text": "repository-specific static analyser: path-sensitive effect summaries over go/ssa with inlining, zone domain for integer comparisons, type-resolved structural queries, SQL/YAML constant lints"}],
        "checks": checks,
        "notes": "All checks are static (no test, no execution of /repo code). Known findings: /verif/known_findings.json. Seeded mutants: /verif/seeded/.",
        "not_applicable": na,
    }
    json.dump(m, open("/verif/MANIFEST.json", "w"), indent=1)
    print("claimed:", [c["property_id"] for c in checks])

main()

package main

// Storage rules on composed paths (root ∘ concrete store): they do not depend on the names or shapes of the stores'
// handle types, only on the persistence interfaces, database/sql, sync and the constructors NewPersistence.

import (
	"fmt"
	"go/types"
	"strings"

	"golang.org/x/tools/go/ssa"
)

// storeType returns the concrete type that <pkg>.NewPersistence constructs.
func storeType(w *World, store string) types.Type {
	pkg := map[string]string{"inmemory": pInmem, "sql": pSQL}[store]
	fn := w.fn(pkg + ".NewPersistence")
	if fn == nil {
		return nil
	}
	e := w.engine(3, 1)
	for _, s := range e.Explore(fn) {
		if len(s.Rets) == 1 && s.Rets[0].Kind == "alloc" && s.Rets[0].Typ != nil {
			return s.Rets[0].Typ
		}
	}
	return nil
}

// memMapField: the map held by the in-memory store (its only map-typed field).
func memMapField(preset *Term) *Term {
	t := preset.Typ
	if p, ok := t.Underlying().(*types.Pointer); ok {
		t = p.Elem()
	}
	st, ok := t.Underlying().(*types.Struct)
	if !ok {
		return nil
	}
	var found *types.Var
	for i := 0; i < st.NumFields(); i++ {
		if _, isMap := st.Field(i).Type().Underlying().(*types.Map); isMap {
			if found != nil {
				return nil
			}
			found = st.Field(i)
		}
	}
	if found == nil {
		// the map kept inside a helper structure of the store (a locked-map type, possibly generic): one level down
		var hit *Term
		for i := 0; i < st.NumFields(); i++ {
			ft := st.Field(i).Type()
			if p, ok := ft.Underlying().(*types.Pointer); ok {
				ft = p.Elem()
			}
			inner, ok := ft.Underlying().(*types.Struct)
			if !ok {
				continue
			}
			for j := 0; j < inner.NumFields(); j++ {
				if _, isMap := inner.Field(j).Type().Underlying().(*types.Map); isMap {
					if hit != nil {
						return nil
					}
					hit = mk("field", inner.Field(j).Name(), 0, inner.Field(j).Type(), mk("field", st.Field(i).Name(), 0, st.Field(i).Type(), preset))
				}
			}
		}
		return hit
	}
	return mk("field", found.Name(), 0, found.Type(), preset)
}

var storeRoots = []string{fnUpdate, fnGetCheckpoint, fnGetLogs}

func isLockOp(callee string) (op string, ok bool) {
	for _, p := range []string{"(*sync.RWMutex).", "(*sync.Mutex)."} {
		if strings.HasPrefix(callee, p) {
			return strings.TrimPrefix(callee, p), true
		}
	}
	return "", false
}

// C05.b LOCKSET on every composed root of the in-memory store.
func ruleLockset(w *World, r *Run, rule string) {
	nAccess := 0
	for _, root := range storeRoots {
		c, ok := compose(w, r, rule, root, "inmemory")
		if !ok {
			continue
		}
		ck := memMapField(c.preset)
		if ck == nil {
			r.Undecided(rule, "in-memory store | checkpoint map", "", "the store does not hold exactly one map")
			return
		}
		for _, s := range c.sums {
			held := ""
			for _, ev := range s.Events {
				if ev.Kind == "call" {
					if op, isLock := isLockOp(ev.Callee); isLock && ev.Recv != nil && mentions(ev.Recv, c.preset) {
						switch op {
						case "Lock":
							r.Check(held == "", rule, root+" ∘ inmemory | no re-entrant locking", w.pos(ev.Pos), "Lock while the store's mutex is already held (self-deadlock)")
							held = "W"
						case "RLock":
							r.Check(held == "", rule, root+" ∘ inmemory | no re-entrant locking", w.pos(ev.Pos), "RLock while the store's mutex is already held")
							held = "R"
						case "Unlock":
							r.Check(held == "W", rule, root+" ∘ inmemory | Unlock pairs with Lock", w.pos(ev.Pos), "Unlock without a matching Lock on this path")
							held = ""
						case "RUnlock":
							r.Check(held == "R", rule, root+" ∘ inmemory | RUnlock pairs with RLock", w.pos(ev.Pos), "RUnlock without a matching RLock on this path")
							held = ""
						}
					}
					continue
				}
				isMap := ev.Recv == ck || (ev.Recv != nil && ev.Recv.Kind == "rangeiter" && len(ev.Recv.Args) > 0 && ev.Recv.Args[0] == ck)
				if !isMap {
					continue
				}
				switch ev.Kind {
				case "mapread", "iter":
					nAccess++
					r.Check(held != "", rule, root+" ∘ inmemory | map read under the lock", w.pos(ev.Pos), "the checkpoint map is read without holding its mutex (data race with a concurrent writer)")
				case "mapupdate", "mapdelete":
					nAccess++
					r.Check(held == "W", rule, root+" ∘ inmemory | map written under the exclusive lock", w.pos(ev.Pos), "the checkpoint map is written while holding "+map[string]string{"": "no lock", "R": "only the read lock"}[held]+" (concurrent writers race; lost updates)")
				}
			}
			r.Check(held == "", rule, root+" ∘ inmemory | lock released on every exit", w.pos(s.RetPos), "path returns with the store's mutex still held")
		}
	}
	if nAccess < 3 {
		r.Undecided(rule, "lockset", "", fmt.Sprintf("vacuity floor: only %d accesses to the checkpoint map seen", nAccess))
	}
}

// epochAt: the lock epoch (number of lock acquisitions so far) in force at event sequence number seq.
func epochAt(s Summary, seq int) int {
	n := 0
	for _, ev := range s.Events {
		if ev.Kind == "call" && ev.Seq < seq {
			if op, ok := isLockOp(ev.Callee); ok && (op == "Lock" || op == "RLock") {
				n++
			}
		}
	}
	return n
}

// epochOf returns the lock epoch of the first read of ck[key] on the path (the snapshot taken when the write operation was opened).
func firstReadEpoch(s Summary, ck, key *Term) int {
	best := -1
	for _, f := range s.Facts {
		anySub(f.T, func(t *Term) bool {
			if t.Kind == "lookup" && len(t.Args) == 2 && t.Args[0] == ck && t.Args[1] == key && (best < 0 || t.Idx < best) {
				best = t.Idx
			}
			return false
		})
		if best >= 0 {
			return best
		}
	}
	return best
}

// mapPresence: what the path established about ck[key] as of lock epoch ep — by the comma-ok result or, for maps of
// pointers (entries are never nil: checked where the map is written), by the nil-ness of the value.
func mapPresence(s Summary, ck, key *Term, ep int) (known, present bool) {
	if k, v, _ := boolFact(s, mk("lookup", "ok", ep, nil, ck, key)); k {
		return true, v
	}
	if k, isNil, _ := nilFact(s, mk("lookup", "val", ep, nil, ck, key)); k {
		return true, !isNil
	}
	return false, false
}

// C05.c COMPARE-AND-SET on Update ∘ inmemory: the map is written only if the value re-read inside the writing critical
// section equals the snapshot taken when the write operation was opened (both absent, or both present and equal).
func ruleCompareAndSet(w *World, r *Run, rule string) {
	c, ok := compose(w, r, rule, fnUpdate, "inmemory")
	if !ok {
		return
	}
	ck := memMapField(c.preset)
	if ck == nil {
		r.Undecided(rule, "in-memory store | checkpoint map", "", "the store does not hold exactly one map")
		return
	}
	nUpd := 0
	for _, s := range c.sums {
		ups := eventsOfKind(s, "mapupdate", "mapdelete")
		for _, ev := range ups {
			if ev.Recv != ck {
				continue
			}
			nUpd++
			key := fnUpdate + " ∘ inmemory | map written only when the snapshot taken at WriteOps still equals the current value"
			if ev.Kind == "mapdelete" {
				r.Fail(rule, key, w.pos(ev.Pos), "an entry of the checkpoint map is deleted")
				continue
			}
			if ev.Args[0] != c.logID {
				r.Fail(rule, fnUpdate+" ∘ inmemory | write keyed by the request's log ID", w.pos(ev.Pos), "the map is written under "+short(ev.Args[0].String())+", not under the request's log ID")
				continue
			}
			if !anySub(structArg(ev, ev.Args[1]), func(t *Term) bool { return t.Kind == "call" && t.Name == cSign && t.Idx == 1 }) {
				r.Fail(rule, fnUpdate+" ∘ inmemory | value written is the cosigned checkpoint", w.pos(ev.Pos), "the map receives "+short(structArg(ev, ev.Args[1]).String()))
				continue
			}
			e1 := firstReadEpoch(s, ck, c.logID)
			// the re-read: last lookup of the same key before the write
			e2 := -1
			for _, x := range s.Events {
				if x.Kind == "mapread" && x.Recv == ck && len(x.Args) == 1 && x.Args[0] == c.logID && x.Seq < ev.Seq {
					e2 = -2 // marker: found some read; epoch taken from facts below
				}
			}
			for _, f := range s.Facts {
				if f.Seq >= ev.Seq {
					continue
				}
				anySub(f.T, func(t *Term) bool {
					if t.Kind == "lookup" && len(t.Args) == 2 && t.Args[0] == ck && t.Args[1] == c.logID && t.Idx > e1 {
						e2 = t.Idx
					}
					return false
				})
			}
			// the re-read must belong to the critical section in which the write happens
			if eu := epochAt(s, ev.Seq); e2 > e1 && e2 != eu {
				e2 = -3
			}
			if e1 < 0 || e2 <= e1 {
				r.Fail(rule, key, w.pos(ev.Pos), "the map is written without re-reading the current value for the same key inside the writing critical section (check-then-act across critical sections: a concurrent accepted update would be lost); path: "+pathString(c.eng, s))
				continue
			}
			valT := func(ep int) *Term { return mk("lookup", "val", ep, nil, ck, c.logID) }
			k1, then := mapPresence(s, ck, c.logID, e1)
			k2, now := mapPresence(s, ck, c.logID, e2)
			if _, isPtr := ev.Args[1].Typ.(*types.Pointer); isPtr && !neverNil(ev.Args[1]) {
				r.Fail(rule, fnUpdate+" ∘ inmemory | entries of a pointer-valued checkpoint map are never nil", w.pos(ev.Pos), "the map can receive a nil entry, which readers take for 'no checkpoint'")
			}
			good := k1 && k2 && then == now
			why := "the write does not depend on whether the snapshot and the current state agree about the log having a checkpoint"
			if good && now {
				good = false
				why = "both exist but the write is not guarded by equality of the snapshot with the current value"
				for _, ce := range s.Events {
					if ce.Kind != "call" || ce.Seq > ev.Seq || len(ce.Args) != 2 {
						continue
					}
					if !(ce.Callee == "reflect.DeepEqual" || ce.Callee == cBytesEq || ce.Callee == cCTCmp) {
						continue
					}
					if k, v, _ := eqCallFact(s, ce); k && v {
						a0, a1 := ce.Args[0], ce.Args[1]
						if (mentions(a0, valT(e1)) && mentions(a1, valT(e2))) || (mentions(a1, valT(e1)) && mentions(a0, valT(e2))) {
							good = true
						}
					}
				}
				// direct == on comparable states
				if k, v, _ := eqFact(s, valT(e1), valT(e2)); k && v {
					good = true
				}
			}
			r.Check(good, rule, key, w.pos(ev.Pos), why+" (an update verified against a superseded state would be stored: lost update / regression); path: "+pathString(c.eng, s))
		}
		// every path whose storage step did not write reports a failure
		if len(ups) == 0 && len(calls(s, cSign)) > 0 && len(s.Rets) == 2 && s.Rets[1].Kind == "nil" {
			r.Fail(rule, fnUpdate+" ∘ inmemory | conflict reported as error", w.pos(s.RetPos), "an update is acknowledged although nothing was written (lost accepted update)")
		}
	}
	if nUpd == 0 {
		r.Undecided(rule, fnUpdate+" ∘ inmemory", "", "no map write on any composed path")
	}
}

// noRowsFact: the path established that a Scan error is sql.ErrNoRows.
func noRowsFact(s Summary) (scanFailed, noRows bool) {
	g := mk("global", "database/sql.ErrNoRows", 0, nil)
	for _, sc := range s.Events {
		if sc.Kind != "call" || !(sc.Callee == "(*database/sql.Row).Scan" || sc.Callee == "(*database/sql.Rows).Scan") {
			continue
		}
		if failed(s, sc) {
			scanFailed = true
		}
		if k, v, _ := eqFact(s, sc.Res, g); k && v {
			noRows = true
		}
		for _, ie := range calls(s, cErrorsIs) {
			if len(ie.Args) == 2 && ie.Args[0] == sc.Res && ie.Args[1] == g {
				if k, v, _ := boolFact(s, ie.Res); k && v {
					noRows = true
				}
			}
		}
	}
	return
}

// NOTFOUND-EXACT on composed paths: the first-use arm of Update and the NotFound answer of GetCheckpoint are reachable only
// when the store affirmatively has nothing for the log (no row / no map entry).
func ruleNotFoundExact(w *World, r *Run, rule string) {
	nf := codesConst(w, "NotFound")
	isNF := func(t *Term) (isStatus, notFound bool) {
		if t != nil && t.Kind == "call" && (t.Name == "google.golang.org/grpc/status.Error" || t.Name == "google.golang.org/grpc/status.Errorf") && len(t.Args) > 2 {
			return true, t.Args[2].Kind == "const" && t.Args[2].Name == nf
		}
		return false, false
	}
	for _, store := range []string{"sql", "inmemory"} {
		// ---- Update: first use (signing without a parsed previous checkpoint) only when the store has nothing
		if c, ok := compose(w, r, rule, fnUpdate, store); ok {
			ck := memMapField(c.preset)
			nFirst := 0
			for _, s := range c.sums {
				signs := calls(s, cSign)
				if len(signs) == 0 {
					continue
				}
				// was a stored checkpoint parsed before signing?
				parsedPrev := false
				for _, pe := range calls(s, cParse) {
					if pe.Seq < signs[0].Seq && len(pe.Args) == 4 && pe.Args[0].Kind != "param" && !(pe.Args[0].Kind == "call" && pe.Args[0].Name == cSign) && okBefore(s, pe, signs[0].Seq) {
						parsedPrev = true
					}
				}
				if parsedPrev {
					continue
				}
				nFirst++
				absent := false
				switch store {
				case "sql":
					_, absent = noRowsFact(s)
				case "inmemory":
					if ck != nil {
						e1 := firstReadEpoch(s, ck, c.logID)
						if k, v := mapPresence(s, ck, c.logID, e1); e1 >= 0 && k && !v {
							absent = true
						}
					}
				}
				r.Check(absent, rule, fnUpdate+" ∘ "+store+" | first use only when the store affirmatively holds nothing for the log", w.pos(signs[0].Pos), "a checkpoint is cosigned as first use on a path that did not establish the absence of a stored checkpoint (a read failure would look like 'nothing stored': trust-on-first-use over existing state); path: "+pathString(c.eng, s))
			}
			if nFirst == 0 {
				r.Fail(rule, fnUpdate+" ∘ "+store+" | first-use path exists", "", "no composed path accepts a first checkpoint")
			}
		}
		// ---- GetCheckpoint: NotFound status only for an absent entry; other read errors are passed on as they are
		if g, ok := compose(w, r, rule, fnGetCheckpoint, store); ok {
			ck := memMapField(g.preset)
			nNF := 0
			for _, s := range g.sums {
				if len(s.Rets) != 2 || s.Rets[1].Kind == "nil" {
					continue
				}
				isSt, notFound := isNF(s.Rets[1])
				if !isSt || !notFound {
					if store == "sql" {
						_, nr := noRowsFact(s)
						r.Check(!nr, rule, fnGetCheckpoint+" ∘ sql | no-rows reported as NotFound", w.pos(s.RetPos), "sql.ErrNoRows is returned without a NotFound status (first use would never be possible; the read API would answer 500 instead of 404)")
					}
					continue
				}
				nNF++
				absent := false
				switch store {
				case "sql":
					_, absent = noRowsFact(s)
				case "inmemory":
					if ck != nil {
						e1 := firstReadEpoch(s, ck, g.logID)
						if k, v := mapPresence(s, ck, g.logID, e1); e1 >= 0 && k && !v {
							absent = true
						}
					}
				}
				r.Check(absent, rule, fnGetCheckpoint+" ∘ "+store+" | NotFound only when nothing is stored", w.pos(s.RetPos), "a NotFound status is produced on a path that did not establish the absence of the entry: any read failure would look like 'no previous checkpoint' (404 / os.ErrNotExist / trust-on-first-use); path: "+pathString(g.eng, s))
			}
			if nNF == 0 {
				r.Fail(rule, fnGetCheckpoint+" ∘ "+store+" | NotFound path exists", "", "no composed path reports NotFound for an absent entry")
			}
		}
	}
}

// C06.a / C04.a: on Update ∘ sql success is acknowledged only after a successful Commit of the statement (also in ruleComposedSQL).
func ruleCommitBeforeAck(w *World, r *Run, rule string) {
	ruleComposedSQL(w, r, rule)
}

// Close == Rollback on every path that began a transaction (checked on the composition).
func ruleCloseIsRollback(w *World, r *Run, rule string) {
	ruleComposedSQL(w, r, rule)
}

func ruleNoLeakedTx(w *World, r *Run, rule string) {
	ruleComposedSQL(w, r, rule)
}

// C03.c STORAGE-REFUSAL: refusal paths of Update write nothing in either store; read roots never mutate.
func ruleStorageRefusal(w *World, r *Run, rule string) {
	ruleComposedSQL(w, r, rule)
	for _, store := range []string{"sql", "inmemory"} {
		if c, ok := compose(w, r, rule, fnUpdate, store); ok {
			for _, s := range c.sums {
				if len(s.Rets) != 2 || s.Rets[1].Kind == "nil" {
					continue
				}
				// refusal: no committed statement, no map write
				committed := false
				for _, ev := range s.Events {
					if m, onTx, _ := sqlMethod(ev); onTx && m == "Commit" && !failed(s, ev) {
						committed = true
					}
					if ev.Kind == "mapupdate" || ev.Kind == "mapdelete" {
						if mf := memMapField(c.preset); mf != nil && ev.Recv == mf {
							committed = true
						}
					}
				}
				r.Check(!committed, rule, fnUpdate+" ∘ "+store+" | a refusal leaves the store untouched", w.pos(s.RetPos), "an update that is reported as refused has written to the store; path: "+pathString(c.eng, s))
			}
		}
		for _, root := range []string{fnGetCheckpoint, fnGetLogs} {
			if c, ok := compose(w, r, rule, root, store); ok {
				clean := true
				for _, s := range c.sums {
					for _, ev := range s.Events {
						m, onTx, onDB := sqlMethod(ev)
						mut := ev.Kind == "mapupdate" || ev.Kind == "mapdelete" || ((onTx || onDB) && (strings.HasPrefix(m, "Exec") || m == "Commit" || strings.HasPrefix(m, "Begin")))
						if mut {
							clean = false
							r.Fail(rule, root+" ∘ "+store+" | read paths perform no mutation", w.pos(ev.Pos), short(root)+" mutates storage ("+ev.Kind+" "+short(ev.Callee)+")")
						}
					}
				}
				if clean {
					r.Pass(rule, root+" ∘ "+store+" | read paths perform no mutation", "", "")
				}
			}
		}
	}
}

// C07.c (storage layer): no database/sql error is dropped on a composed path.
func ruleStorageErrDiscipline(w *World, r *Run, rule string) {
	n := 0
	for _, root := range storeRoots {
		c, ok := compose(w, r, rule, root, "sql")
		if !ok {
			continue
		}
		for _, s := range c.sums {
			if len(s.Rets) == 0 {
				continue
			}
			last := s.Rets[len(s.Rets)-1]
			for _, ev := range s.Events {
				if ev.Kind != "call" || ev.AtExit || !strings.Contains(ev.Callee, "database/sql.") || ev.Res == nil {
					continue
				}
				er := errRes(ev)
				if er == nil || !isErrorType(er.Typ) {
					continue
				}
				n++
				key := root + " ∘ sql | error of " + short(ev.Callee) + " not dropped"
				k, isNil, _ := nilFact(s, er)
				if last.Kind == "nil" {
					if !(k && isNil) && strings.HasSuffix(ev.Callee, ").Scan") {
						// the one error that is an answer, not a failure: no row for this log (first use); being sql.ErrNoRows
						// implies being non-nil, whether or not the code tested that first
						if _, nr := noRowsFact(s); nr {
							r.Pass(rule, key, w.pos(ev.Pos), "")
							continue
						}
					}
					r.Check(k && isNil, rule, key, w.pos(ev.Pos), "success is returned although the error of "+short(ev.Callee)+" was never found nil; path: "+pathString(c.eng, s))
				} else {
					r.Pass(rule, key, w.pos(ev.Pos), "")
				}
			}
		}
	}
	if n < 6 {
		r.Undecided(rule, "SQL error discipline", "", fmt.Sprintf("vacuity floor: only %d fallible SQL calls seen on the composed paths", n))
	}
}

// C03.d LOGS-FROM-KEYS on GetLogs ∘ store.
func ruleLogsFromKeys(w *World, r *Run, rule string) {
	if c, ok := compose(w, r, rule, fnGetLogs, "inmemory"); ok {
		ck := memMapField(c.preset)
		for _, s := range c.sums {
			if len(s.Rets) != 2 || s.Rets[1].Kind != "nil" {
				continue
			}
			good := ck != nil
			var walk func(t *Term)
			walk = func(t *Term) {
				switch t.Kind {
				case "append":
					walk(t.Args[0])
					for _, el := range t.Args[1:] {
						if el.Kind == "varargs" {
							for _, x := range el.Args {
								walk(x)
							}
						} else {
							walk(el)
						}
					}
				case "rangekey":
					if !(t.Args[0].Kind == "rangeiter" && t.Args[0].Args[0] == ck) {
						good = false
					}
				case "alloc", "nil", "zero":
				case "call":
					// slices.AppendSeq(dst, maps.Keys(m)), slices.Collect(maps.Keys(m)), slices.Sorted(...)
					okc := false
					switch {
					case strings.HasPrefix(t.Name, "maps.Keys"):
						okc = len(t.Args) == 3 && t.Args[2] == ck
					case strings.HasPrefix(t.Name, "slices."):
						okc = true
						for _, x := range t.Args[2:] {
							if x != nil {
								walk(x)
							}
						}
					}
					if !okc {
						good = false
					}
				default:
					good = false
				}
			}
			walk(s.Rets[0])
			r.Check(good, rule, fnGetLogs+" ∘ inmemory | list built from the map's keys only", w.pos(s.RetPos), "the in-memory log list contains something other than keys of the checkpoint map: "+short(s.Rets[0].String()))
		}
	}
	if c, ok := compose(w, r, rule, fnGetLogs, "sql"); ok {
		for _, s := range c.sums {
			if len(s.Rets) != 2 || s.Rets[1].Kind != "nil" {
				continue
			}
			good := true
			anySub(s.Rets[0], func(t *Term) bool {
				if t.Kind == "append" {
					for _, el := range t.Args[1:] {
						if el.Kind == "varargs" {
							for _, x := range el.Args {
								if !(x.Kind == "out" && x.Args[0].Kind == "call" && x.Args[0].Name == "(*database/sql.Rows).Scan") {
									good = false
								}
							}
						}
					}
				}
				if t.Kind == "param" && t != c.recv {
					good = false
				}
				return false
			})
			r.Check(good, rule, fnGetLogs+" ∘ sql | list built from scanned rows only", w.pos(s.RetPos), "the SQL log list contains an element that does not come from rows.Scan: "+short(s.Rets[0].String()))
		}
	}
	// the witness returns the store's list unchanged
	if sums, _, ok := explore(w, r, rule, fnGetLogs, 4, 1); ok {
		fn := w.fn(fnGetLogs)
		lsp := fieldByType(recvParam(fn), "persistence.LogStatePersistence")
		for _, s := range sums {
			lc := calls(s, cLogs)
			good := len(lc) == 1 && lc[0].Recv == lsp && len(s.Rets) == 2 && s.Rets[0] == res(lc[0], 0) && s.Rets[1] == res(lc[0], 1)
			r.Check(good, rule, fnGetLogs+" | returns the store's key list unchanged", w.pos(s.RetPos), "GetLogs does not return lsp.Logs() unchanged")
		}
	}
}

var _ = ssa.Function{}

func ifaceMethod(w *World, pkg, iface, meth string) *types.Func {
	o := w.lookup(pkg, iface)
	if o == nil {
		return nil
	}
	it, ok := o.Type().Underlying().(*types.Interface)
	if !ok {
		return nil
	}
	for i := 0; i < it.NumMethods(); i++ {
		if it.Method(i).Name() == meth {
			return it.Method(i)
		}
	}
	return nil
}

func structFieldVar(t types.Type, name string) *types.Var {
	if p, ok := t.Underlying().(*types.Pointer); ok {
		t = p.Elem()
	}
	st, ok := t.Underlying().(*types.Struct)
	if !ok {
		return nil
	}
	for i := 0; i < st.NumFields(); i++ {
		if st.Field(i).Name() == name {
			return st.Field(i)
		}
	}
	return nil
}

package main

// Interface seams. A module-declared interface that only narrows another interface (a value of type persistence.
// LogStatePersistence kept in a field of type logStateStore; feeder.Witness split into a reader and an updater half) or
// that only ever receives values of one concrete type (HTTPDoer <- *http.Client; CheckpointSource <- *witness.Witness)
// does not change which method runs. Calls through such an interface are named after — or resolved to — what flows into
// it, so that the rules keep seeing (persistence.LogStatePersistence).WriteOps, (feeder.Witness).Update,
// (*net/http.Client).Do. The flow is read off the conversions in production code (MakeInterface / ChangeInterface).

import (
	"go/types"
	"strings"

	"golang.org/x/tools/go/ssa"
)

type ifaceSrc struct {
	ifaces map[string]types.Type
	conc   map[string]types.Type
}

var ifaceFlowCache = map[*World]map[string]*ifaceSrc{}

func moduleNamedIface(t types.Type) bool {
	n, ok := t.(*types.Named)
	if !ok || n.Obj() == nil || n.Obj().Pkg() == nil || !strings.HasPrefix(n.Obj().Pkg().Path(), modPath) {
		return false
	}
	_, isIface := n.Underlying().(*types.Interface)
	return isIface
}

func (w *World) ifaceSources() map[string]*ifaceSrc {
	if c, ok := ifaceFlowCache[w]; ok {
		return c
	}
	out := map[string]*ifaceSrc{}
	get := func(t types.Type) *ifaceSrc {
		k := types.TypeString(t, nil)
		if out[k] == nil {
			out[k] = &ifaceSrc{ifaces: map[string]types.Type{}, conc: map[string]types.Type{}}
		}
		return out[k]
	}
	for _, fn := range w.modFns {
		if !w.isProd(fn) {
			continue
		}
		for _, b := range fn.Blocks {
			for _, in := range b.Instrs {
				switch x := in.(type) {
				case *ssa.ChangeInterface:
					if moduleNamedIface(x.Type()) {
						if k, isConst := x.X.(*ssa.Const); isConst && k.Value == nil {
							continue // var _ J = I(nil): an assertion, not a value
						}
						get(x.Type()).ifaces[types.TypeString(x.X.Type(), nil)] = x.X.Type()
					}
				case *ssa.MakeInterface:
					if moduleNamedIface(x.Type()) {
						get(x.Type()).conc[types.TypeString(x.X.Type(), nil)] = x.X.Type()
					}
				}
			}
		}
	}
	ifaceFlowCache[w] = out
	return out
}

// ifaceFlow: for a module-declared interface J, the single interface all its values are narrowed from, or the single
// concrete type all its values are made from (nil, nil when there is no such single source).
func (w *World) ifaceFlow(j types.Type) (types.Type, types.Type) {
	if !moduleNamedIface(j) {
		return nil, nil
	}
	src := w.ifaceSources()[types.TypeString(j, nil)]
	if src == nil {
		return nil, nil
	}
	switch {
	case len(src.ifaces) == 1 && len(src.conc) == 0:
		for _, t := range src.ifaces {
			if _, named := t.(*types.Named); named {
				return t, nil
			}
		}
	case len(src.ifaces) == 0 && len(src.conc) == 1:
		for _, t := range src.conc {
			return nil, t
		}
	}
	return nil, nil
}

// ifaceMethodName: the canonical name of method m invoked on a value of static type t: the interface the value is declared
// as, not the (possibly embedded) interface that declares the method — feeder.Witness embedding a reader and an updater half
// still has "(feeder.Witness).Update".
func ifaceMethodName(t types.Type, m *types.Func) string {
	full := m.FullName()
	if knownIfaceMethods[full] {
		return full // the rules name this method after the interface that declares it (LogStateReadOps.GetLatest through a write handle)
	}
	if n, ok := t.(*types.Named); ok && n.Obj() != nil && n.Obj().Pkg() != nil && n.TypeArgs().Len() == 0 {
		if _, isIface := n.Underlying().(*types.Interface); isIface {
			return "(" + n.Obj().Pkg().Path() + "." + n.Obj().Name() + ")." + m.Name()
		}
	}
	return m.FullName()
}

// knownIfaceMethods: the interface methods the rules refer to by name. A call is named after one of these whenever it can be
// (declaring interface or static type), and interfaces the rules know are never renamed or devirtualised by flow.
var knownIfaceMethods = map[string]bool{
	cWriteOps: true, cReadOps: true, cLogs: true, cInit: true, cGetLatest: true, cSet: true, cClose: true, cInc: true,
	cFeederUpdate: true, cFeederGetLatest: true, cRestGetLatest: true, cGetData: true,
	"(" + pMon + ".MetricFactory).NewCounter": true,
}

// Function-valued fields with a default (s.statusFor = httpForCode unless an option replaces it; w.sign = note.Sign). When
// every assignment to the field that production code can execute stores the same named function, a call through the field
// is a call of that function. Assignments inside functions that production code never references (an option constructor
// that only tests use, and the closure it returns) do not count.

var fieldFuncCache = map[*World]map[string]*ssa.Function{}

func (w *World) prodReferenced() map[*ssa.Function]bool {
	ref := map[*ssa.Function]bool{}
	for _, fn := range w.modFns {
		if !w.isProd(fn) {
			continue
		}
		for _, b := range fn.Blocks {
			for _, in := range b.Instrs {
				for _, op := range in.Operands(nil) {
					if op == nil || *op == nil {
						continue
					}
					switch x := (*op).(type) {
					case *ssa.Function:
						if x != fn {
							ref[x] = true
						}
					case *ssa.MakeClosure:
						if f, ok := x.Fn.(*ssa.Function); ok {
							ref[f] = true
						}
					}
				}
				if mc, ok := in.(*ssa.MakeClosure); ok {
					if f, ok := mc.Fn.(*ssa.Function); ok {
						ref[f] = true
					}
				}
			}
		}
	}
	return ref
}

// prodDead: nothing in production code refers to the function (or, for a closure, to the function that creates it).
func (w *World) prodDead(fn *ssa.Function, ref map[*ssa.Function]bool) bool {
	top := outermost(fn)
	if top.Name() == "init" || top.Name() == "main" || top.Signature.Recv() != nil {
		return false
	}
	// exported API of a package outside internal/ may be called by other modules
	if p := pkgPathOf(top); !strings.Contains(p, "/internal/") && !strings.HasSuffix(p, "/internal") && !strings.Contains(p, "/cmd/") && top.Object() != nil && top.Object().Exported() {
		return false
	}
	return !ref[top]
}

func (w *World) fieldFuncDefaults() map[string]*ssa.Function {
	if c, ok := fieldFuncCache[w]; ok {
		return c
	}
	ref := w.prodReferenced()
	out := map[string]*ssa.Function{}
	bad := map[string]bool{}
	for _, fn := range w.modFns {
		if !w.isProd(fn) || w.prodDead(fn, ref) {
			continue
		}
		for _, b := range fn.Blocks {
			for _, in := range b.Instrs {
				st, ok := in.(*ssa.Store)
				if !ok {
					continue
				}
				fa, ok := st.Addr.(*ssa.FieldAddr)
				if !ok {
					continue
				}
				fv := fieldOfAddr(fa)
				if _, isFunc := fv.Type().Underlying().(*types.Signature); !isFunc {
					continue
				}
				k := typeStr(fa.X.Type().Underlying().(*types.Pointer).Elem()) + "." + fv.Name()
				v := st.Val
				if ct, ok := v.(*ssa.ChangeType); ok {
					v = ct.X
				}
				f, isFn := v.(*ssa.Function)
				if !isFn {
					if k2, isConst := v.(*ssa.Const); isConst && k2.Value == nil {
						continue // zeroing
					}
					bad[k] = true
					continue
				}
				if prev, dup := out[k]; dup && prev != f {
					bad[k] = true
				}
				out[k] = f
			}
		}
	}
	for k := range bad {
		delete(out, k)
	}
	fieldFuncCache[w] = out
	return out
}

// fieldFuncDefault: the function a call through the loaded field value v runs, if the field has a single default.
func (w *World) fieldFuncDefault(v ssa.Value) *ssa.Function {
	var st types.Type
	var name string
	switch x := v.(type) {
	case *ssa.UnOp:
		fa, ok := x.X.(*ssa.FieldAddr)
		if !ok {
			return nil
		}
		st, name = fa.X.Type().Underlying().(*types.Pointer).Elem(), fieldOfAddr(fa).Name()
	case *ssa.Field:
		s, ok := x.X.Type().Underlying().(*types.Struct)
		if !ok {
			return nil
		}
		st, name = x.X.Type(), s.Field(x.Field).Name()
	default:
		return nil
	}
	return w.fieldFuncDefaults()[typeStr(st)+"."+name]
}

// Constant-valued fields with a default (d.pathFormat = HTTPCheckpointByWitness unless an option replaces it): when every
// assignment production code can execute stores the same constant, and every structure of that type built in production
// code assigns the field, a read of the field through an unknown receiver is that constant.

var fieldConstCache = map[*World]map[string]*ssa.Const{}

func (w *World) fieldConstDefaults() map[string]*ssa.Const {
	if c, ok := fieldConstCache[w]; ok {
		return c
	}
	ref := w.prodReferenced()
	out := map[string]*ssa.Const{}
	bad := map[string]bool{}
	// structures built in production code: which fields each construction assigns
	type site struct{ assigned map[string]bool }
	sites := map[string][]*site{}
	for _, fn := range w.modFns {
		if !w.isProd(fn) || w.prodDead(fn, ref) {
			continue
		}
		bySite := map[*ssa.Alloc]*site{}
		for _, b := range fn.Blocks {
			for _, in := range b.Instrs {
				if al, ok := in.(*ssa.Alloc); ok {
					if _, isStruct := al.Type().Underlying().(*types.Pointer).Elem().Underlying().(*types.Struct); isStruct {
						st := &site{assigned: map[string]bool{}}
						bySite[al] = st
						k := typeStr(al.Type().Underlying().(*types.Pointer).Elem())
						sites[k] = append(sites[k], st)
					}
				}
			}
		}
		for _, b := range fn.Blocks {
			for _, in := range b.Instrs {
				st, ok := in.(*ssa.Store)
				if !ok {
					continue
				}
				fa, ok := st.Addr.(*ssa.FieldAddr)
				if !ok {
					// a whole structure stored over the allocation (x = T{...} through a value): fields unknown
					if al, ok := st.Addr.(*ssa.Alloc); ok && bySite[al] != nil {
						if _, zero := st.Val.(*ssa.Const); zero {
							bySite[al].assigned["*"] = true
						} else {
							// a copy of an existing value (a parameter spilled to memory, a result kept in a local): not a
							// construction
							bySite[al].assigned["copy"] = true
						}
					}
					continue
				}
				fv := fieldOfAddr(fa)
				if al, ok := fa.X.(*ssa.Alloc); ok && bySite[al] != nil {
					bySite[al].assigned[fv.Name()] = true
				}
				if _, isFunc := fv.Type().Underlying().(*types.Signature); isFunc {
					continue
				}
				if _, isBasic := fv.Type().Underlying().(*types.Basic); !isBasic {
					continue
				}
				k := typeStr(fa.X.Type().Underlying().(*types.Pointer).Elem()) + "." + fv.Name()
				c, isConst := st.Val.(*ssa.Const)
				if !isConst || c.Value == nil {
					bad[k] = true
					continue
				}
				if prev, dup := out[k]; dup && prev.Value.ExactString() != c.Value.ExactString() {
					bad[k] = true
				}
				out[k] = c
			}
		}
	}
	for k := range out {
		i := strings.LastIndex(k, ".")
		for _, st := range sites[k[:i]] {
			if st.assigned["copy"] && !st.assigned["*"] {
				continue
			}
			if !st.assigned[k[i+1:]] || st.assigned["*"] {
				bad[k] = true
			}
		}
		if len(sites[k[:i]]) == 0 {
			bad[k] = true
		}
	}
	for k := range bad {
		delete(out, k)
	}
	fieldConstCache[w] = out
	return out
}

func (w *World) fieldConstDefault(fa *ssa.FieldAddr) *ssa.Const {
	return w.fieldConstDefaults()[typeStr(fa.X.Type().Underlying().(*types.Pointer).Elem())+"."+fieldOfAddr(fa).Name()]
}

// variadicUnused: every production call of fn passes nothing for its variadic parameter (functional options that only
// tests use).
func (w *World) variadicUnused(fn *ssa.Function) bool {
	n := 0
	last := len(fn.Params) - 1
	for _, cf := range w.modFns {
		if !w.isProd(cf) {
			continue
		}
		for _, b := range cf.Blocks {
			for _, in := range b.Instrs {
				c, ok := in.(ssa.CallInstruction)
				if !ok || c.Common().StaticCallee() != fn {
					continue
				}
				n++
				args := c.Common().Args
				if last >= len(args) {
					return false
				}
				k, isConst := args[last].(*ssa.Const)
				if !isConst || k.Value != nil {
					return false
				}
			}
		}
	}
	return n > 0
}

func (w *World) fieldConstByName(structType, field string) *ssa.Const {
	return w.fieldConstDefaults()[structType+"."+field]
}

package main

// Wiring and configuration-side rules: C02.c, C12.c-e, C14.a-c, C20.d, CONSTRUCTOR-DISCIPLINE.

import (
	"fmt"
	"go/types"
	"os"
	"sort"
	"strings"

	"golang.org/x/tools/go/ssa"
)

const (
	fnAsLogMap    = "(" + pOmni + ".LogConfig).AsLogMap"
	fnNewLog      = pConfig + ".NewLog"
	fnMain        = pOmni + ".Main"
	fnFeedFunc    = "(" + pOmni + ".Feeder).FeedFunc"
	fnParseFeeder = pOmni + ".ParseFeeder"
	fnRunDist     = pOmni + ".runRestDistributors"
	fnNewServer   = pIHTTP + ".NewServer"
	cNewVerifier  = "github.com/transparency-dev/formats/note.NewVerifier"
	cGroupGo      = "(*golang.org/x/sync/errgroup.Group).Go"
)

var feederPkgs = []string{"serverless", "sumdb", "pixelbt", "rekor", "tiles"}

// ---------------------------------------------------------------- C02.c / C12.d

func ruleConfigKeying(w *World, r *Run, rule string) {
	sums, e, ok := explore(w, r, rule, fnAsLogMap, 4, 2)
	if !ok {
		return
	}
	nIns := 0
	resT := w.fn(fnAsLogMap).Signature.Results().At(0).Type()
	// tests on a look-up keyed by a log ID, and what the path did under each polarity (for C12.d, see below)
	type arm struct{ refused, inserted bool }
	arms := map[string]*arm{}
	armKey := func(t *Term, pos bool) string { return fmt.Sprintf("%s|%v", t.key, pos) }
	for _, s := range sums {
		refused := len(s.Rets) == 2 && neverNil(s.Rets[1]) && s.Rets[0].Kind == "nil"
		for _, f := range s.Facts {
			if anySub(f.T, func(t *Term) bool { return t.Kind == "lookup" && t.Args[1].Kind == "call" && t.Args[1].Name == cLogID }) {
				a := arms[armKey(f.T, f.Pos)]
				if a == nil {
					a = &arm{}
					arms[armKey(f.T, f.Pos)] = a
				}
				if refused {
					a.refused = true
				} else {
					a.inserted = true
				}
			}
		}
	}
	for _, s := range sums {
		for _, mu := range eventsOfKind(s, "mapupdate") {
			if mu.Recv == nil || mu.Recv.Typ == nil || !types.Identical(mu.Recv.Typ, resT) {
				continue // an auxiliary index, not the map handed to the witness
			}
			nIns++
			key := fnAsLogMap + " | entry = ID(E.Origin) -> {verifier of E.PublicKey, E.Origin} for one element E"
			k, v := mu.Args[0], mu.Args[1]
			good := k.Kind == "call" && k.Name == cLogID && len(k.Args) == 3 && k.Args[2].Kind == "field" && k.Args[2].Name == "Origin"
			var el *Term
			if good {
				el = k.Args[2].Args[0]
				good = v.Kind == "structval"
			}
			if good {
				var sigv, org *Term
				for _, f := range v.Args {
					switch f.Name {
					case "SigV":
						sigv = f.Args[0]
					case "Origin":
						org = f.Args[0]
					}
				}
				good = org == mk("field", "Origin", 0, nil, el) && sigv != nil && sigv.Kind == "call" && sigv.Name == cNewVerifier && sigv.Idx == 1 &&
					sigv.Args[2] == mk("field", "PublicKey", 0, nil, el)
				if good {
					// NewVerifier's error was found nil before the insertion
					er := mk("call", sigv.Name, 2, nil, sigv.Args...)
					kk, isNil, sq := nilFact(s, er)
					good = kk && isNil && sq < mu.Seq
				}
			}
			r.Check(good, rule, key, w.pos(mu.Pos), "the witness's log map gets an entry whose key, verifier and origin do not come from one and the same configured log: key="+short(k.String())+" value="+short(v.String()))
			// C12.d: insertion only on the not-found arm of a lookup with the same key
			okT := mk("lookup", "ok", 0, nil, mu.Recv, k)
			kk, found, sq := boolFact(s, okT)
			unique := kk && !found && sq < mu.Seq
			if !unique {
				// or: the insertion is dominated by a test on a look-up of this very ID in an index of the configured IDs,
				// and the other outcome of that same test refuses the configuration
				for _, f := range s.Facts {
					if f.Seq < mu.Seq && anySub(f.T, func(t *Term) bool { return t.Kind == "lookup" && t.Args[1] == k }) {
						if o := arms[armKey(f.T, !f.Pos)]; o != nil && o.refused && !o.inserted {
							unique = true
						}
					}
				}
			}
			r.Check(unique, "C12.d", fnAsLogMap+" | insertion only when the ID is not taken yet", w.pos(mu.Pos), "an entry is inserted without having established that no other configured log has this ID (two logs sharing an ID would silently overwrite each other); path: "+pathString(e, s))
		}
		// the colliding arm returns an error
		for _, f := range s.Facts {
			if f.T.Kind == "lookup" && f.T.Name == "ok" && f.Pos && f.T.Args[1].Kind == "call" && f.T.Args[1].Name == cLogID && f.T.Args[0].Typ != nil && types.Identical(f.T.Args[0].Typ, resT) {
				r.Check(len(s.Rets) == 2 && neverNil(s.Rets[1]) && s.Rets[0].Kind == "nil", "C12.d", fnAsLogMap+" | colliding IDs are refused", w.pos(s.RetPos), "a colliding log ID does not make AsLogMap fail")
			}
		}
	}
	if nIns == 0 {
		r.Undecided(rule, fnAsLogMap, "", "no insertion found")
	}
}

// ---------------------------------------------------------------- C12.c ID-DERIVATION

func ruleIDDerivation(w *World, r *Run, rule string) {
	// every call of formats/log.ID in production code derives the ID from an origin
	n := 0
	// derivations inside the endpoint and inside AsLogMap (incl. their helpers) have their argument's provenance checked on
	// the path summaries (C10.e: ID of the checkpoint's first line; C02.c: ID of the entry's origin)
	var pathChecked map[*ssa.Function]bool
	{
		var roots []*ssa.Function
		for _, nm := range []string{fnServeHTTP, fnAsLogMap} {
			if f := w.fn(nm); f != nil {
				roots = append(roots, f)
			}
		}
		pathChecked = reachableModule(w, roots)
	}
	for _, fn := range w.prodFns() {
		for _, b := range fn.Blocks {
			for _, in := range b.Instrs {
				c, ok := in.(ssa.CallInstruction)
				if !ok {
					continue
				}
				sc := c.Common().StaticCallee()
				if sc == nil || funcName(sc) != cLogID {
					continue
				}
				n++
				host := funcNameOrSSA(outermost(fn))
				key := host + " | log ID derived from the origin"
				arg := c.Common().Args[0]
				switch {
				case host == fnNewLog:
					p := w.fn(fnNewLog).Params[0]
					r.Check(arg == ssa.Value(p), rule, key, w.pos(in.Pos()), "config.NewLog derives the ID from something other than its origin parameter")
				case w.fn(fnNewLog) != nil && w.onlyReachableFrom(fn, map[*ssa.Function]bool{w.fn(fnNewLog): true}):
					r.Pass(rule, key, w.pos(in.Pos()), "") // a helper private to config.NewLog: the value it builds is checked on NewLog's paths (NEWLOG-SHAPE)
				case pathChecked[outermost(fn)] && (pkgPathOf(fn) == pBastion || pkgPathOf(fn) == pOmni):
					r.Pass(rule, key, w.pos(in.Pos()), "") // argument provenance checked by C02.c / C10.e on the path summaries
				default:
					// a new derivation site: accept only a field named Origin
					okf := false
					if u, ok := arg.(*ssa.UnOp); ok {
						if fa, ok := u.X.(*ssa.FieldAddr); ok && fieldOfAddr(fa).Name() == "Origin" {
							okf = true
						}
					}
					if f, ok := arg.(*ssa.Field); ok {
						if st, ok := f.X.Type().Underlying().(*types.Struct); ok && st.Field(f.Field).Name() == "Origin" {
							okf = true
						}
					}
					if okf {
						r.Pass(rule, key, w.pos(in.Pos()), "")
					} else {
						r.Undecided(rule, key, w.pos(in.Pos()), "new log-ID derivation site whose argument is not recognisably an origin")
					}
				}
			}
		}
	}
	if n < 3 {
		r.Undecided(rule, "log.ID call sites", "", fmt.Sprintf("only %d found", n))
	}
	ruleNewLogShape(w, r, rule)
	ruleConstructorDiscipline(w, r, rule, pConfig, "Log", []string{fnNewLog})
	// sibling agreement over the feeder registry
	for _, fp := range feederPkgs {
		name := modPath + "/internal/feeder/" + fp + ".FeedLog"
		fn := w.fn(name)
		if fn == nil {
			r.Undecided(rule, name, "", "feeder entry point not found")
			continue
		}
		var opaque []string
		opaque = append(opaque, fnRun, fnFeedOnce)
		for _, f := range w.prodFns() {
			if pkgPathOf(f) == pkgPathOf(fn) && f != fn && f.Parent() == nil && !reachesCallee(f, 0, fnRun, fnFeedOnce) && !returnsFunc(f) {
				opaque = append(opaque, funcNameOrSSA(f))
			}
		}
		opaque = append(opaque, pClient+".NewSumDB")
		sums, _, ok := exploreOpaque(w, r, rule, name, 4, 1, opaque...)
		if !ok {
			continue
		}
		l := paramN(fn, 1)
		wit := paramN(fn, 2)
		nStart := 0
		for _, s := range sums {
			for _, c := range calls(s, fnRun, fnFeedOnce) {
				nStart++
				opts := c.Args[len(c.Args)-1]
				good := opts.Kind == "structval"
				if good {
					got := map[string]*Term{}
					for _, f := range opts.Args {
						got[f.Name] = f.Args[0]
					}
					good = got["LogID"] == mk("field", "ID", 0, nil, l) && got["LogOrigin"] == mk("field", "Origin", 0, nil, l) && got["LogSigVerifier"] == mk("field", "Verifier", 0, nil, l) && got["Witness"] == wit &&
						got["FetchCheckpoint"] != nil && got["FetchProof"] != nil
				}
				r.Check(good, rule, name+" | feed options = {ID, Origin, Verifier} of the same configured log, the witness given", w.pos(c.Pos), "feeder "+fp+" builds its options from different sources: "+short(opts.String()))
				r.Check(c.Args[0] == paramN(fn, 0), rule, name+" | caller's context", w.pos(c.Pos), "feeder does not run under the caller's context")
			}
		}
		if nStart == 0 {
			r.Undecided(rule, name, "", "feeder never reaches feeder.Run/FeedOnce")
		}
	}
	// bastion handler map keyed by l.ID with the same l
	if sums, _, ok := exploreOpaque(w, r, rule, fnFeedBastion, 4, 2, fnConnect, pBastion+".initMetrics"); ok {
		n := 0
		for _, s := range sums {
			for _, mu := range eventsOfKind(s, "mapupdate") {
				n++
				k, v := mu.Args[0], mu.Args[1]
				good := k.Kind == "field" && k.Name == "ID" && k.Args[0] == v
				r.Check(good, rule, fnFeedBastion+" | endpoint's log table keyed by each log's own ID", w.pos(mu.Pos), "bastion log table entry "+short(k.String())+" -> "+short(v.String()))
			}
		}
		if n == 0 {
			r.Undecided(rule, fnFeedBastion, "", "no table insertion seen")
		}
	}
}

// ruleNewLogShape: config.NewLog builds {ID: ID(origin), Origin: origin, Verifier: NewVerifier(pk), URL: url} from its
// parameters unchanged (what the configuration says is what every component gets).
func ruleNewLogShape(w *World, r *Run, rule string) {
	sums, _, ok := explore(w, r, rule, fnNewLog, 4, 1)
	if !ok {
		return
	}
	fn := w.fn(fnNewLog)
	nOK := 0
	for _, s := range sums {
		if len(s.Rets) != 2 || s.Rets[1].Kind != "nil" {
			continue
		}
		nOK++
		v := s.Rets[0]
		good := v.Kind == "structval"
		if good {
			got := map[string]*Term{}
			for _, f := range v.Args {
				got[f.Name] = f.Args[0]
			}
			id, ver := got["ID"], got["Verifier"]
			good = id != nil && id.Kind == "call" && id.Name == cLogID && id.Args[2] == paramN(fn, 0) && got["Origin"] == paramN(fn, 0) && got["URL"] == paramN(fn, 2) &&
				ver != nil && ver.Kind == "call" && ver.Name == cNewVerifier && ver.Idx == 1 && ver.Args[2] == paramN(fn, 1)
		}
		r.Check(good, rule, fnNewLog+" | Log{ID: ID(origin), Origin: origin, Verifier: verifier(pk), URL: url} from the configured values unchanged", w.pos(s.RetPos), "config.NewLog returns "+short(v.String()))
	}
	if nOK == 0 {
		r.Undecided(rule, fnNewLog, "", "no success path")
	}
}

// ruleConstructorDiscipline: values of pkg.typ are allocated only inside the listed constructors (production code).
func ruleConstructorDiscipline(w *World, r *Run, rule, pkg, typ string, ctors []string) {
	obj := w.lookup(pkg, typ)
	if obj == nil {
		r.Undecided(rule, pkg+"."+typ, "", "type not found")
		return
	}
	allowed := map[string]bool{}
	for _, c := range ctors {
		allowed[c] = true
	}
	n := 0
	for _, fn := range w.prodFns() {
		for _, b := range fn.Blocks {
			for _, in := range b.Instrs {
				al, ok := in.(*ssa.Alloc)
				if !ok {
					continue
				}
				if !types.Identical(al.Type().(*types.Pointer).Elem(), obj.Type()) {
					continue
				}
				// parameter/receiver spills are not constructions
				isSpill := false
				for _, ref := range *al.Referrers() {
					if st, ok := ref.(*ssa.Store); ok && st.Addr == al {
						if _, ok := st.Val.(*ssa.Parameter); ok {
							isSpill = true
						}
						if u, ok := st.Val.(*ssa.UnOp); ok {
							_ = u
							isSpill = true // copy of an existing value (range element, dereference)
						}
						if _, ok := st.Val.(*ssa.Extract); ok {
							isSpill = true
						}
						if _, ok := st.Val.(*ssa.Call); ok {
							isSpill = true
						}
						if _, ok := st.Val.(*ssa.Lookup); ok {
							isSpill = true
						}
						if _, ok := st.Val.(*ssa.Phi); ok {
							isSpill = true
						}
						if _, ok := st.Val.(*ssa.Field); ok {
							isSpill = true
						}
					}
				}
				if isSpill {
					continue
				}
				n++
				host := funcNameOrSSA(outermost(fn))
				okHost := allowed[host] || w.onlyReachableFrom(fn, w.rootsOf(ctors...))
				r.Check(okHost, rule, pkg+"."+typ+" | constructed only by "+strings.Join(ctors, ", ")+" (or helpers private to it)", w.pos(al.Pos()), typ+" value constructed in "+short(host)+", which is reachable from outside the constructor (bypasses the constructor's invariants)")
			}
		}
	}
	if n == 0 {
		r.Undecided(rule, pkg+"."+typ+" | construction sites", "", "no construction site found")
	}
}

// ---------------------------------------------------------------- C20.d INITIALISED-BEFORE-USE

func ruleInitBeforeUse(w *World, r *Run, rule string) {
	type ctor struct{ fn, pkg, typ string }
	cs := []ctor{{fnWitnessNew, pWitness, "Witness"}, {fnFeedBastion, pBastion, "addHandler"}}
	dcs := ctorsOf(w, pRest, "Distributor")
	if len(dcs) == 0 {
		dcs = []string{fnNewDist}
	}
	for _, dc := range dcs {
		cs = append(cs, ctor{dc, pRest, "Distributor"})
	}
	for _, c := range cs {
		// the package's counters and the function(s) that only Once.Do runs to create them
		names, onces := counterBindings(w, r, c.pkg, rule)
		if len(names) == 0 || len(onces) == 0 {
			r.Undecided(rule, c.pkg+" | counters", "", "no counters found")
			continue
		}
		onceNames := map[string]bool{}
		for f := range onces {
			onceNames[f.String()] = true
			onceNames[funcNameOrSSA(f)] = true
		}
		// the constructor's first effect on every path is running that Once
		sums, _, ok := exploreOpaque(w, r, rule, c.fn, 4, 1, fnConnect)
		if !ok {
			continue
		}
		for _, s := range sums {
			if s.Panic {
				continue
			}
			// the Once must have run before the constructed value can be used: before any increment, before the serving
			// loop is entered, and on every path that hands out a value. A path that validates its arguments and gives up with
			// an error first constructs nothing.
			onceSeq := 0
			for _, ev := range s.Events {
				if ev.Kind == "call" && ev.Callee == "(*sync.Once).Do" && len(ev.Args) == 1 && ev.Args[0] != nil && (ev.Args[0].Kind == "func" || ev.Args[0].Kind == "closure") && onceNames[ev.Args[0].Name] && onceSeq == 0 {
					onceSeq = ev.Seq
				}
			}
			first := true
			for _, ev := range s.Events {
				if ev.Kind == "call" && (ev.Callee == cInc || ev.Callee == fnConnect) && (onceSeq == 0 || ev.Seq < onceSeq) {
					first = false
				}
			}
			if onceSeq == 0 && len(s.Rets) >= 1 && len(s.Rets) <= 2 {
				if len(s.Rets) == 2 && s.Rets[0].Kind != "nil" {
					first = false // a value is handed out
				}
				if !neverNil(s.Rets[len(s.Rets)-1]) {
					first = false // the path reports success
				}
			}
			r.Check(first, rule, c.fn+" | the counters are created (under their Once) before anything else on every path", w.pos(s.RetPos), "constructor path does not start by creating the package's counters: they would be nil interfaces and the first Inc would panic")
		}
		if c.typ == "Distributor" {
			ruleConstructorDiscipline(w, r, rule, c.pkg, c.typ, dcs)
		} else {
			ruleConstructorDiscipline(w, r, rule, c.pkg, c.typ, []string{c.fn})
		}
		// every counter of the package that is incremented through a package-level location is among them
		for _, fn := range w.prodFns() {
			if pkgPathOf(fn) != c.pkg {
				continue
			}
			for _, b := range fn.Blocks {
				for _, in := range b.Instrs {
					call, ok := in.(*ssa.Call)
					if !ok || !call.Call.IsInvoke() || call.Call.Method.FullName() != cInc {
						continue
					}
					if u, ok := call.Call.Value.(*ssa.UnOp); ok {
						if loc := ssaLoc(u.X); loc != nil {
							_, inited := names[loc.key]
							r.Check(inited, rule, c.pkg+" counter "+short(loc.String())+" | incremented counter is created under the Once", w.pos(in.Pos()), "counter "+short(loc.String())+" is incremented but never created")
						}
					}
				}
			}
		}
	}
}

// ---------------------------------------------------------------- C14

const (
	fnNewDistributor = pRest + ".NewDistributor"
	fnDistOnceM      = "(*" + pRest + ".Distributor).DistributeOnce"
)

func mainOpaque() []string {
	out := []string{fnAsLogMap, fnNewLog, fnWitnessNew, fnFeedFunc, fnNewServer, "(*" + pIHTTP + ".Server).RegisterHandlers", fnNewDistributor, fnDistOnceM, fnFeedBastion}
	out = append(out, logMapBuilders...)
	return append(out, distCtors...)
}

// logMapBuilders: the functions of the omniwitness package that return the witness's log map (map[string]witness.LogInfo,
// error): AsLogMap and any sibling that builds the same map from already parsed entries (filled when the world is loaded).
var logMapBuilders []string

func findLogMapBuilders(w *World) []string {
	var out []string
	for _, fn := range w.prodFns() {
		if fn.Parent() != nil || pkgPathOf(fn) != pOmni || fn.Signature.Results().Len() != 2 {
			continue
		}
		if typeStr(fn.Signature.Results().At(0).Type()) == "map[string]witness.LogInfo" && funcName(fn) != fnAsLogMap {
			out = append(out, funcName(fn))
		}
	}
	sort.Strings(out)
	return out
}

// distCtors: every package-level function of the distributor package that returns a *Distributor (filled by ctorsOf when
// the world is loaded): a second constructor (with options) is a constructor too.
var distCtors []string

// ctorsOf lists the package-level functions of pkg whose first result is typ or *typ.
func ctorsOf(w *World, pkg, typ string) []string {
	var out []string
	for _, fn := range w.prodFns() {
		if fn.Parent() != nil || fn.Signature.Recv() != nil || pkgPathOf(fn) != pkg || fn.Signature.Results().Len() == 0 {
			continue
		}
		rt := fn.Signature.Results().At(0).Type()
		if p, ok := rt.Underlying().(*types.Pointer); ok {
			rt = p.Elem()
		}
		if n, ok := rt.(*types.Named); ok && n.Obj().Name() == typ && n.Obj().Pkg() != nil && n.Obj().Pkg().Path() == pkg {
			out = append(out, funcName(fn))
		}
	}
	sort.Strings(out)
	return out
}

type mainPath struct {
	s      Summary
	newW   *Event
	asMap  *Event
	gos    []Event
	waited bool
}

var mainCache = map[*World]struct {
	sums []Summary
	eng  *Engine
}{}

// mainPaths explores Main with every helper of its package inlined and the function handed to errgroup.Go run once in
// place (events inside it carry InHOF), so that what each goroutine does is seen with the values it was given.
func mainPaths(w *World, r *Run, rule string) ([]mainPath, *Engine, bool) {
	c, ok := mainCache[w]
	if !ok {
		fn := w.fn(fnMain)
		if fn == nil {
			r.Undecided(rule, fnMain, "", "anchor function not found in the type-checked program")
			return nil, nil, false
		}
		e := w.engine(6, 2) // two configuration entries: pairings by position can only go wrong from the second entry on
		e.maxPaths = 60000
		e.scalarLoopsOnce = true
		for _, o := range mainOpaque() {
			e.opaque[o] = true
		}
		e.hof[cGroupGo] = 0
		c.sums, c.eng = e.Explore(fn), e
		mainCache[w] = c
	}
	sums, e := c.sums, c.eng
	r.Analysed(fnMain, len(sums))
	for _, s := range sums {
		if s.Trunc != "" {
			r.Undecided(rule, fnMain, "", "path enumeration truncated: "+s.Trunc)
			return nil, e, false
		}
	}
	if len(sums) == 0 {
		r.Undecided(rule, fnMain, "", "no feasible path")
		return nil, e, false
	}
	var out []mainPath
	for _, s := range sums {
		mp := mainPath{s: s}
		for _, c := range calls(s, fnWitnessNew) {
			c := c
			mp.newW = &c
		}
		for _, c := range calls(s, append([]string{fnAsLogMap}, logMapBuilders...)...) {
			c := c
			mp.asMap = &c
		}
		mp.gos = calls(s, cGroupGo)
		mp.waited = len(calls(s, "(*golang.org/x/sync/errgroup.Group).Wait")) > 0
		out = append(out, mp)
	}
	return out, e, true
}

// structArg resolves a struct-typed argument: the value itself, or the contents of the allocation it points to as of the call.
func structArg(ev Event, a *Term) *Term {
	if a == nil {
		return nil
	}
	if a.Kind == "structval" {
		return a
	}
	if a.Kind == "alloc" {
		if v, ok := ev.Binds[a.key]; ok && v.Kind == "structval" {
			return v
		}
	}
	return a
}

func structField(t *Term, name string) *Term {
	if t == nil || t.Kind != "structval" {
		return nil
	}
	for _, f := range t.Args {
		if f.Name == name && len(f.Args) == 1 {
			return f.Args[0]
		}
	}
	return nil
}

// witnessAdapterVals collects every witnessAdapter struct value visible on the path (arguments and captured cells).
func adapterVals(s Summary) []*Term {
	seen := map[*Term]bool{}
	var out []*Term
	isAdapter := func(x *Term) bool {
		if x.Kind != "structval" || len(x.Args) != 1 || len(x.Args[0].Args) != 1 {
			return false
		}
		v := x.Args[0].Args[0]
		return v != nil && v.Typ != nil && typeStr(v.Typ) == "*witness.Witness"
	}
	visit := func(t *Term) {
		anySub(t, func(x *Term) bool {
			if isAdapter(x) && !seen[x] {
				seen[x] = true
				out = append(out, x)
			}
			return false
		})
	}
	for _, ev := range s.Events {
		for _, a := range ev.Args {
			if a != nil {
				visit(a)
			}
		}
		for _, b := range ev.Binds {
			visit(b)
		}
	}
	return out
}

func ruleOneWitness(w *World, r *Run, rule string) {
	mps, e, ok := mainPaths(w, r, rule)
	if !ok {
		return
	}
	fn := w.fn(fnMain)
	pPers := paramN(fn, 2)
	nStarted := 0
	inclFacts, exclFacts, exclPos := map[string][]map[string]bool{}, map[string][]map[string]bool{}, map[string]string{}
	defer func() {
		for where, ex := range exclFacts {
			key := fnMain + " | " + where + " gets every configured log"
			sep := separators(ex, inclFacts[where])
			mapSep, ok := asLogMapSeparators(w)
			switch {
			case len(sep) == 0:
				r.Fail("C17.b", key, exclPos[where], "a configured log is in the witness's map but missing from the list given to the "+where+" (witness map and feeder/endpoint list describe different sets of logs)")
			case !ok || !sameSet(sep, mapSep):
				r.Fail("C17.b", key, exclPos[where], fmt.Sprintf("entries with %v are left out of the list given to the %s, but the witness's map leaves out entries with %v: the witness and the %s would describe different sets of logs", condKeys(sep), where, condKeys(mapSep), where))
			default:
				r.Pass("C17.b", key+" | entries left out are left out of the witness's map for the same reason", exclPos[where], "")
			}
		}
	}()
	for _, mp := range mps {
		s := mp.s
		if !mp.waited {
			// start-up aborted: nothing may have been launched (C12.d / C17)
			good := len(mp.gos) == 0 && len(s.Rets) == 1 && neverNil(s.Rets[0])
			r.Check(good, "C12.d", fnMain+" | configuration errors abort start-up before anything is launched", w.pos(s.RetPos), "Main returns early after having launched goroutines, or without an error; path: "+pathString(e, s))
			if mp.asMap != nil && failed(s, *mp.asMap) {
				r.Check(mp.newW == nil, "C12.d", fnMain+" | colliding configuration refused before the witness exists", w.pos(s.RetPos), "witness created although the log map could not be built")
			}
			continue
		}
		for _, nl := range calls(s, fnNewLog) {
			r.Check(okBefore(s, nl, 0), "C17.b", fnMain+" | an entry that config.NewLog rejects aborts start-up", w.pos(nl.Pos), "Main carries on although config.NewLog failed for a configured log (the service would run with a zero-value log entry)")
		}
		nStarted++
		key := fnMain + " | one witness instance behind the HTTP API, every feeder, the bastion endpoint and the distributor"
		if mp.newW == nil || mp.asMap == nil || !okBefore(s, *mp.newW, 0) || !okBefore(s, *mp.asMap, 0) {
			r.Fail(rule, key, w.pos(s.RetPos), "service started without a successfully created witness over the configured log map")
			continue
		}
		if len(calls(s, fnWitnessNew)) != 1 {
			r.Fail(rule, key, w.pos(s.RetPos), "more than one witness is created")
			continue
		}
		W := res(*mp.newW, 0)
		opts := mp.newW.Args[0]
		got := map[string]*Term{}
		if opts.Kind == "structval" {
			for _, f := range opts.Args {
				got[f.Name] = f.Args[0]
			}
		}
		good := got["Persistence"] == pPers && got["KnownLogs"] == res(*mp.asMap, 0)
		r.Check(good, rule, fnMain+" | witness built on the caller's persistence and the configured log map", w.pos(mp.newW.Pos), "witness.New gets "+short(opts.String()))
		// the log map and the feeder/bastion/distributor list come from the same configuration value
		cfgVal := mp.asMap.Recv
		for _, nl := range calls(s, fnNewLog) {
			sameCfg := anySub(nl.Args[0], func(t *Term) bool { return t.Kind == "field" && t.Name == "Logs" && t.Args[0] == cfgVal })
			if cfgVal == nil {
				// the map is built from the very list of parsed entries
				for _, a := range mp.asMap.Args {
					if a != nil && mentions(a, res(nl, 0)) {
						sameCfg = true
					}
				}
			}
			r.Check(sameCfg, rule, fnMain+" | feeder list and witness map describe the same configuration", w.pos(nl.Pos), "config.NewLog iterates a different configuration than the one AsLogMap converts")
		}
		// the log list handed to the push components (bastion endpoint, distributor) names every configured log
		var okLogs []*Term
		for _, nl := range calls(s, fnNewLog) {
			if okBefore(s, nl, 0) {
				okLogs = append(okLogs, res(nl, 0))
			}
		}
		checkList := func(list *Term, where string, pos string) {
			if list == nil {
				return
			}
			have := map[*Term]bool{}
			t := list
			for t.Kind == "append" {
				for _, el := range t.Args[1:] {
					if el.Kind == "varargs" {
						for _, x := range el.Args {
							have[x] = true
						}
					}
				}
				t = t.Args[0]
			}
			for _, lg := range okLogs {
				ent := entryOfNewLog(lg)
				fs := entryFieldFacts(s, ent)
				if have[lg] {
					r.Pass("C17.b", fnMain+" | "+where+" gets every configured log", pos, "")
					inclFacts[where] = append(inclFacts[where], fs)
				} else {
					// left out: fine exactly when the entry is left out of the witness's map for the same reason (decided
					// after all paths have been seen, from the conditions on the entry that separate the two cases)
					exclFacts[where] = append(exclFacts[where], fs)
					exclPos[where] = pos
				}
			}
		}
		for _, nd := range calls(s, append([]string{fnNewDistributor}, distCtors...)...) {
			if len(nd.Args) >= 3 {
				checkList(nd.Args[2], "distributor", w.pos(nd.Pos))
			}
		}
		for _, fb := range calls(s, fnFeedBastion) {
			if len(fb.Args) >= 2 {
				if lg := structField(structArg(fb, fb.Args[1]), "Logs"); lg != nil {
					checkList(lg, "bastion endpoint", w.pos(fb.Pos))
				} else {
					r.Fail("C17.b", fnMain+" | bastion endpoint gets every configured log", w.pos(fb.Pos), "the bastion configuration carries no recognisable log list: "+short(fmt.Sprint(fb.Args[1])))
				}
			}
		}
		ns := calls(s, fnNewServer)
		r.Check(len(ns) == 1 && ns[0].Args[0] == W, rule, fnMain+" | HTTP API serves that witness", w.pos(s.RetPos), "the HTTP server is not built on the witness that the feeders update")
		for _, av := range adapterVals(s) {
			okA := len(av.Args) == 1 && av.Args[0].Args[0] == W
			r.Check(okA, rule, key, w.pos(mp.newW.Pos), "a component is wired to "+short(av.String())+", not to the witness the HTTP API serves (split brain: two ratchets)")
		}
		// persistence parameter is not used for anything else (a second witness elsewhere)
		var direct func(t *Term) bool
		direct = func(t *Term) bool {
			if t == nil {
				return false
			}
			if t == pPers {
				return true
			}
			if t.Kind == "call" {
				return false // results of calls (e.g. the witness itself) are not the persistence object
			}
			for _, x := range t.Args {
				if direct(x) {
					return true
				}
			}
			return false
		}
		for _, ev := range s.Events {
			if ev.Kind == "call" && ev.Callee != fnWitnessNew {
				for _, a := range ev.Args {
					if direct(a) {
						r.Fail(rule, fnMain+" | persistence handed to the witness only", w.pos(ev.Pos), "the persistence object is also passed to "+short(ev.Callee))
					}
				}
				for _, b := range ev.Binds {
					if direct(b) {
						r.Fail(rule, fnMain+" | persistence handed to the witness only", w.pos(ev.Pos), "the persistence object is also captured by a closure passed to "+short(ev.Callee))
					}
				}
			}
		}
	}
	if nStarted == 0 {
		r.Undecided(rule, fnMain, "", "no path reaches g.Wait()")
	}
}

// C14.b EVERY-FEEDER-STARTED / EXHAUSTIVE
func ruleEveryFeeder(w *World, r *Run, rule string) {
	// the registry, obtained by evaluating ParseFeeder on every candidate name and FeedFunc on every enum constant
	reg := feederRegistry(w)
	if reg.err != "" {
		r.Undecided(rule, "omniwitness feeder registry", "", reg.err)
		return
	}
	consts, noneVal, byName, handled := reg.consts, reg.noneVal, reg.byName, reg.impl
	if len(byName) < 2 || noneVal == "" {
		r.Undecided(rule, "omniwitness feeder registry", "", fmt.Sprintf("feeder registry not recognised (%d names, None=%q)", len(byName), noneVal))
		return
	}
	r.extra["feeder_names"] = sortedMapKeys(byName)
	var ns []string
	for n := range byName {
		ns = append(ns, n)
	}
	sort.Strings(ns)
	for _, n := range ns {
		v := byName[n]
		key := fnFeedFunc + " | feeder type " + n + " (" + consts[v] + ") has an implementation"
		if v == noneVal {
			r.Pass(rule, key, "", "")
			continue
		}
		ret := handled[v]
		good := ret != nil && ret.Kind == "func"
		r.Check(good, rule, key, w.pos(w.fn(fnFeedFunc).Pos()), "a configuration entry may name feeder "+n+", but FeedFunc has no case for it: start-up panics on that entry")
		if good {
			// sibling agreement: each returns a distinct package's FeedLog
			r.Check(strings.HasSuffix(ret.Name, ".FeedLog"), rule, key+" | is a FeedLog entry point", "", "FeedFunc returns "+ret.Name)
		}
	}
	// distinct implementations for distinct types
	seen := map[string]string{}
	for v, t := range handled {
		if t != nil && t.Kind == "func" {
			if o, dup := seen[t.Name]; dup {
				r.Fail(rule, fnFeedFunc+" | distinct feeder types map to distinct implementations", "", consts[v]+" and "+consts[o]+" both map to "+t.Name)
			}
			seen[t.Name] = v
		}
	}
	// ParseFeeder: an unknown name is an error, never a zero enum with a nil error (evaluated on a name no registry has)
	if pf := w.fn(fnParseFeeder); pf != nil && len(pf.Params) == 1 {
		pe := w.engine(4, 16)
		pt := mk("param", pf.Params[0].Name(), 0, pf.Params[0].Type())
		pe.bind = map[string]*Term{pt.key: mk("const", "\"zz-no-such-feeder\"", 0, pf.Params[0].Type())}
		ps := pe.Explore(pf)
		r.Analysed(fnParseFeeder, len(ps))
		for _, s := range ps {
			if s.Panic || len(s.Rets) != 2 {
				continue
			}
			r.Check(neverNil(s.Rets[1]), "C17.b", fnParseFeeder+" | unknown name -> error", w.pos(s.RetPos), "an unknown feeder name yields a nil error (start-up would then panic in FeedFunc, or the log would silently not be fed)")
		}
		if len(ps) == 0 {
			r.Undecided("C17.b", fnParseFeeder, "", "no path")
		}
	}
	// Main: FeedFunc only for entries whose feeder is not None; when polling is enabled every (log, feeder) pair built from
	// one configuration entry is run in its own goroutine as feeder(group context, that log, the adapter, client, interval)
	mps, e, ok := mainPaths(w, r, rule)
	if !ok {
		return
	}
	fnM := w.fn(fnMain)
	opc := paramN(fnM, 1)
	interval := mk("field", "FeedInterval", 0, nil, opc)
	isFeederSig := func(t types.Type) bool {
		if t == nil {
			return false
		}
		sg, ok := t.Underlying().(*types.Signature)
		return ok && sg.Params().Len() == 5 && typeStr(sg.Params().At(1).Type()) == "config.Log" && typeStr(sg.Params().At(2).Type()) == "feeder.Witness"
	}
	// does any path put a (log, feeder) pair into this collection?
	entryOf := func(t *Term) *Term {
		if t != nil && t.Kind == "field" && len(t.Args) == 1 {
			return t.Args[0]
		}
		return nil
	}
	pairFromOneEntry := func(lg, fd *Term) bool {
		if lg == nil || fd == nil || lg.Kind != "call" || lg.Name != fnNewLog || lg.Idx != 1 || fd.Kind != "call" || fd.Name != fnFeedFunc || len(fd.Args) < 2 {
			return false
		}
		ent := entryOf(fd.Args[1])
		if ent == nil || fd.Args[1].Name != "Feeder" {
			return false
		}
		for _, a := range lg.Args[2:] {
			if entryOf(a) != ent {
				return false
			}
		}
		return true
	}
	// unwrap: a function value that only forwards to a captured feeder function — every path calls the captured value once
	// with its own context, log, witness and interval (the HTTP client may be adapted) and returns that call's result —
	// stands for the captured value (a per-log wrapper around E.Feeder.FeedFunc()).
	unwrap := func(s Summary, binds map[string]*Term, before int, v *Term) *Term {
		for depth := 0; depth < 3 && v != nil && v.Kind == "closure" && isFeederSig(v.Typ); depth++ {
			cf := w.funcs[v.Name]
			if cf == nil || len(cf.Params) != 5 || len(cf.FreeVars) != len(v.Args) {
				return v
			}
			ce := w.engine(3, 1)
			var target *Term
			ok := true
			n := 0
			for _, cs := range ce.Explore(cf) {
				if cs.Panic {
					continue
				}
				n++
				var dyn []Event
				for _, ev := range cs.Events {
					if ev.Kind == "call" && ev.Callee == "dyn" && ev.Recv != nil && isFeederSig(ev.Recv.Typ) {
						dyn = append(dyn, ev)
					}
				}
				if cs.Trunc != "" || len(dyn) != 1 || len(cs.Rets) != 1 || cs.Rets[0] != dyn[0].Res || len(dyn[0].Args) != 5 {
					ok = false
					break
				}
				for _, i := range []int{0, 1, 2, 4} {
					if dyn[0].Args[i] != mk("param", cf.Params[i].Name(), 0, cf.Params[i].Type()) {
						ok = false
					}
				}
				rv := dyn[0].Recv
				if rv.Kind == "deref" && len(rv.Args) == 1 {
					rv = rv.Args[0]
				}
				if rv.Kind != "freevar" || (target != nil && target != rv) {
					ok = false
					break
				}
				target = rv
			}
			if os.Getenv("WCHECK_DEBUG_UNWRAP") != "" {
				fmt.Fprintf(os.Stderr, "unwrap %s: ok=%v n=%d target=%v binds=%v\n", v, ok, n, target, binds)
			}
			if !ok || n == 0 || target == nil {
				return v
			}
			// the captured value: the binding of that free variable (a cell written once per iteration, or the value itself)
			var bound *Term
			for i, fv := range cf.FreeVars {
				if fv.Name() == target.Name {
					bound = v.Args[i]
				}
			}
			if bound != nil && bound.Kind == "alloc" {
				if bv, found := binds[bound.key]; found {
					bound = bv
				} else if mv, found := s.Mem[bound.key]; found {
					bound = mv
				}
			}
			if bound == nil {
				return v
			}
			// `ff := table[k]` read back right after `table[k] = …`: the value last stored under the same key on this path
			if bound.Kind == "lookup" && bound.Name == "val" && len(bound.Args) == 2 {
				var last *Term
				for _, mu := range eventsOfKind(s, "mapupdate") {
					if mu.Recv == bound.Args[0] && (before == 0 || mu.Seq < before) {
						if mu.Args[0] == bound.Args[1] {
							last = mu.Args[1]
						} else if last != nil {
							last = nil // a later update under another key term may have replaced it
						}
					}
				}
				if last == nil {
					return v
				}
				bound = last
			}
			v = bound
		}
		return v
	}
	pairOK := func(s Summary, F, c *Term) (bool, string) {
		F = unwrap(s, nil, 0, F)
		// the values themselves, when the collection's contents are known on the path
		if F.Kind == "call" && F.Name == fnFeedFunc {
			if pairFromOneEntry(c, F) {
				return true, "1"
			}
			return false, "the feeder " + short(F.String()) + " is run with the log " + short(c.String()) + ", which is not built from the same configuration entry"
		}
		var it *Term
		anySub(F, func(x *Term) bool {
			if x.Kind == "rangeiter" && it == nil {
				it = x
			}
			return false
		})
		var coll *Term
		if it == nil {
			// index-based loop over a slice of records: element = *(&list[i])
			if F.Kind == "field" && len(F.Args) == 1 {
				el := F.Args[0]
				if el.Kind == "deref" && len(el.Args) == 1 && el.Args[0].Kind == "indexaddr" {
					coll, it = el.Args[0].Args[0], el
				} else if el.Kind == "index" && len(el.Args) == 2 {
					coll, it = el.Args[0], el
				}
			}
			if coll == nil {
				return false, "the feeder is not taken from an iteration over the configured (log, feeder) pairs"
			}
		} else {
			coll = it.Args[0]
		}
		switch {
		case isMapTerm(coll):
			// the value is the feeder itself or a record with the feeder among its fields
			elem, fld := F, ""
			if F.Kind == "field" && len(F.Args) == 1 && F.Args[0].Kind == "rangeelem" {
				elem, fld = F.Args[0], F.Name
			}
			if !(elem.Kind == "rangeelem" && elem.Args[0] == it && c.Kind == "rangekey" && c.Args[0] == it) {
				return false, "feeder and log are not the key and value of one entry of the feeder table"
			}
			n := 0
			for _, mu := range eventsOfKind(s, "mapupdate") {
				if mu.Recv != coll {
					continue
				}
				n++
				val := mu.Args[1]
				if fld != "" {
					val = structField(structArg(mu, val), fld)
				}
				if !pairFromOneEntry(mu.Args[0], unwrap(s, mu.Binds, mu.Seq, val)) {
					return false, "the feeder table receives an entry that is not (config.NewLog(E), E.Feeder.FeedFunc()) for one configuration entry E: " + short(fmt.Sprint(mu.Args))
				}
			}
			return true, fmt.Sprint(n)
		default:
			// a slice of records: both projections of the same element
			if !(F.Kind == "field" && c.Kind == "field" && len(F.Args) == 1 && F.Args[0] == c.Args[0] && mentions(F.Args[0], it)) {
				return false, "feeder and log are not two fields of one element of the feeder list (the log is " + short(c.String()) + ", the feeder " + short(F.String()) + ")"
			}
			n := 0
			t := coll
			for t.Kind == "append" {
				for _, el := range t.Args[1:] {
					if el.Kind != "varargs" {
						return false, "the feeder list is built from something other than single records"
					}
					for _, x := range el.Args {
						n++
						if !pairFromOneEntry(structField(x, c.Name), unwrap(s, nil, 0, structField(x, F.Name))) {
							return false, "the feeder list receives a record that is not (config.NewLog(E), E.Feeder.FeedFunc()) for one configuration entry E: " + short(x.String())
						}
					}
				}
				t = t.Args[0]
			}
			if !(t.Kind == "alloc" || t.Kind == "nil" || t.Kind == "zero" || (t.Kind == "varargs" && len(t.Args) == 0)) {
				return false, "the feeder list does not start empty: " + short(t.String())
			}
			return true, fmt.Sprint(n)
		}
	}
	nLaunch, nFilled := 0, 0
	for _, mp := range mps {
		s := mp.s
		for _, ff := range calls(s, fnFeedFunc) {
			k, v, _ := eqConstFact(s, ff.Recv, noneVal)
			r.Check(k && !v, rule, fnMain+" | FeedFunc only for entries that have a feeder", w.pos(ff.Pos), "FeedFunc is called on a path that did not exclude the 'none' feeder (it panics on it)")
		}
		if !mp.waited || mp.newW == nil {
			continue
		}
		W := res(*mp.newW, 0)
		wc := calls(s, "golang.org/x/sync/errgroup.WithContext")
		var feedCalls []Event
		for _, ev := range s.Events {
			if ev.Kind == "call" && ev.Callee == "dyn" && ev.Recv != nil && isFeederSig(ev.Recv.Typ) {
				feedCalls = append(feedCalls, ev)
			}
		}
		colls := map[*Term]bool{}
		for _, fc := range feedCalls {
			nLaunch++
			key := fnMain + " | each feeder runs in its own goroutine as feeder(group context, its log, the shared adapter, client, poll interval)"
			good, why := true, ""
			switch {
			case fc.InHOF != cGroupGo:
				good, why = false, "a feeder is run synchronously by Main instead of in a goroutine of the error group"
			case len(fc.Args) != 5 || len(wc) != 1 || fc.Args[0] != res(wc[0], 1):
				good, why = false, "the feeder does not run under the error group's context (it would outlive the failure of the other components)"
			case fc.Args[4] != interval && !implies(s.Facts, "<", mk("const", "0", 0, fc.Args[4].Typ), fc.Args[4], true):
				good, why = false, "the feeder is given an interval that is neither the configured poll interval nor known to be positive on this path (with 0 a feeder feeds once and returns: the log is no longer followed)"
			}
			if good {
				ad := structArg(fc, fc.Args[2])
				// a pointer adapter handed to an earlier (opaque) feeder is havocked by the engine afterwards: the adapter's
				// contents are those of its first use on the path (its fields are written by its constructor only)
				if a0 := fc.Args[2]; a0 != nil && a0.Kind == "alloc" {
					for _, pe := range s.Events {
						if pe.Seq < fc.Seq && pe.Binds != nil {
							if v, ok := pe.Binds[a0.key]; ok && v.Kind == "structval" {
								ad = v
								break
							}
						}
					}
				}
				if !(ad != nil && ad.Kind == "structval" && len(ad.Args) == 1 && len(ad.Args[0].Args) == 1 && ad.Args[0].Args[0] == W) {
					good, why = false, "the feeder is not handed an adapter around the witness that Main created: "+short(fmt.Sprint(ad))
				}
			}
			if good {
				var info string
				good, info = pairOK(s, fc.Recv, fc.Args[1])
				if !good {
					why = info
				} else if info != "0" {
					nFilled++
				}
			}
			if good {
				// the goroutine's result is the feeder's error
				good, why = false, "the goroutine does not return the feeder's error (a dead feeder would go unnoticed)"
				for _, hr := range eventsOfKind(s, "hofret") {
					if hr.Callee == cGroupGo && len(hr.Args) == 1 && hr.Args[0] == fc.Res {
						good = true
					}
				}
			}
			r.Check(good, rule, key, w.pos(fc.Pos), why+"; path: "+pathString(e, s))
			anySub(fc.Recv, func(x *Term) bool {
				if x.Kind == "rangeiter" {
					colls[x] = true
				}
				return false
			})
		}
		// one goroutine per iteration of the feeder collection
		for it := range colls {
			iters := 0
			for _, ev := range s.Events {
				if ev.Kind == "iter" && ev.Recv == it {
					iters++
				}
			}
			seqs := map[int]bool{}
			for _, fc := range feedCalls {
				if mentions(fc.Recv, it) && fc.InHOF == cGroupGo {
					seqs[fc.HOFSeq] = true
				}
			}
			r.Check(len(seqs) == iters, rule, fnMain+" | one feeder goroutine per configured feeder", w.pos(s.RetPos), fmt.Sprintf("%d feeders iterated but %d goroutines launched; path: %s", iters, len(seqs), pathString(e, s)))
		}
		// polling enabled and a pair was configured, yet nothing launched?
		if len(feedCalls) == 0 {
			for _, ev := range s.Events {
				if ev.Kind == "iter" && ev.Recv.Kind == "rangeiter" {
					coll := ev.Recv.Args[0]
					filled := false
					for _, mu := range eventsOfKind(s, "mapupdate") {
						if mu.Recv == coll && mu.Args[1].Kind == "call" && mu.Args[1].Name == fnFeedFunc {
							filled = true
						}
					}
					if anySub(coll, func(x *Term) bool { return x.Kind == "call" && x.Name == fnFeedFunc }) {
						filled = true
					}
					if filled {
						r.Fail(rule, fnMain+" | one feeder goroutine per configured feeder", w.pos(ev.Pos), "the configured feeders are iterated but no feeder is run; path: "+pathString(e, s))
					}
				}
			}
		}
	}
	if nLaunch == 0 {
		r.Fail(rule, fnMain+" | feeder launch loop", "", "no path of Main runs a feeder")
	} else if nFilled == 0 {
		r.Undecided(rule, fnMain+" | feeder launch loop", "", "no path both fills the feeder collection from the configuration and launches from it")
	}
}

func sortedMapKeys(m map[string]string) []string {
	var ks []string
	for k := range m {
		ks = append(ks, k)
	}
	sort.Strings(ks)
	return ks
}

// C14.c NEVER-GIVES-UP
func ruleNeverGivesUp(w *World, r *Run, rule string) {
	checkLoop := func(name string, allowErrRet func(s Summary) bool, opaque ...string) {
		sums, e, ok := exploreOpaque(w, r, rule, name, 4, 1, opaque...)
		if !ok {
			return
		}
		fn := w.fn(name)
		ctx := paramN(fn, 0)
		n := 0
		for _, s := range sums {
			if s.Panic {
				r.Fail(rule, name+" | no panic", w.pos(s.RetPos), "explicit panic in the service loop")
				continue
			}
			n++
			// last blocking event before the return must be a receive from ctx.Done()
			var lastRecv *Event
			for i := range s.Events {
				if s.Events[i].Kind == "recv" && !s.Events[i].AtExit {
					lastRecv = &s.Events[i]
				}
			}
			done := lastRecv != nil && lastRecv.Recv.Kind == "call" && lastRecv.Recv.Name == "(context.Context).Done" && lastRecv.Recv.Args[1] == ctx
			// … or the path has found ctx.Err() non-nil: the context has ended
			if !done {
				for _, ce := range calls(s, "(context.Context).Err") {
					if ce.Recv == ctx {
						if k, isNil, _ := nilFact(s, ce.Res); k && !isNil {
							done = true
						}
					}
				}
			}
			// … or nothing has been started yet: the arguments were found unusable before the first cycle (no wait, no call
			// of the cycle function, no connection attempt)
			if !done && lastRecv == nil && len(s.Rets) == 1 && neverNil(s.Rets[0]) {
				started := false
				for _, ev := range s.Events {
					if ev.Kind == "call" && (ev.Callee == fnFeedOnce || ev.Callee == "dyn" || strings.Contains(ev.Callee, "Dial") || strings.HasPrefix(ev.Callee, "(*net/http.Client).")) {
						started = true
					}
				}
				if !started {
					done = true
				}
			}
			if !done && allowErrRet != nil && allowErrRet(s) {
				r.Pass(rule, name+" | returns only when its context ends", w.pos(s.RetPos), "")
				continue
			}
			r.Check(done, rule, name+" | returns only when its context ends", w.pos(s.RetPos), "the service loop can return without its context having ended (one failed cycle would stop following the log for good); path: "+pathString(e, s))
		}
		if n == 0 {
			r.Undecided(rule, name, "", "no returning path found")
		}
	}
	checkLoop(fnRun, nil, fnFeedOnce)
	checkLoop(fnConnect, func(s Summary) bool {
		// a local certificate-generation failure is the only other exit
		c := calls(s, pBastion+".selfSignedCertificate")
		return len(c) > 0 && failed(s, c[len(c)-1]) && len(s.Rets) == 1 && s.Rets[0] == errRes(c[len(c)-1])
	}, pBastion+".selfSignedCertificate")
	// Run: each cycle calls FeedOnce under a timeout derived from the caller's context, with the options given
	if sums, _, ok := exploreOpaque(w, r, rule, fnRun, 4, 1, fnFeedOnce); ok {
		fn := w.fn(fnRun)
		nf := 0
		p0, p2 := paramN(fn, 0), paramN(fn, 2)
		for _, s := range sums {
			wts := calls(s, "context.WithTimeout", "context.WithDeadline")
			for _, fo := range calls(s, fnFeedOnce) {
				nf++
				good := false
				for _, wt := range wts {
					// the bounded context this very cycle runs under, derived from the caller's context
					if wt.Seq < fo.Seq && wt.Args[0] == p0 && fo.Args[0] == res(wt, 0) {
						good = true
					}
				}
				good = good && fo.Args[1] == p2
				r.Check(good, rule, fnRun+" | each cycle runs FeedOnce(options given) under a deadline derived from the caller's context", w.pos(fo.Pos), "FeedOnce is not run under context.WithTimeout(ctx, …) with the caller's options")
			}
		}
		if nf == 0 {
			r.Fail(rule, fnRun+" | feeds", "", "Run never calls FeedOnce")
		}
	}
	// every feeder's fetchProof answers the empty proof for from.Size == 0 without touching the network
	for _, fp := range feederPkgs {
		name := modPath + "/internal/feeder/" + fp + ".FeedLog"
		ff, okf := feederFuncs(w, r, rule, fp)
		key := name + " | fetchProof(from.Size == 0) = empty proof"
		if !okf {
			continue
		}
		fpCl := ff.fetchProof
		sums, _, ok := exploreFn(w, r, rule, fpCl, 2, 1)
		if !ok {
			continue
		}
		fsz := mk("field", "Size", 0, tUint64, ff.from)
		found := false
		for _, s := range sums {
			if k, v, _ := eqConstFact(s, fsz, "0"); k && v {
				found = true
				empty := len(s.Rets) == 2 && s.Rets[1].Kind == "nil" && (s.Rets[0].Kind == "alloc" || s.Rets[0].Kind == "nil" || (s.Rets[0].Kind == "varargs" && len(s.Rets[0].Args) == 0))
				nCalls := 0
				for _, ev := range s.Events {
					if ev.Kind == "call" && calleePkg(ev.Callee) != "k8s.io/klog/v2" {
						nCalls++
					}
				}
				r.Check(empty && nCalls == 0, rule, key, w.pos(s.RetPos), "first feed (witness has nothing) does not get the empty proof Update's first-use rule expects")
			}
		}
		// a proof builder is tied to the checkpoint it was made for: it must be built in this very call, for this call's 'to'
		for _, s := range sums {
			for _, cp := range s.Events {
				if cp.Kind != "call" || !strings.HasSuffix(cp.Callee, ".ConsistencyProof") {
					continue
				}
				okPB := cp.Recv != nil && cp.Recv.Kind == "call" && strings.HasSuffix(cp.Recv.Name, ".NewProofBuilder") && cp.Recv.Idx == 1
				if okPB {
					okPB = false
					for _, a0 := range cp.Recv.Args[2:] {
						if a0 == ff.to {
							okPB = true
						}
					}
				}
				r.Check(okPB, rule, name+" | proof builder made in this call for the checkpoint being proven", w.pos(cp.Pos), "ConsistencyProof is asked of "+short(fmt.Sprint(cp.Recv))+", not of a proof builder created in this call for 'to' (a builder kept across polls is stale as soon as the log grows)")
				good := len(cp.Args) >= 3 && cp.Args[1] == mk("field", "Size", 0, tUint64, ff.from) && cp.Args[2] == mk("field", "Size", 0, tUint64, ff.to)
				r.Check(good, rule, name+" | ConsistencyProof(from.Size, to.Size)", w.pos(cp.Pos), "ConsistencyProof called with "+short(fmt.Sprint(cp.Args)))
			}
		}
		if !found {
			r.Fail(rule, key, w.pos(fpCl.Pos()), "fetchProof has no from.Size == 0 arm: the first submission would carry a non-empty proof or fail")
		}
	}
}

// entryOfNewLog: the configuration entry a config.NewLog result was built from (the struct whose fields are its arguments).
func entryOfNewLog(lg *Term) *Term {
	if lg == nil || lg.Kind != "call" {
		return nil
	}
	for _, a := range lg.Args[2:] {
		if a != nil && a.Kind == "field" && len(a.Args) == 1 {
			return a.Args[0]
		}
	}
	return nil
}

// entryFieldFacts: the facts of the path that are plain conditions on one field of the entry: a boolean field, or a field
// compared with a constant. Rendered as "Field=true", "Field!=6".
func entryFieldFacts(s Summary, ent *Term) map[string]bool {
	out := map[string]bool{}
	if ent == nil {
		return out
	}
	isFld := func(t *Term) bool { return t != nil && t.Kind == "field" && len(t.Args) == 1 && t.Args[0] == ent }
	for _, f := range s.Facts {
		t := f.T
		switch {
		case isFld(t):
			out[fmt.Sprintf("%s=%v", t.Name, f.Pos)] = true
		case t.Kind == "binop" && t.Name == "==" && len(t.Args) == 2:
			a, b := t.Args[0], t.Args[1]
			if isFld(b) {
				a, b = b, a
			}
			if isFld(a) && (b.Kind == "const" || b.Kind == "zero") {
				op := "=="
				if !f.Pos {
					op = "!="
				}
				out[a.Name+op+b.Name] = true
			}
		}
	}
	return out
}

// separators: the conditions every left-out instance has and no included instance has.
func separators(excl, incl []map[string]bool) map[string]bool {
	sep := map[string]bool{}
	if len(excl) == 0 {
		return sep
	}
	for k := range excl[0] {
		sep[k] = true
	}
	for _, e := range excl[1:] {
		for k := range sep {
			if !e[k] {
				delete(sep, k)
			}
		}
	}
	for _, in := range incl {
		for k := range in {
			delete(sep, k)
		}
	}
	return sep
}

func sameSet(a, b map[string]bool) bool {
	if len(a) != len(b) {
		return false
	}
	for k := range a {
		if !b[k] {
			return false
		}
	}
	return true
}

func condKeys(m map[string]bool) []string {
	var out []string
	for k := range m {
		out = append(out, k)
	}
	sort.Strings(out)
	return out
}

// asLogMapSeparators: the conditions on a configuration entry under which AsLogMap leaves it out of the map it returns
// although it raised no error for it (explored on its own, one entry).
func asLogMapSeparators(w *World) (map[string]bool, bool) {
	fn := w.fn(fnAsLogMap)
	if fn == nil {
		return nil, false
	}
	e := w.engine(3, 1)
	var incl, excl []map[string]bool
	for _, s := range e.Explore(fn) {
		if s.Panic || s.Trunc != "" || len(s.Rets) != 2 || s.Rets[1].Kind != "nil" {
			continue
		}
		iters := eventsOfKind(s, "index")
		_ = iters
		// the first entry of the configuration's list, if the loop ran
		var ent *Term
		for _, f := range s.Facts {
			anySub(f.T, func(x *Term) bool {
				if ent == nil && x.Kind == "deref" && len(x.Args) == 1 && x.Args[0].Kind == "indexaddr" {
					ent = x
				}
				return false
			})
		}
		for _, ev := range s.Events {
			for _, a := range append([]*Term{ev.Recv}, ev.Args...) {
				if a == nil {
					continue
				}
				anySub(a, func(x *Term) bool {
					if ent == nil && x.Kind == "deref" && len(x.Args) == 1 && x.Args[0].Kind == "indexaddr" {
						ent = x
					}
					return false
				})
			}
		}
		if ent == nil {
			continue // no entry processed
		}
		fs := entryFieldFacts(s, ent)
		in := false
		for _, mu := range eventsOfKind(s, "mapupdate") {
			if mu.Recv == s.Rets[0] {
				in = true
			}
		}
		if in {
			incl = append(incl, fs)
		} else {
			excl = append(excl, fs)
		}
	}
	if len(incl) == 0 {
		return nil, false
	}
	return separators(excl, incl), true
}

package main

import (
	"go/types"
	"math/big"
	"sort"
)

// Zone (difference-bound matrix) domain over the integer terms compared on a path.
// Facts: a<b, a<=b (as !(b<a)), a==b, a!=b. Integers, so a<b is a-b <= -1.
// Disequalities are handled by case split (bounded).

type ordFact struct {
	op   string // "<" or "=="
	a, b *Term
	pos  bool
}

func isIntTerm(t *Term) bool {
	if t == nil || t.Typ == nil {
		return false
	}
	b, ok := t.Typ.Underlying().(*types.Basic)
	return ok && b.Info()&types.IsInteger != 0
}

func nonNeg(t *Term) bool {
	if t.Kind == "len" {
		return true
	}
	if t.Typ == nil {
		return false
	}
	if b, ok := t.Typ.Underlying().(*types.Basic); ok {
		return b.Info()&types.IsUnsigned != 0
	}
	return false
}

func splitFacts(facts []Fact) (bools map[string]bool, ords []ordFact, ok bool) {
	bools = map[string]bool{}
	for _, f := range facts {
		if p, seen := bools[f.T.key]; seen && p != f.Pos {
			return nil, nil, false
		}
		bools[f.T.key] = f.Pos
		if f.T.Kind == "binop" && (f.T.Name == "<" || f.T.Name == "==") && isIntTerm(f.T.Args[0]) && isIntTerm(f.T.Args[1]) {
			ords = append(ords, ordFact{f.T.Name, f.T.Args[0], f.T.Args[1], f.Pos})
		}
	}
	return bools, ords, true
}

var feasCache = map[string]bool{}

func ordKey(ords []ordFact) string {
	var ks []string
	for _, o := range ords {
		k := o.op + o.a.key + "|" + o.b.key
		if o.pos {
			k += "+"
		} else {
			k += "-"
		}
		ks = append(ks, k)
	}
	sort.Strings(ks)
	key := ""
	for _, k := range ks {
		key += k + ";"
	}
	return key
}

func feasible(facts []Fact) bool {
	_, ords, ok := splitFacts(facts)
	if !ok {
		return false
	}
	return sat(ords)
}

func sat(ords []ordFact) bool {
	if len(ords) == 0 {
		return true
	}
	key := ordKey(ords)
	if r, ok := feasCache[key]; ok {
		return r
	}
	r := satDBM(ords)
	feasCache[key] = r
	return r
}

type dbm struct {
	n   int
	idx map[string]int
	d   [][]*big.Int // d[i][j] = upper bound of x_i - x_j ; nil = +inf
}

func newDBM(terms []*Term) *dbm {
	m := &dbm{idx: map[string]int{"$zero": 0}}
	m.n = 1
	for _, t := range terms {
		if _, ok := m.idx[t.key]; !ok {
			m.idx[t.key] = m.n
			m.n++
		}
	}
	m.d = make([][]*big.Int, m.n)
	for i := range m.d {
		m.d[i] = make([]*big.Int, m.n)
		m.d[i][i] = big.NewInt(0)
	}
	return m
}

func (m *dbm) add(i, j int, c *big.Int) { // x_i - x_j <= c
	if m.d[i][j] == nil || c.Cmp(m.d[i][j]) < 0 {
		m.d[i][j] = new(big.Int).Set(c)
	}
}

func (m *dbm) close() bool {
	n := m.n
	for k := 0; k < n; k++ {
		for i := 0; i < n; i++ {
			if m.d[i][k] == nil {
				continue
			}
			for j := 0; j < n; j++ {
				if m.d[k][j] == nil {
					continue
				}
				s := new(big.Int).Add(m.d[i][k], m.d[k][j])
				if m.d[i][j] == nil || s.Cmp(m.d[i][j]) < 0 {
					m.d[i][j] = s
				}
			}
		}
	}
	for i := 0; i < n; i++ {
		if m.d[i][i].Sign() < 0 {
			return false
		}
	}
	return true
}

func constVal(t *Term) (*big.Int, bool) {
	if t.Kind == "const" {
		if v, ok := new(big.Int).SetString(t.Name, 10); ok {
			return v, true
		}
	}
	return nil, false
}

func satDBM(ords []ordFact) bool {
	var terms []*Term
	var neqs []ordFact
	for _, o := range ords {
		terms = append(terms, o.a, o.b)
		if o.op == "==" && !o.pos {
			neqs = append(neqs, o)
		}
	}
	if len(neqs) > 8 {
		neqs = neqs[:8] // bounded case split: remaining disequalities ignored (over-approximates feasibility)
	}
	var try func(k int, extra []ordFact) bool
	try = func(k int, extra []ordFact) bool {
		if k == len(neqs) {
			return satNoNeq(terms, append(append([]ordFact(nil), ords...), extra...))
		}
		o := neqs[k]
		return try(k+1, append(extra, ordFact{"<", o.a, o.b, true})) || try(k+1, append(append([]ordFact(nil), extra...), ordFact{"<", o.b, o.a, true}))
	}
	return try(0, nil)
}

// linear splits a term into base + offset. Constants have the zero node as base.
// Offsets are only peeled from signed integer arithmetic (unsigned subtraction may wrap).
func linear(t *Term) (base *Term, off *big.Int) {
	off = new(big.Int)
	for {
		if c, ok := constVal(t); ok {
			return nil, off.Add(off, c)
		}
		if t.Kind == "binop" && (t.Name == "+" || t.Name == "-") && isSigned(t.Typ) {
			if c, ok := constVal(t.Args[1]); ok {
				if t.Name == "+" {
					off.Add(off, c)
				} else {
					off.Sub(off, c)
				}
				t = t.Args[0]
				continue
			}
		}
		return t, off
	}
}

func isSigned(t types.Type) bool {
	if t == nil {
		return false
	}
	b, ok := t.Underlying().(*types.Basic)
	return ok && b.Info()&types.IsInteger != 0 && b.Info()&types.IsUnsigned == 0
}

func satNoNeq(terms []*Term, ords []ordFact) bool {
	var bases []*Term
	for _, t := range terms {
		if b, _ := linear(t); b != nil {
			bases = append(bases, b)
		}
	}
	m := newDBM(bases)
	for _, t := range bases {
		if nonNeg(t) {
			m.add(0, m.idx[t.key], big.NewInt(0)) // 0 - x <= 0
		}
	}
	node := func(b *Term) int {
		if b == nil {
			return 0
		}
		return m.idx[b.key]
	}
	// a + oa - (b + ob) <= c   ==>   a - b <= c - oa + ob
	le := func(a, b *Term, c int64) {
		ba, oa := linear(a)
		bb, ob := linear(b)
		k := big.NewInt(c)
		k.Sub(k, oa)
		k.Add(k, ob)
		m.add(node(ba), node(bb), k)
	}
	for _, o := range ords {
		switch {
		case o.op == "<" && o.pos: // a - b <= -1
			le(o.a, o.b, -1)
		case o.op == "<" && !o.pos: // a >= b : b - a <= 0
			le(o.b, o.a, 0)
		case o.op == "==" && o.pos:
			le(o.a, o.b, 0)
			le(o.b, o.a, 0)
		}
	}
	return m.close()
}

// implies reports whether facts imply the relation (op,a,b,pos).
func implies(facts []Fact, op string, a, b *Term, pos bool) bool {
	_, ords, ok := splitFacts(facts)
	if !ok {
		return true
	}
	return !sat(append(append([]ordFact(nil), ords...), ordFact{op, a, b, !pos}))
}

// admits reports whether facts together with the extra relations are satisfiable.
func admits(facts []Fact, extra ...ordFact) bool {
	_, ords, ok := splitFacts(facts)
	if !ok {
		return false
	}
	return sat(append(append([]ordFact(nil), ords...), extra...))
}

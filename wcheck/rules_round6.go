package main

// Rules added after the sixth round of seeded changes.

import (
	"go/types"
	"strconv"
	"strings"

	"golang.org/x/tools/go/ssa"
)

// ruleSQLStoreReachesMain: a store built on the opened database (any constructor of the SQL store package) is put to use:
// it flows into an argument of omniwitness.Main or of another function of the module, or is returned to the caller. A
// store that is built and then dropped (a shadowed variable that only ever has a method called on it) leaves the witness
// on another store while the database file looks in use — nothing survives a restart.
func ruleSQLStoreReachesMain(w *World, r *Run, rule string) {
	isCtor := func(cc *ssa.CallCommon) bool {
		sc := cc.StaticCallee()
		if sc == nil || pkgPathOf(sc) != pSQL || sc.Signature.Recv() != nil || sc.Signature.Results().Len() == 0 {
			return false
		}
		return strings.Contains(typeStr(sc.Signature.Results().At(0).Type()), "LogStatePersistence")
	}
	n := 0
	for _, fn := range w.prodFns() {
		if pkgPathOf(fn) == pSQL {
			continue
		}
		for _, b := range fn.Blocks {
			for _, in := range b.Instrs {
				c, ok := in.(*ssa.Call)
				if !ok || !isCtor(&c.Call) {
					continue
				}
				n++
				// forward slice of the built value
				seen := map[ssa.Value]bool{}
				used := false
				var walk func(v ssa.Value, d int)
				walk = func(v ssa.Value, d int) {
					if v == nil || seen[v] || d > 12 || used {
						return
					}
					seen[v] = true
					refs := v.Referrers()
					if refs == nil {
						return
					}
					for _, ref := range *refs {
						switch x := ref.(type) {
						case *ssa.Return:
							used = true
						case *ssa.Phi:
							walk(x, d+1)
						case *ssa.MakeInterface:
							walk(x, d+1)
						case *ssa.ChangeInterface:
							walk(x, d+1)
						case *ssa.ChangeType:
							walk(x, d+1)
						case *ssa.Extract:
							if x.Index == 0 {
								walk(x, d+1)
							}
						case *ssa.Store:
							if x.Val == v {
								if al, ok := x.Addr.(*ssa.Alloc); ok {
									for _, ar := range *al.Referrers() {
										if u, ok := ar.(*ssa.UnOp); ok && u.X == al {
											walk(u, d+1)
										}
										if mc, ok := ar.(*ssa.MakeClosure); ok {
											_ = mc
											used = true // captured by a closure: handed on
										}
									}
								} else {
									used = true // stored into a longer-lived structure
								}
							}
						case ssa.CallInstruction:
							cc := x.Common()
							for ai, a := range cc.Args {
								if a != v {
									continue
								}
								if cc.IsInvoke() {
									used = true
								} else if sc := cc.StaticCallee(); sc != nil {
									if sc.Signature.Recv() != nil && ai == 0 {
										continue // only a method called on it
									}
									used = true
								} else {
									used = true
								}
							}
						}
					}
				}
				walk(c, 0)
				r.Check(used, rule, funcNameOrSSA(outermost(fn))+" | a store built on the database is put to use", w.pos(c.Pos()), "the SQL store built here is never handed on (a shadowed or dropped variable: at most a method is called on it): the witness runs on another store and the database stays empty, so a restart forgets every acknowledged checkpoint")
			}
		}
	}
	if n == 0 {
		r.Undecided(rule, "construction of the SQL store outside its package", "", "not found")
	}
}

// ruleRowsClosed: a result set obtained from Query is closed on every path that got one (a deferred Close, or a Close
// before each return): an open result set pins its connection, and on a single-connection store every later operation
// blocks for ever.
func ruleRowsClosed(w *World, r *Run, rule string) {
	n := 0
	for _, fn := range w.prodFns() {
		if fn.Parent() != nil {
			continue
		}
		has := false
		for _, b := range fn.Blocks {
			for _, in := range b.Instrs {
				if c, ok := in.(ssa.CallInstruction); ok {
					name := ssaCallName(c.Common())
					if strings.HasPrefix(name, "(*database/sql.") && (strings.HasSuffix(name, ").Query") || strings.HasSuffix(name, ").QueryContext")) {
						has = true
					}
				}
			}
		}
		if !has {
			continue
		}
		e := w.engine(3, 2)
		for _, s := range e.Explore(fn) {
			if s.Panic {
				continue
			}
			for _, q := range calls(s, "(*database/sql.DB).Query", "(*database/sql.DB).QueryContext", "(*database/sql.Tx).Query", "(*database/sql.Tx).QueryContext") {
				if !okBefore(s, q, 0) {
					continue // no result set on this path
				}
				n++
				rows := res(q, 0)
				closed := false
				for _, c := range calls(s, "(*database/sql.Rows).Close") {
					if c.Recv == rows {
						closed = true
					}
				}
				// handed on to the caller: the caller's duty
				for _, ret := range s.Rets {
					if ret == rows {
						closed = true
					}
				}
				r.Check(closed, rule, funcName(fn)+" | a result set is closed on every path that obtained one", w.pos(s.RetPos), "this return leaves the result set of the Query at "+w.pos(q.Pos)+" open (no rows.Close on this path): it keeps its connection, and with one connection per store every later read or update blocks")
			}
		}
	}
	if n == 0 {
		r.Undecided(rule, "Query call sites", "", "none found in production code")
	}
}

// ruleDecodeIntoSizedBuffer: encoding/hex.Decode and base64's Decode write into a caller-supplied buffer and panic when it
// is too short for the source; in code that handles peers' data the destination must be sized from the source
// (make([]byte, DecodedLen(len(src)))) — a fixed array is only right for sources whose length has been checked.
func ruleDecodeIntoSizedBuffer(w *World, r *Run, rule string, reach map[*ssa.Function]bool) {
	bad := 0
	for fn := range reach {
		if !w.isProd(fn) {
			continue
		}
		for _, b := range fn.Blocks {
			for _, in := range b.Instrs {
				c, ok := in.(ssa.CallInstruction)
				if !ok {
					continue
				}
				name := ssaCallName(c.Common())
				if name != "encoding/hex.Decode" && name != "(*encoding/base64.Encoding).Decode" && name != "(*encoding/base32.Encoding).Decode" {
					continue
				}
				args := c.Common().Args
				dst := args[len(args)-2]
				sized := false
				if mk, ok := dst.(*ssa.MakeSlice); ok {
					if lc, ok := mk.Len.(*ssa.Call); ok {
						ln := ssaCallName(lc.Common())
						if strings.HasSuffix(ln, "DecodedLen") {
							sized = true
						}
					}
				}
				if !sized {
					bad++
					r.Fail(rule, funcNameOrSSA(outermost(fn))+" | Decode's destination is sized from its source", w.pos(in.Pos()), short(name)+" writes into a buffer that is not make([]byte, DecodedLen(len(src))): a source longer than the buffer allows makes it index out of range (a panic in a goroutine nobody recovers), so a peer's over-long field kills the process")
				}
			}
		}
	}
	if bad == 0 {
		r.Pass(rule, "network-input functions | no Decode into a buffer not sized from the source", "", "")
	}
}

// ruleUpdateNotReentered: Witness.Update is not called from code it calls itself (recursion, a retry by re-entry): a
// re-entered update counts the request a second time and runs the first-matching-rule decision twice.
func ruleUpdateNotReentered(w *World, r *Run, rule string) {
	upd := w.fn(fnUpdate)
	if upd == nil {
		r.Undecided(rule, fnUpdate, "", "anchor not found")
		return
	}
	reach := reachableModule(w, []*ssa.Function{upd})
	bad := false
	for fn := range reach {
		for _, b := range fn.Blocks {
			for _, in := range b.Instrs {
				if c, ok := in.(ssa.CallInstruction); ok && c.Common().StaticCallee() == upd {
					bad = true
					r.Fail(rule, fnUpdate+" | not re-entered from its own call tree", w.pos(in.Pos()), "Update is called again from "+short(fn.String())+", which Update itself reaches: one request is then counted as two attempts (and answered by a second run of the decision)")
				}
			}
		}
	}
	if !bad {
		r.Pass(rule, fnUpdate+" | not re-entered from its own call tree", "", "")
	}
}

var _ = types.Typ

// ruleVerdictStatusAfterUpdate (control-flow form of "verdict statuses only after the witness was asked", which the path
// engine cannot see when the guard is on a length the bounded unrolling makes small): in the function of the endpoint
// package that calls the witness's Update, a status of 200, 403, 409 or 422 is returned or written only at a point the
// Update call dominates.
func ruleVerdictStatusAfterUpdate(w *World, r *Run, rule string) {
	verdict := map[int64]bool{200: true, 403: true, 409: true, 422: true}
	n := 0
	for _, fn := range w.prodFns() {
		if pkgPathOf(fn) != pBastion {
			continue
		}
		var upd ssa.Instruction
		for _, b := range fn.Blocks {
			for _, in := range b.Instrs {
				if c, ok := in.(ssa.CallInstruction); ok && c.Common().IsInvoke() && ssaCallName(c.Common()) == cFeederUpdate {
					upd = in
				}
			}
		}
		if upd == nil {
			continue
		}
		n++
		idx := func(b *ssa.BasicBlock, in ssa.Instruction) int {
			for i, x := range b.Instrs {
				if x == in {
					return i
				}
			}
			return -1
		}
		after := func(in ssa.Instruction) bool {
			if in.Block() == upd.Block() {
				return idx(in.Block(), in) > idx(upd.Block(), upd)
			}
			return upd.Block().Dominates(in.Block())
		}
		isVerdict := func(v ssa.Value) (int64, bool) {
			c, ok := v.(*ssa.Const)
			if !ok || c.Value == nil {
				return 0, false
			}
			b, ok := c.Type().Underlying().(*types.Basic)
			if !ok || b.Info()&types.IsInteger == 0 {
				return 0, false
			}
			return c.Int64(), verdict[c.Int64()]
		}
		for _, b := range fn.Blocks {
			for _, in := range b.Instrs {
				var vals []ssa.Value
				switch x := in.(type) {
				case *ssa.Return:
					vals = x.Results
				case *ssa.Call:
					name := ssaCallName(&x.Call)
					if name == "(net/http.ResponseWriter).WriteHeader" || name == "net/http.Error" {
						vals = x.Call.Args
					}
				}
				for _, v := range vals {
					if code, ok := isVerdict(v); ok && !after(in) {
						r.Fail(rule, funcName(fn)+" | verdict statuses only after the witness was asked", w.pos(in.Pos()), "status "+itoa64(code)+" is produced at a point the call of the witness's Update does not dominate: the endpoint pronounces a verdict of its own — the request is neither counted as an attempt nor judged by the witness (an early refusal must be 400, 404 or 429)")
					}
				}
			}
		}
	}
	if n == 0 {
		r.Undecided(rule, pBastion+" | function calling the witness's Update", "", "not found")
		return
	}
	r.Pass(rule, pBastion+" | verdict statuses are produced only where the Update call dominates", "", "")
}

func itoa64(v int64) string { return strconv.FormatInt(v, 10) }

package main

import (
	"go/types"
	"strings"

	"golang.org/x/tools/go/ssa"
)

type feedFuncs struct {
	fetchCheckpoint *ssa.Function
	fetchProof      *ssa.Function
	from, to        *Term // the two log.Checkpoint parameters of fetchProof
}

// feederFuncs resolves the functions a feeder stores in FeedOpts.FetchCheckpoint / FetchProof (closure, method value
// or named function), from the options value it hands to feeder.Run / feeder.FeedOnce.
func feederFuncs(w *World, r *Run, rule, fp string) (*feedFuncs, bool) {
	name := modPath + "/internal/feeder/" + fp + ".FeedLog"
	fn := w.fn(name)
	if fn == nil {
		r.Undecided(rule, name, "", "feeder entry point not found")
		return nil, false
	}
	opaque := []string{fnRun, fnFeedOnce, pClient + ".NewSumDB"}
	for _, f := range w.prodFns() {
		if pkgPathOf(f) == pkgPathOf(fn) && f != fn && f.Parent() == nil && !reachesCallee(f, 0, fnRun, fnFeedOnce) && !returnsFunc(f) {
			opaque = append(opaque, funcNameOrSSA(f))
		}
	}
	sums, _, ok := exploreOpaque(w, r, rule, name, 4, 1, opaque...)
	if !ok {
		return nil, false
	}
	resolve := func(t *Term) *ssa.Function {
		if t == nil || (t.Kind != "closure" && t.Kind != "func") {
			return nil
		}
		f := w.funcs[t.Name]
		if f != nil && strings.HasSuffix(f.Name(), "$bound") {
			if obj := f.Object(); obj != nil {
				for _, m := range w.modFns {
					if m.Object() == obj && m.Synthetic == "" {
						return m
					}
				}
				// a method value of an interface value (s.ConsistencyProof with s a feeder.Source): the method of the concrete
				// type the bound receiver was made from
				if fo, ok := obj.(*types.Func); ok && len(t.Args) > 0 {
					if ct := concreteType(t.Args[0]); ct != nil {
						if m := w.prog.LookupMethod(ct, fo.Pkg(), fo.Name()); m != nil && m.Blocks != nil {
							return m
						}
					}
				}
			}
		}
		return f
	}
	out := &feedFuncs{}
	for _, s := range sums {
		for _, c := range calls(s, fnRun, fnFeedOnce) {
			opts := c.Args[len(c.Args)-1]
			if opts.Kind != "structval" {
				continue
			}
			for _, f := range opts.Args {
				switch f.Name {
				case "FetchCheckpoint":
					out.fetchCheckpoint = resolve(f.Args[0])
				case "FetchProof":
					out.fetchProof = resolve(f.Args[0])
				}
			}
		}
	}
	if out.fetchProof == nil || out.fetchProof.Blocks == nil {
		r.Undecided(rule, name+" | FetchProof function", "", "could not resolve the function stored in FeedOpts.FetchProof")
		return nil, false
	}
	for _, p := range out.fetchProof.Params {
		if typeStr(p.Type()) == "log.Checkpoint" {
			t := mk("param", p.Name(), 0, p.Type())
			if out.from == nil {
				out.from = t
			} else if out.to == nil {
				out.to = t
			}
		}
	}
	if out.from == nil || out.to == nil {
		r.Undecided(rule, name+" | FetchProof signature", "", "fetchProof does not take (from, to log.Checkpoint)")
		return nil, false
	}
	return out, true
}

#!/bin/bash
# usage: tools/tryold.sh <base-commit> <patch.diff> [props...] — for patches that conflict with a later fix: commit of /repo:
# evaluates them in a scratch worktree of the commit they were written against (bin/wcheck -repo), then removes the worktree.
set -u
base=$1; patch=$(readlink -f "$2"); shift 2
props=${*:-all}
cd /verif
wt=$(mktemp -d /tmp/mut/oldwt.XXXX); rmdir $wt
git -C /repo worktree add -q --detach $wt $base || exit 2
tmp=$(mktemp -d)
trap 'git -C /repo worktree remove --force $wt; rm -rf "$tmp"' EXIT
git -C $wt apply "$patch" || { echo "patch does not apply to $base"; exit 2; }
for p in $props; do
  bin/wcheck -repo $wt -prop "$p" -tier quick -evdir "$tmp" 2>&1 | grep -E "violation|undecided|VIOLATION|KNOWN" | cut -c1-${CUT:-260}
done

package main

// Writer/reader framing agreement (C11.h): the string templates that Proof.Marshal can return (zero, one, two
// elements: path summaries with the builder's writes as pieces) are confronted with the refusing paths of
// Proof.Unmarshal. A refusing path all of whose conditions are decided true on a template means the reader refuses
// something the writer produces for a list of that length — the list does not read back. Conditions that cannot be
// decided on a template (content of a base64 piece, lengths above the known literal part) leave the path undecided and
// are not reported: this is the framing clause, not round-trip equality of the values.

import (
	"fmt"
	"strings"
)

// tmplLen: exact length when the template has no opaque piece, else a lower bound.
func tmplLen(pcs []piece) (n int, exact bool) {
	exact = true
	for _, p := range pcs {
		if p.k == "lit" {
			n += len(p.lit)
		} else {
			exact = false
		}
	}
	return
}

// isViewOf: t is src, or a string/[]byte conversion of it.
func isViewOf(t, src *Term) bool {
	for t != nil && t.Kind == "conv" && len(t.Args) == 1 && (t.Name == "string" || t.Name == "[]byte") {
		t = t.Args[0]
	}
	return t == src
}

func constStr(t *Term) (string, bool) {
	for t != nil && t.Kind == "conv" && len(t.Args) == 1 && (t.Name == "string" || t.Name == "[]byte") {
		t = t.Args[0]
	}
	if t != nil && t.Kind == "const" && strings.HasPrefix(t.Name, "\"") {
		return unquote(t.Name), true
	}
	return "", false
}

// evalOnTemplate decides a boolean term over the reader's input when that input has the shape pcs.
func evalOnTemplate(t *Term, data *Term, pcs []piece) (val, known bool) {
	lenOf := func(x *Term) bool {
		return x.Kind == "len" && len(x.Args) == 1 && isViewOf(x.Args[0], data) || x.Kind == "call" && x.Name == "builtin:len" && len(x.Args) >= 3 && isViewOf(x.Args[2], data)
	}
	n, exact := tmplLen(pcs)
	switch {
	case t.Kind == "call" && len(t.Args) == 4 && (t.Name == "strings.HasSuffix" || t.Name == "bytes.HasSuffix" || t.Name == "strings.HasPrefix" || t.Name == "bytes.HasPrefix") && isViewOf(t.Args[2], data):
		c, ok := constStr(t.Args[3])
		if !ok {
			return false, false
		}
		if c == "" {
			return true, true
		}
		if exact && n < len(c) {
			return false, true
		}
		if len(pcs) == 0 {
			return false, true
		}
		edge := pcs[len(pcs)-1]
		if strings.Contains(t.Name, "Prefix") {
			edge = pcs[0]
		}
		if edge.k == "lit" && len(edge.lit) >= len(c) {
			if strings.Contains(t.Name, "Prefix") {
				return strings.HasPrefix(edge.lit, c), true
			}
			return strings.HasSuffix(edge.lit, c), true
		}
		return false, false
	case t.Kind == "binop" && len(t.Args) == 2 && (t.Name == "<" || t.Name == "=="):
		a, b := t.Args[0], t.Args[1]
		if t.Name == "==" {
			// s == "" / len(s) == 0
			if c, ok := constStr(b); ok && isViewOf(a, data) && c == "" {
				return exact && n == 0, exact || n > 0
			}
			if c, ok := constStr(a); ok && isViewOf(b, data) && c == "" {
				return exact && n == 0, exact || n > 0
			}
			if lenOf(a) {
				a, b = b, a
			}
			if cv, ok := constVal(a); ok && lenOf(b) && cv.IsInt64() {
				if exact {
					return int64(n) == cv.Int64(), true
				}
				if int64(n) > cv.Int64() {
					return false, true
				}
			}
			return false, false
		}
		if cv, ok := constVal(a); ok && lenOf(b) && cv.IsInt64() { // c < len(s)
			if exact {
				return cv.Int64() < int64(n), true
			}
			if cv.Int64() < int64(n) {
				return true, true
			}
			return false, false
		}
		if cv, ok := constVal(b); ok && lenOf(a) && cv.IsInt64() { // len(s) < c
			if exact {
				return int64(n) < cv.Int64(), true
			}
			if int64(n) >= cv.Int64() {
				return false, true
			}
			return false, false
		}
	}
	return false, false
}

func ruleProofFraming(w *World, r *Run, rule string) {
	wn := "(" + pWitness + ".Proof).Marshal"
	rn := "(*" + pWitness + ".Proof).Unmarshal"
	wf, rf := w.fn(wn), w.fn(rn)
	if wf == nil || rf == nil {
		r.Undecided(rule, "Proof.Marshal / Proof.Unmarshal", "", "the proof codec's two functions were not found in the type-checked program")
		return
	}
	// writer templates by number of elements written
	we := w.engine(3, 2)
	wsums := we.Explore(wf)
	r.Analysed(wn, len(wsums))
	type tmpl struct {
		k   int
		pcs []piece
		pos string
	}
	var tmpls []tmpl
	seen := map[int]bool{}
	for i := range wsums {
		s := &wsums[i]
		if s.Panic || s.Trunc != "" || len(s.Rets) != 1 {
			continue
		}
		pieceCtx = s
		pcs := mergeLits(strPieces(s.Rets[0]))
		k := 0
		for _, p := range pcs {
			if p.k != "lit" {
				k++
			}
		}
		if !seen[k] {
			seen[k] = true
			tmpls = append(tmpls, tmpl{k, pcs, w.pos(s.RetPos)})
		}
	}
	pieceCtx = nil
	if !seen[0] || !seen[1] {
		r.Undecided(rule, wn, "", fmt.Sprintf("vacuity floor: the writer's output for the empty and for a one-element list were expected among its paths (element counts seen: %v)", seen))
		return
	}
	re := w.engine(3, 1)
	rsums := re.Explore(rf)
	r.Analysed(rn, len(rsums))
	data := paramN(rf, 0)
	nRefusing := 0
	for _, tp := range tmpls {
		key := fmt.Sprintf("Proof.Marshal → Proof.Unmarshal | the reader's framing conditions accept what the writer produces for a list of %d hash(es)", tp.k)
		bad, where := "", ""
		for _, s := range rsums {
			if s.Panic || len(s.Rets) != 1 || s.Rets[0].Kind == "nil" {
				continue
			}
			nRefusing++
			all := len(s.Facts) > 0
			for _, f := range s.Facts {
				v, known := evalOnTemplate(f.T, data, tp.pcs)
				if !known || v != f.Pos {
					all = false
					break
				}
			}
			if all {
				bad, where = factsString(s), w.pos(s.RetPos)
				break
			}
		}
		r.Check(bad == "", rule, key, where, fmt.Sprintf("Marshal writes %s for a list of %d hash(es), and Unmarshal refuses exactly that (conditions of the refusing path, all decided on the template: %s): the list does not read back", templateString(tp.pcs), tp.k, bad))
	}
	if nRefusing == 0 {
		r.Undecided(rule, rn, "", "no refusing path of the reader found")
	}
	// "no data" and "empty data" are the same text: the empty list is written as zero bytes, and zero bytes reach the reader
	// as a nil slice as easily as an empty one (bytes.Buffer.Bytes after writing "", append(nil, ""...), a JSON null)
	nilKey := "Proof.Unmarshal | a nil input is the empty list"
	nilBad := false
	for _, s := range rsums {
		if s.Panic || len(s.Rets) != 1 || s.Rets[0].Kind == "nil" {
			continue
		}
		for _, f := range s.Facts {
			if f.Pos && f.T.Kind == "binop" && f.T.Name == "==" && len(f.T.Args) == 2 && ((f.T.Args[0] == data && f.T.Args[1].Kind == "nil") || (f.T.Args[1] == data && f.T.Args[0].Kind == "nil")) {
				nilBad = true
				r.Fail(rule, nilKey, w.pos(s.RetPos), "Unmarshal refuses a nil input: Marshal writes the empty list as zero bytes, which arrive as nil whenever they travelled through a buffer or a field that was never assigned — the empty list does not read back")
			}
		}
	}
	if !nilBad {
		r.Pass(rule, nilKey, "", "")
	}
	// the reader must not strip a *set* of characters that contains the writer's terminator from its input: an empty hash
	// is written as a bare terminator, so TrimRight/Trim/TrimSpace/Fields swallow trailing (or all) empty elements and the
	// list reads back shorter than it was written. Cutting exactly one terminator (TrimSuffix, the slice of Split) is fine.
	term := ""
	for _, tp := range tmpls {
		if tp.k == 1 && len(tp.pcs) == 2 && tp.pcs[1].k == "lit" {
			term = tp.pcs[1].lit
		}
	}
	key := "Proof.Unmarshal | the input is not trimmed by a character set containing the writer's terminator"
	bad := false
	for _, s := range rsums {
		for _, ev := range s.Events {
			if ev.Kind != "call" || len(ev.Args) == 0 || ev.Args[0] == nil || !mentions(ev.Args[0], data) {
				continue
			}
			strips := false
			switch ev.Callee {
			case "strings.TrimSpace", "bytes.TrimSpace", "strings.Fields", "bytes.Fields":
				strips = term != "" && strings.TrimSpace(term) == ""
			case "strings.TrimRight", "strings.TrimLeft", "strings.Trim", "bytes.TrimRight", "bytes.TrimLeft", "bytes.Trim":
				if len(ev.Args) == 2 {
					if cut, ok := constStr(ev.Args[1]); ok {
						strips = term != "" && strings.ContainsAny(term, cut)
					} else {
						strips = true
					}
				}
			}
			if strips && !bad {
				bad = true
				r.Fail(rule, key, w.pos(ev.Pos), short(ev.Callee)+" removes every trailing (or leading) terminator from the reader's input, but the writer encodes an empty hash as a bare terminator: a list ending in empty hashes reads back shorter than it was written")
			}
		}
	}
	if !bad {
		r.Pass(rule, key, "", "")
	}
}

func templateString(pcs []piece) string {
	if len(pcs) == 0 {
		return `""`
	}
	return piecesString(pcs)
}

package main

// Rules added after the seventh round of seeded changes (optimisations and modernisations gone wrong).

import (
	"go/types"
	"strings"

	"golang.org/x/tools/go/ssa"
)

func instrIndex(b *ssa.BasicBlock, in ssa.Instruction) int {
	for i, x := range b.Instrs {
		if x == in {
			return i
		}
	}
	return -1
}

func dominatesInstr(a, b ssa.Instruction) bool {
	if a.Block() == b.Block() {
		return instrIndex(a.Block(), a) < instrIndex(b.Block(), b)
	}
	return a.Block().Dominates(b.Block())
}

// ruleNoFallbackToMemory: in the function that opens the database, the in-memory store is not created at a point the
// sql.Open call dominates: a deployment configured for durable storage must not quietly run without it (a witness that
// starts with empty state trusts every log on first use again).
func ruleNoFallbackToMemory(w *World, r *Run, rule string) {
	n := 0
	for _, fn := range w.prodFns() {
		var opens, mems []ssa.Instruction
		for _, b := range fn.Blocks {
			for _, in := range b.Instrs {
				c, ok := in.(ssa.CallInstruction)
				if !ok {
					continue
				}
				switch ssaCallName(c.Common()) {
				case "database/sql.Open":
					opens = append(opens, in)
				case pInmem + ".NewPersistence":
					mems = append(mems, in)
				}
			}
		}
		if len(opens) == 0 {
			continue
		}
		n++
		for _, m := range mems {
			for _, o := range opens {
				if dominatesInstr(o, m) {
					r.Fail(rule, funcNameOrSSA(outermost(fn))+" | no fall-back to the in-memory store once the database was opened", w.pos(m.Pos()), "the in-memory store is created on a path that has opened the database: when the database cannot be used the witness starts with empty state (every log trusted on first use again, nothing of this run survives) instead of refusing to start")
				}
			}
		}
	}
	if n == 0 {
		r.Undecided(rule, "function that opens the database", "", "not found")
		return
	}
	r.Pass(rule, "module | no fall-back to the in-memory store once the database was opened", "", "")
}

// ruleServeUnderCallersContext: the context under which requests of the bastion connection are served (ServeConnOpts
// .Context and the base http.Server's BaseContext) is the serving function's own context, not one with a deadline of its
// own (the dial's time-out): request contexts would all be expired a few seconds after the connection was made.
func ruleServeUnderCallersContext(w *World, r *Run, rule string) {
	sums, _, ok := exploreOpaque(w, r, rule, fnConnect, 4, 1, pBastion+".selfSignedCertificate")
	if !ok {
		return
	}
	fn := w.fn(fnConnect)
	ctx := paramN(fn, 0)
	n := 0
	for _, s := range sums {
		for _, sc := range calls(s, "(*golang.org/x/net/http2.Server).ServeConn") {
			if len(sc.Args) < 2 {
				continue
			}
			opts := structArg(sc, sc.Args[1])
			if opts == nil || opts.Kind != "structval" {
				continue
			}
			if c := structField(opts, "Context"); c != nil {
				n++
				good := c == ctx || (c.Kind == "call" && (c.Name == "context.WithCancel" || c.Name == "context.WithValue") && ctxDerived(c, ctx))
				r.Check(good, rule, fnConnect+" | requests are served under the connection loop's own context", w.pos(sc.Pos), "ServeConnOpts.Context is "+short(c.String())+", not the context the serving loop was given: a context with a deadline of its own (the dial's) makes every request on the connection run under an expired context shortly after it was made")
			}
		}
	}
	if n == 0 {
		r.Undecided(rule, fnConnect+" | ServeConn options", "", "no ServeConnOpts.Context found on the serving paths")
	}
}

// ruleLimiterBurstIsRate: the endpoint's limiter is rate.NewLimiter(rate.Limit(x), int(x)) for the one configured value x:
// with the documented setting 0 ("serve nothing") a burst forced to at least one lets the first request through.
func ruleLimiterBurstIsRate(w *World, r *Run, rule string) {
	fn := w.fn(fnFeedBastion)
	if fn == nil {
		r.Undecided(rule, fnFeedBastion, "", "anchor not found")
		return
	}
	e := w.engine(3, 1)
	e.opaque[fnConnect] = true
	n := 0
	strip := func(t *Term) *Term {
		for t != nil && t.Kind == "conv" && len(t.Args) == 1 {
			t = t.Args[0]
		}
		return t
	}
	for _, s := range e.Explore(fn) {
		for _, nl := range calls(s, "golang.org/x/time/rate.NewLimiter") {
			if len(nl.Args) != 2 {
				continue
			}
			n++
			lim, burst := strip(nl.Args[0]), strip(nl.Args[1])
			_, burstConst := constVal(burst)
			good := lim == burst || burstConst
			r.Check(good, rule, fnFeedBastion+" | limiter burst is the configured rate itself", w.pos(nl.Pos), "the limiter is built with rate "+short(lim.String())+" and burst "+short(burst.String())+": a burst that is not the configured rate itself (a floor of one, a multiple) serves requests the configured rate forbids — with rate 0, documented as 'serve nothing', the first request is processed")
		}
	}
	if n == 0 {
		r.Undecided(rule, fnFeedBastion+" | rate.NewLimiter", "", "no limiter construction found")
	}
}

// ruleNoBlockingSendFromLoopGoroutines: a goroutine started in a loop does not send, outside a select, on a channel whose
// constant capacity is smaller than the number of goroutines that may send: the second sender blocks for ever, and whoever
// waits for the goroutines (WaitGroup.Wait, errgroup.Wait) never returns — no context or time-out can end it.
func ruleNoBlockingSendFromLoopGoroutines(w *World, r *Run, rule string) {
	bad := 0
	inLoop := func(b *ssa.BasicBlock) bool {
		// b can reach itself
		seen := map[*ssa.BasicBlock]bool{}
		work := append([]*ssa.BasicBlock(nil), b.Succs...)
		for len(work) > 0 {
			x := work[len(work)-1]
			work = work[:len(work)-1]
			if x == b {
				return true
			}
			if seen[x] {
				continue
			}
			seen[x] = true
			work = append(work, x.Succs...)
		}
		return false
	}
	for _, fn := range w.prodFns() {
		for _, b := range fn.Blocks {
			for _, in := range b.Instrs {
				g, ok := in.(*ssa.Go)
				if !ok || !inLoop(b) {
					continue
				}
				mc, ok := g.Call.Value.(*ssa.MakeClosure)
				if !ok {
					continue
				}
				body := mc.Fn.(*ssa.Function)
				for fi, fv := range body.FreeVars {
					if _, isChan := fv.Type().Underlying().(*types.Pointer); !isChan {
						if _, direct := fv.Type().Underlying().(*types.Chan); !direct {
							continue
						}
					}
					// the channel bound to this free variable
					var mkc *ssa.MakeChan
					bv := mc.Bindings[fi]
					if x, ok := bv.(*ssa.MakeChan); ok {
						mkc = x
					} else if al, ok := bv.(*ssa.Alloc); ok {
						for _, ref := range *al.Referrers() {
							if st, ok := ref.(*ssa.Store); ok && st.Addr == al {
								if x, ok := st.Val.(*ssa.MakeChan); ok {
									mkc = x
								}
							}
						}
					}
					if mkc == nil {
						continue
					}
					capC, isConst := mkc.Size.(*ssa.Const)
					if !isConst {
						continue // sized from the work list: every sender has room
					}
					for _, bb := range body.Blocks {
						for _, bi := range bb.Instrs {
							snd, ok := bi.(*ssa.Send)
							if !ok {
								continue
							}
							// is the send on that channel?
							on := snd.Chan == ssa.Value(fv)
							if u, ok := snd.Chan.(*ssa.UnOp); ok && u.X == ssa.Value(fv) {
								on = true
							}
							if on {
								bad++
								r.Fail(rule, funcNameOrSSA(outermost(fn))+" | goroutines started in a loop do not block on a fixed-size channel", w.pos(snd.Pos()), "a goroutine started once per loop iteration sends on a channel of constant capacity "+capC.Value.String()+" outside a select: once the buffer is full the next sender blocks for ever and the wait for the goroutines never returns (a cycle that no time-out can end)")
							}
						}
					}
				}
			}
		}
	}
	if bad == 0 {
		r.Pass(rule, "module | goroutines started in a loop do not block on a fixed-size channel", "", "")
	}
}

var _ = strings.TrimSpace

// allModulePkgs: every production package of the module.
func allModulePkgs(w *World) []string {
	seen := map[string]bool{}
	var out []string
	for _, fn := range w.prodFns() {
		p := pkgPathOf(fn)
		if p != "" && !seen[p] {
			seen[p] = true
			out = append(out, p)
		}
	}
	return out
}

// ruleFeederPanics: the implicit-panic rule of C19 applied to what the registered feeders reach: a panic in a feeder's
// goroutine is recovered by nobody and takes every other log's feeder and the HTTP server down with it.
func ruleFeederPanics(w *World, r *Run, rule string) {
	fr := feederRegistry(w)
	var roots []*ssa.Function
	for _, impl := range fr.impl {
		if impl == nil || impl.Kind != "func" {
			continue
		}
		if fn := w.funcs[impl.Name]; fn != nil {
			roots = append(roots, fn)
		}
	}
	if len(roots) == 0 {
		r.Undecided(rule, "registered feeders", "", "none resolved")
		return
	}
	ruleImplicitPanic(w, r, rule, reachableModule(w, roots))
}

// ruleNoNilMapWriteInMain: no path of Main writes an entry into a map that is nil on that path (a table allocated only
// under one configuration and filled under every configuration panics at start-up for the others).
func ruleNoNilMapWriteInMain(w *World, r *Run, rule string) {
	mps, e, ok := mainPaths(w, r, rule)
	if !ok {
		return
	}
	bad := false
	for _, mp := range mps {
		for _, mu := range eventsOfKind(mp.s, "mapupdate") {
			if mu.Recv != nil && (mu.Recv.Kind == "nil" || mu.Recv.Kind == "zero") {
				if !bad {
					r.Fail(rule, fnMain+" | no entry is written into a nil map", w.pos(mu.Pos), "a map that is nil on this path receives an entry (assignment to entry in nil map: start-up panics under this configuration); path: "+pathString(e, mp.s))
				}
				bad = true
			}
		}
	}
	if !bad {
		r.Pass(rule, fnMain+" | no entry is written into a nil map", "", "")
	}
}

// ruleNoOwnHasher: the module implements no merkle.LogHasher: every log's proofs are verified with the stateless hasher of
// the merkle library. A hasher of the module's own that keeps a scratch buffer is shared by all logs through the log map:
// what one log's verification left in it decides another log's.
func ruleNoOwnHasher(w *World, r *Run, rule string) {
	m := ifaceMethod(w, "github.com/transparency-dev/merkle", "LogHasher", "HashChildren")
	if m == nil {
		r.Undecided(rule, "merkle.LogHasher", "", "interface not found")
		return
	}
	clean := true
	for _, f := range w.implementations(m) {
		if w.isProd(f) && f.Synthetic == "" && strings.HasPrefix(pkgPathOf(f), modPath) {
			clean = false
			r.Fail(rule, "module | no Merkle hasher implemented outside the merkle library", w.pos(f.Pos()), short(f.String())+" implements merkle.LogHasher: the witness's proof verification for every log then runs through code (and possibly state) of the module's own, shared across logs")
		}
	}
	if clean {
		r.Pass(rule, "module | no Merkle hasher implemented outside the merkle library", "", "")
	}
}

// ruleFetcherStateless: the client's fetch methods keep no mutable state in their receiver: no field is assigned and no
// buffer held in a field is reset or written (a per-fetcher scratch buffer is shared by every concurrent fetch: one tile's
// bytes are spliced into another's).
func ruleFetcherStateless(w *World, r *Run, rule string) {
	n, bad := 0, 0
	for _, name := range fetchMethods(w) {
		mi := strings.LastIndex(name, ").")
		if mi < 0 {
			continue
		}
		tn := name[strings.LastIndex(name[:mi], ".")+1 : mi]
		m := ifaceMethod(w, pClient, tn, name[mi+2:])
		if m == nil {
			continue
		}
		for _, f := range w.implementations(m) {
			if !w.isProd(f) || f.Synthetic != "" || f.Signature.Recv() == nil || len(f.Params) == 0 {
				continue
			}
			n++
			recv := ssa.Value(f.Params[0])
			onRecv := func(v ssa.Value) bool {
				for i := 0; i < 4; i++ {
					switch x := v.(type) {
					case *ssa.FieldAddr:
						if x.X == recv {
							return true
						}
						v = x.X
					case *ssa.UnOp:
						v = x.X
					default:
						return false
					}
				}
				return false
			}
			for _, b := range f.Blocks {
				for _, in := range b.Instrs {
					key := funcName(f) + " | a fetch keeps no state in the fetcher"
					switch x := in.(type) {
					case *ssa.Store:
						if onRecv(x.Addr) {
							bad++
							r.Fail(rule, key, w.pos(x.Pos()), "a field of the fetcher is assigned during a fetch: concurrent fetches (tiles of one proof, several feeders on one client) share it")
						}
					case ssa.CallInstruction:
						cc := x.Common()
						sc := cc.StaticCallee()
						if sc == nil || sc.Signature.Recv() == nil || len(cc.Args) == 0 || !onRecv(cc.Args[0]) {
							continue
						}
						switch sc.Name() {
						case "Reset", "Write", "WriteString", "WriteByte", "WriteRune", "ReadFrom", "Grow", "Truncate", "Store", "Add", "Swap":
							bad++
							r.Fail(rule, key, w.pos(in.Pos()), short(funcName(sc))+" on a field of the fetcher during a fetch: a scratch buffer or counter held in the fetcher is shared by every concurrent fetch, so one response's bytes end up in another's")
						}
					}
				}
			}
		}
	}
	if n == 0 {
		r.Undecided(rule, "implementations of the client's fetch methods", "", "none found")
		return
	}
	if bad == 0 {
		r.Pass(rule, pClient+" | fetch methods keep no state in the fetcher", "", "")
	}
}

package main

// C18 tile addressing decided on normalised string templates: every URL handed to the SumDB fetcher is normalised into
// pieces (literal text, decimal rendering of an integer term, zero-padded decimal rendering) whatever way it was built
// (Sprintf, Appendf, concatenation, strconv), and compared with the layout of golang.org/x/mod/sumdb/tlog.Tile.Path:
// tile/<H>/<L>/[x<NNN>/]*<NNN>[.p/<W>] with base-1000 digit groups of the tile index.

import (
	"fmt"
	"go/constant"
	"go/types"
	"math/big"
	"strings"
)

type piece struct {
	k   string // lit | dec | pad | str
	lit string
	t   *Term
	w   int
}

func (p piece) String() string {
	switch p.k {
	case "lit":
		return fmt.Sprintf("%q", p.lit)
	case "dec":
		return "dec(" + short(p.t.String()) + ")"
	case "pad":
		return fmt.Sprintf("pad%d(%s)", p.w, short(p.t.String()))
	}
	return "str(" + short(fmt.Sprint(p.t)) + ")"
}

func mergeLits(in []piece) []piece {
	var out []piece
	for _, p := range in {
		if p.k == "lit" {
			if p.lit == "" {
				continue
			}
			if n := len(out); n > 0 && out[n-1].k == "lit" {
				out[n-1].lit += p.lit
				continue
			}
		}
		out = append(out, p)
	}
	return out
}

// pieceCtx: the path whose events give the contents of strings.Builder / bytes.Buffer values (set by the rule in progress).
var pieceCtx *Summary

// builderPieces: what was written, in order, to the builder/buffer at addr before sequence number seq.
func builderPieces(addr *Term, seq int) ([]piece, bool) {
	if pieceCtx == nil {
		return nil, false
	}
	var out []piece
	for _, ev := range pieceCtx.Events {
		if ev.Kind != "call" || ev.Seq >= seq {
			continue
		}
		onIt := ev.Recv == addr
		m := ev.Callee[strings.LastIndex(ev.Callee, ".")+1:]
		isB := strings.HasPrefix(ev.Callee, "(*strings.Builder).") || strings.HasPrefix(ev.Callee, "(*bytes.Buffer).")
		switch {
		case onIt && isB && (m == "WriteString" || m == "Write") && len(ev.Args) == 1:
			out = append(out, strPieces(ev.Args[0])...)
		case onIt && isB && (m == "WriteByte" || m == "WriteRune") && len(ev.Args) == 1:
			if c, ok := constVal(ev.Args[0]); ok && c.IsInt64() && c.Int64() > 0 && c.Int64() < 128 {
				out = append(out, piece{k: "lit", lit: string(rune(c.Int64()))})
			} else {
				out = append(out, piece{k: "str", t: ev.Args[0]})
			}
		case onIt && isB && (m == "Grow" || m == "Len" || m == "Cap" || m == "String" || m == "Bytes"):
		case onIt && isB:
			return nil, false
		case ev.Callee == "fmt.Fprintf" && len(ev.Args) == 3 && ev.Args[0] == addr:
			out = append(out, fmtPieces(ev.Args[1], ev.Args[2])...)
		case ev.Callee == "fmt.Fprint" && len(ev.Args) == 2 && ev.Args[0] == addr:
			return nil, false
		}
	}
	return out, true
}

// strPieces normalises a string- or []byte-valued term.
func strPieces(t *Term) []piece {
	if t == nil {
		return []piece{{k: "str"}}
	}
	if t.Kind == "call" && (t.Name == "(*strings.Builder).String" || t.Name == "(*bytes.Buffer).String" || t.Name == "(*bytes.Buffer).Bytes") && len(t.Args) >= 2 && t.Args[1] != nil && pieceCtx != nil {
		for _, ev := range pieceCtx.Events {
			if ev.Kind == "call" && ev.Res == t {
				if ps, ok := builderPieces(t.Args[1], ev.Seq); ok {
					return ps
				}
			}
		}
	}
	switch {
	case t.Kind == "const" && strings.HasPrefix(t.Name, "\""):
		return []piece{{k: "lit", lit: unquote(t.Name)}}
	case t.Kind == "binop" && t.Name == "+" && len(t.Args) == 2:
		return append(strPieces(t.Args[0]), strPieces(t.Args[1])...)
	case t.Kind == "conv" && len(t.Args) == 1 && (t.Name == "string" || t.Name == "[]byte"):
		return strPieces(t.Args[0])
	case t.Kind == "nil":
		return nil
	case t.Kind == "alloc" || t.Kind == "zero":
		// an empty buffer to append to (make([]byte, 0, n), a nil slice variable)
		if n, known := knownLen(t); known && n == 0 {
			return nil
		}
	case t.Kind == "slice" && len(t.Args) == 3 && t.Args[1] == nil && t.Args[2] != nil && t.Args[2].Kind == "const" && t.Args[2].Name == "0":
		return nil // buf[:0]
	case t.Kind == "call":
		a := t.Args[2:]
		switch t.Name {
		case "fmt.Sprintf":
			if len(a) == 2 {
				return fmtPieces(a[0], a[1])
			}
		case "fmt.Appendf":
			if len(a) == 3 {
				return append(strPieces(a[0]), fmtPieces(a[1], a[2])...)
			}
		case "strconv.Itoa":
			if len(a) == 1 {
				return []piece{{k: "dec", t: normInt(a[0])}}
			}
		case "strconv.FormatInt", "strconv.FormatUint":
			if len(a) == 2 && a[1].Kind == "const" && a[1].Name == "10" {
				return []piece{{k: "dec", t: normInt(a[0])}}
			}
		case "(*encoding/base64.Encoding).AppendEncode", "(*encoding/base64.Encoding).AppendDecode", "encoding/hex.AppendEncode":
			// dst followed by the encoding of src (an opaque piece)
			if len(a) == 2 {
				return append(strPieces(a[0]), piece{k: "str", t: t})
			}
		case "strconv.AppendInt", "strconv.AppendUint":
			if len(a) == 3 && a[2].Kind == "const" && a[2].Name == "10" {
				return append(strPieces(a[0]), piece{k: "dec", t: normInt(a[1])})
			}
		case "fmt.Sprint":
			if len(a) == 1 && a[0].Kind == "varargs" {
				var out []piece
				for _, x := range a[0].Args {
					if isIntTerm(x) {
						out = append(out, piece{k: "dec", t: normInt(x)})
					} else {
						out = append(out, strPieces(x)...)
					}
				}
				return out
			}
		}
	case t.Kind == "append" && len(t.Args) >= 1:
		out := strPieces(t.Args[0])
		for _, el := range t.Args[1:] {
			if el.Kind == "varargs" {
				for _, x := range el.Args {
					if c, ok := constVal(x); ok && c.IsInt64() && c.Int64() > 0 && c.Int64() < 128 {
						out = append(out, piece{k: "lit", lit: string(rune(c.Int64()))})
					} else {
						out = append(out, piece{k: "str", t: x})
					}
				}
			} else {
				out = append(out, strPieces(el)...)
			}
		}
		return out
	}
	return []piece{{k: "str", t: t}}
}

// fmtPieces expands a constant format over its arguments; only the verbs the repository's URL builders use are understood.
func fmtPieces(format, va *Term) []piece {
	if format.Kind != "const" || va == nil || va.Kind != "varargs" {
		return []piece{{k: "str", t: format}}
	}
	f := unquote(format.Name)
	var out []piece
	arg := 0
	next := func() *Term {
		if arg < len(va.Args) {
			arg++
			return va.Args[arg-1]
		}
		return nil
	}
	for i := 0; i < len(f); i++ {
		if f[i] != '%' {
			out = append(out, piece{k: "lit", lit: string(f[i])})
			continue
		}
		j := i + 1
		for j < len(f) && strings.IndexByte("0123456789", f[j]) >= 0 {
			j++
		}
		if j >= len(f) {
			return []piece{{k: "str", t: format}}
		}
		flags, verb := f[i+1:j], f[j]
		i = j
		switch {
		case verb == '%':
			out = append(out, piece{k: "lit", lit: "%"})
		case verb == 'd' && flags == "":
			out = append(out, piece{k: "dec", t: normInt(next())})
		case verb == 'd' && len(flags) == 2 && flags[0] == '0':
			out = append(out, piece{k: "pad", t: normInt(next()), w: int(flags[1] - '0')})
		case (verb == 's' || verb == 'v') && flags == "":
			a := next()
			if a != nil && isIntTerm(a) && verb == 'v' {
				out = append(out, piece{k: "dec", t: normInt(a)})
			} else {
				out = append(out, strPieces(a)...)
			}
		default:
			return []piece{{k: "str", t: format}}
		}
	}
	if arg != len(va.Args) {
		return []piece{{k: "str", t: format}}
	}
	return out
}

// normInt strips numeric conversions and folds nested division by positive constants: (x/a)/b = x/(a*b).
func normInt(t *Term) *Term {
	if t == nil {
		return nil
	}
	switch {
	case t.Kind == "conv" && len(t.Args) == 1 && isIntTerm(t.Args[0]) && t.Typ != nil && isIntType(t.Typ):
		return normInt(t.Args[0])
	case t.Kind == "binop" && len(t.Args) == 2:
		a, b := normInt(t.Args[0]), normInt(t.Args[1])
		if t.Name == "/" && a.Kind == "binop" && a.Name == "/" {
			if c1, ok1 := constVal(a.Args[1]); ok1 && c1.Sign() > 0 {
				if c2, ok2 := constVal(b); ok2 && c2.Sign() > 0 {
					return mk("binop", "/", 0, types.Typ[types.Int], a.Args[0], mk("const", new(big.Int).Mul(c1, c2).String(), 0, types.Typ[types.Int]))
				}
			}
		}
		if a.Kind == "const" && b.Kind == "const" {
			if t.Name == "<<" {
				if x, ok := constVal(a); ok {
					if y, ok := constVal(b); ok && y.IsInt64() && y.Int64() >= 0 && y.Int64() < 62 {
						return mk("const", new(big.Int).Lsh(x, uint(y.Int64())).String(), 0, types.Typ[types.Int])
					}
				}
			}
		}
		typ := t.Typ
		if isIntTerm(a) && isIntTerm(b) && (t.Name == "/" || t.Name == "%" || t.Name == "<<" || t.Name == "+" || t.Name == "-") {
			typ = types.Typ[types.Int]
		}
		return mk("binop", t.Name, 0, typ, a, b)
	case t.Kind == "const" && t.Typ != nil && isIntType(t.Typ):
		return mk("const", t.Name, 0, types.Typ[types.Int])
	}
	return t
}

// substInt rebuilds t with every occurrence of from replaced by to, then normalises.
func substInt(t, from, to *Term) *Term {
	if t == nil || from == nil {
		return t
	}
	if t == from {
		return to
	}
	if len(t.Args) == 0 {
		return t
	}
	args := make([]*Term, len(t.Args))
	changed := false
	for i, a := range t.Args {
		args[i] = substInt(a, from, to)
		if args[i] != a {
			changed = true
		}
	}
	if !changed {
		return t
	}
	return mk(t.Kind, t.Name, t.Idx, t.Typ, args...)
}

func normFactsInt(fs []Fact, from, to *Term) []Fact {
	out := make([]Fact, 0, len(fs))
	for _, f := range fs {
		t := f.T
		if from != nil {
			t = substInt(t, from, to)
		}
		if t.Kind == "binop" && len(t.Args) == 2 && (t.Name == "<" || t.Name == "==") && isIntTerm(t.Args[0]) && isIntTerm(t.Args[1]) {
			a, b := normInt(t.Args[0]), normInt(t.Args[1])
			if t.Name == "==" {
				t = eqTerm(a, b)
			} else {
				// comparisons of a quotient by a positive constant with a constant are comparisons of the dividend:
				//   k < x/c  <=>  !(x < (k+1)*c)   for k >= 0;      x/c < k  <=>  x < k*c   for k >= 1
				for i := 0; i < 4; i++ {
					if ka, ok := constVal(a); ok && ka.Sign() >= 0 && b.Kind == "binop" && b.Name == "/" {
						if c, ok := constVal(b.Args[1]); ok && c.Sign() > 0 {
							lim := new(big.Int).Mul(new(big.Int).Add(ka, big.NewInt(1)), c)
							a, b = b.Args[0], mk("const", lim.String(), 0, types.Typ[types.Int])
							f.Pos = !f.Pos
							continue
						}
					}
					if kb, ok := constVal(b); ok && kb.Sign() >= 1 && a.Kind == "binop" && a.Name == "/" {
						if c, ok := constVal(a.Args[1]); ok && c.Sign() > 0 {
							a, b = a.Args[0], mk("const", new(big.Int).Mul(kb, c).String(), 0, types.Typ[types.Int])
							continue
						}
					}
					break
				}
				t = mk("binop", "<", 0, t.Typ, a, b)
			}
		}
		f.T = t
		out = append(out, f)
	}
	return out
}

type tileURL struct {
	height, level, off, width *Term
	groups                    int
	why                       string
	leadSlash                 bool
}

// parseTileURL matches normalised pieces against [/]tile/<dec H>/<dec L>/(x<pad3 G>/)*<pad3 G0>[.p/<dec W>], with
// G_i = (off / base^i) % base for one integer term off.
func parseTileURL(pcs []piece, base *big.Int) (tileURL, bool) {
	var u tileURL
	fail := func(why string) (tileURL, bool) {
		u.why = why
		return u, false
	}
	i := 0
	lit := func() (string, bool) {
		if i < len(pcs) && pcs[i].k == "lit" {
			i++
			return pcs[i-1].lit, true
		}
		return "", false
	}
	num := func(kind string) (*Term, bool) {
		if i < len(pcs) && pcs[i].k == kind && (kind != "pad" || pcs[i].w == 3) {
			i++
			return pcs[i-1].t, true
		}
		return nil, false
	}
	l, ok := lit()
	if !ok || (l != "/tile/" && l != "tile/") {
		return fail("does not start with tile/")
	}
	u.leadSlash = l == "/tile/"
	if u.height, ok = num("dec"); !ok {
		return fail("height is not rendered in plain decimal")
	}
	if l, ok = lit(); !ok || l != "/" {
		return fail("no '/' after the height")
	}
	if u.level, ok = num("dec"); !ok {
		return fail("level is not rendered in plain decimal")
	}
	var groups []*Term
	for {
		l, ok = lit()
		if !ok || (l != "/" && l != "/x") {
			return fail(fmt.Sprintf("unexpected text %q before a digit group", l))
		}
		g, ok := num("pad")
		if !ok {
			return fail("a digit group is not rendered as three zero-padded digits")
		}
		groups = append(groups, g)
		if l == "/" {
			break
		}
	}
	if i < len(pcs) {
		if l, ok = lit(); !ok || l != ".p/" {
			return fail("unexpected trailing text")
		}
		if u.width, ok = num("dec"); !ok {
			return fail("partial width is not rendered in plain decimal")
		}
		if i != len(pcs) {
			return fail("unexpected text after the partial width")
		}
	}
	// digit groups, most significant first
	k := len(groups)
	u.groups = k
	baseT := mk("const", base.String(), 0, types.Typ[types.Int])
	last := groups[k-1]
	if !(last.Kind == "binop" && last.Name == "%" && last.Args[1] == baseT) {
		return fail("the last digit group is not <index> % " + base.String())
	}
	u.off = last.Args[0]
	pow := new(big.Int).Set(base)
	for j := k - 2; j >= 0; j-- {
		want := mk("binop", "%", 0, types.Typ[types.Int], mk("binop", "/", 0, types.Typ[types.Int], u.off, mk("const", pow.String(), 0, types.Typ[types.Int])), baseT)
		if groups[j] != want {
			return fail(fmt.Sprintf("digit group %d from the right is %s, want %s", k-1-j, short(groups[j].String()), short(want.String())))
		}
		pow.Mul(pow, base)
	}
	return u, true
}

func piecesString(pcs []piece) string {
	var ss []string
	for _, p := range pcs {
		ss = append(ss, p.String())
	}
	return strings.Join(ss, " ")
}

const cGetData = "(" + pClient + ".Fetcher).GetData"

// fetchMethods: the methods of the client package's interfaces that fetch one resource by path — (…, path string) ([]byte,
// error): Fetcher.GetData and any context-taking sibling. The composition stops at these.
func fetchMethods(w *World) []string {
	out := []string{cGetData}
	p := w.pkg(pClient)
	if p == nil {
		return out
	}
	sc := p.Types.Scope()
	for _, n := range sc.Names() {
		tn, ok := sc.Lookup(n).(*types.TypeName)
		if !ok {
			continue
		}
		it, ok := tn.Type().Underlying().(*types.Interface)
		if !ok {
			continue
		}
		for i := 0; i < it.NumMethods(); i++ {
			m := it.Method(i)
			sg := m.Type().(*types.Signature)
			if sg.Params().Len() == 0 || sg.Results().Len() != 2 || typeStr(sg.Params().At(sg.Params().Len()-1).Type()) != "string" || typeStr(sg.Results().At(0).Type()) != "[]byte" {
				continue
			}
			name := "(" + pClient + "." + n + ")." + m.Name()
			if name != cGetData {
				out = append(out, name)
			}
		}
	}
	return out
}

// ruleTileAddressing: C18.a (path layout and digit groups) and C18.c (coordinates and partial-width suffix) on the
// composition tileReader.ReadTiles ∘ client (everything inlined down to Fetcher.GetData).
func ruleTileAddressing(w *World, r *Run, h int64) {
	tl := w.pkg("golang.org/x/mod/sumdb/tlog")
	if tl == nil {
		r.Undecided("C18.a", "golang.org/x/mod/sumdb/tlog", "", "reference package not loaded")
		return
	}
	ref, _ := tl.Types.Scope().Lookup("pathBase").(*types.Const)
	if ref == nil {
		r.Undecided("C18.a", "tlog.pathBase", "", "reference constant not found")
		return
	}
	baseI, _ := constant.Int64Val(ref.Val())
	base := big.NewInt(baseI)
	sp := modPath + "/internal/feeder/sumdb"
	rt := "(" + sp + ".tileReader).ReadTiles"
	fn := w.fn(rt)
	if fn == nil {
		r.Undecided("C18.c", rt, "", "anchor function not found in the type-checked program")
		return
	}
	fetchNames := fetchMethods(w)
	e := w.engine(8, 2)
	e.hof[cGroupGo] = 0          // tiles fetched by goroutines of an error group: each body is run in place
	e.loopBound, e.maxRec = 2, 2 // same bounds in both tiers: two tiles per request, up to three digit groups (index < 10^9)
	sums := e.Explore(fn)
	r.Analysed(rt+" ∘ client", len(sums))
	for _, s := range sums {
		if s.Trunc != "" {
			r.Undecided("C18.c", rt+" ∘ client", "", "path enumeration truncated: "+s.Trunc)
			return
		}
	}
	tiles := paramN(fn, 0)
	full := mk("const", fmt.Sprint(int64(1)<<uint(h)), 0, types.Typ[types.Int])
	hT := mk("const", fmt.Sprint(h), 0, types.Typ[types.Int])
	one := mk("const", "1", 0, types.Typ[types.Int])
	nReq, nPartial, nFull := 0, 0, 0
	groupsSeen := map[int]bool{}
	// the longest digit-group chain explored is the one cut by the unrolling bound: its upper limit is not checked
	maxGroups := 0
	for i := range sums {
		s := sums[i]
		pieceCtx = &sums[i]
		for _, gd := range calls(s, fetchNames...) {
			if u, ok := parseTileURL(mergeLits(strPieces(gd.Args[len(gd.Args)-1])), base); ok && u.groups > maxGroups {
				maxGroups = u.groups
			}
		}
	}
	for i := range sums {
		s := sums[i]
		pieceCtx = &sums[i]
		gds := calls(s, fetchNames...)
		for _, gd := range gds {
			nReq++
			pcs := mergeLits(strPieces(gd.Args[len(gd.Args)-1]))
			u, ok := parseTileURL(pcs, base)
			if !ok {
				r.Fail("C18.a", rt+" ∘ client | tile URL follows the reference layout tile/<H>/<L>/[x<NNN>/]*<NNN>[.p/<W>]", w.pos(gd.Pos), "the URL "+piecesString(pcs)+" "+u.why+": it is not the path tlog.Tile.Path gives for the same tile")
				continue
			}
			r.Pass("C18.a", rt+" ∘ client | tile URL follows the reference layout tile/<H>/<L>/[x<NNN>/]*<NNN>[.p/<W>]", w.pos(gd.Pos), "")
			if w.tilePathSlash == nil {
				w.tilePathSlash = map[bool]int{}
			}
			w.tilePathSlash[u.leadSlash]++
			groupsSeen[u.groups] = true
			// which tile is this request for?
			var elem *Term
			anySub(u.level, func(t *Term) bool {
				if t.Kind == "indexaddr" && t.Args[0] == tiles {
					elem = mk("deref", "", 0, nil, t)
				}
				return false
			})
			if elem == nil {
				r.Fail("C18.c", rt+" ∘ client | level, index and width of the URL are those of one requested tile", w.pos(gd.Pos), "the level in the URL is "+short(u.level.String())+", not the L of a requested tile")
				continue
			}
			el := func(f string) *Term { return mk("field", f, 0, nil, elem) }
			// the client's height: the constant the reader reports to tlog, directly or through the client's field
			var hField *Term
			if u.height.Kind != "const" {
				hField = u.height
			}
			facts := normFactsInt(s.Facts, hField, hT)
			good := u.level == el("L") && u.off == normInt(el("N")) && (u.height == hT || (hField != nil && hField.Kind == "field"))
			why := fmt.Sprintf("URL built from (height %s, level %s, index %s)", short(u.height.String()), short(u.level.String()), short(u.off.String()))
			// digit groups: k groups exactly when base^(k-1) <= index < base^k (k = 1: index < base)
			if good {
				lo := new(big.Int).Exp(base, big.NewInt(int64(u.groups-1)), nil)
				hi := new(big.Int).Mul(lo, base)
				cT := func(x *big.Int) *Term { return mk("const", x.String(), 0, types.Typ[types.Int]) }
				if u.groups > 1 && !implies(facts, "<", u.off, cT(lo), false) {
					good, why = false, fmt.Sprintf("%d digit groups are emitted on a path that does not imply index >= %s", u.groups, lo)
				}
				if u.groups < maxGroups && !implies(facts, "<", u.off, cT(hi), true) {
					good, why = false, fmt.Sprintf("only %d digit group(s) are emitted on a path that does not imply index < %s", u.groups, hi)
				}
			}
			r.Check(good, "C18.c", rt+" ∘ client | level, index and digit groups of the URL are those of the requested tile", w.pos(gd.Pos), why+"; path: "+pathString(e, s))
			// partial-width suffix exactly for tiles narrower than a full tile, carrying t.W (tlog asks for 1 <= W <= 1<<H)
			wT := mk("field", "W", 0, types.Typ[types.Int], elem)
			inv := []ordFact{{"<", wT, one, false}, {"<", full, wT, false}}
			key := rt + " ∘ client | partial-tile suffix exactly for tiles narrower than 1<<height, carrying t.W"
			if u.width == nil {
				nFull++
				r.Check(impliesWith(facts, inv, "==", wT, full, true), "C18.c", key, w.pos(gd.Pos), fmt.Sprintf("a tile can be requested at the full-tile path although its width may be below %s (facts on the path do not imply t.W == %s): the server answers 404 or a different tile; path: %s", full.Name, full.Name, pathString(e, s)))
			} else {
				nPartial++
				r.Check(u.width == wT && impliesWith(facts, inv, "<", wT, full, true), "C18.c", key, w.pos(gd.Pos), "the '.p/' suffix is requested on a path that admits a full tile, or does not carry t.W ("+short(u.width.String())+"); path: "+pathString(e, s))
			}
		}
		// a failure of ReadTiles is the failure of one of its fetches: a refusal of its own (an index it will not ask for, a
		// payload it does not like) makes the proofs that need that tile impossible to build
		if len(s.Rets) == 2 && s.Rets[1].Kind != "nil" && !s.Panic {
			caused := false
			for _, gd := range gds {
				if failed(s, gd) {
					caused = true
				}
			}
			// a coordinate tlog never asks for (a negative index) is not a tile: refusing it refuses nothing
			if !caused && len(s.Facts) > 0 {
				if lf := s.Facts[len(s.Facts)-1]; lf.Pos && lf.T.Kind == "binop" && lf.T.Name == "<" && len(lf.T.Args) == 2 {
					if c, ok := constVal(lf.T.Args[1]); ok && c.Sign() == 0 {
						caused = true
					}
				}
			}
			r.Check(caused, "C18.c", rt+" | ReadTiles fails only when a fetch failed", w.pos(s.RetPos), "ReadTiles returns an error on a path where every fetch it made succeeded (or none was made): it refuses a tile on its own authority, so no consistency proof that needs that tile can ever be produced; path: "+pathString(e, s))
		}
		// results appended one per tile, in order
		if len(s.Rets) == 2 && s.Rets[1].Kind == "nil" {
			elems, _ := sliceElems(s, s.Rets[0])
			good := len(elems) == len(gds)
			for i := range elems {
				if i < len(gds) && elems[i] != res(gds[i], 0) {
					good = false
				}
			}
			r.Check(good, "C18.c", rt+" | one result per requested tile, in order", w.pos(s.RetPos), "ReadTiles returns "+short(s.Rets[0].String()))
		}
	}
	if nReq == 0 || nPartial == 0 || nFull == 0 {
		r.Undecided("C18.c", rt+" ∘ client", "", fmt.Sprintf("vacuity floor: %d tile requests (%d partial, %d full) on the composed paths", nReq, nPartial, nFull))
	}
	if !groupsSeen[1] || !groupsSeen[2] {
		r.Undecided("C18.a", rt+" ∘ client | digit groups", "", fmt.Sprintf("paths with one and with two digit groups expected, saw %v", groupsSeen))
	}
}

// rulePixelTileURLs (C18.c): every string starting with tile/ that the pixel tile reader hands on is
// tile/<dec t.H>/<dec t.L>/<pad3 t.N>[.p/<dec t.W>] for one requested tile t, the suffix exactly when t.W < 1<<t.H.
func rulePixelTileURLs(w *World, r *Run) {
	prt := "(" + modPath + "/internal/feeder/pixelbt.tileReader).ReadTiles"
	fn := w.fn(prt)
	if fn == nil {
		r.Undecided("C18.c", prt, "", "anchor function not found in the type-checked program")
		return
	}
	e := w.engine(4, 1)
	sums := e.Explore(fn)
	r.Analysed(prt, len(sums))
	tiles := paramN(fn, 0)
	one := mk("const", "1", 0, types.Typ[types.Int])
	n := 0
	for i := range sums {
		s := sums[i]
		if s.Trunc != "" {
			r.Undecided("C18.c", prt, "", "path enumeration truncated: "+s.Trunc)
			return
		}
		pieceCtx = &sums[i]
		seen := map[*Term]bool{}
		for _, ev := range s.Events {
			if ev.Kind != "call" || strings.HasPrefix(ev.Callee, "fmt.") || strings.HasPrefix(ev.Callee, "strconv.") || strings.HasPrefix(ev.Callee, "(*strings.Builder)") || calleePkg(ev.Callee) == "k8s.io/klog/v2" {
				continue
			}
			for _, a := range ev.Args {
				if a == nil || seen[a] {
					continue
				}
				pcs := mergeLits(strPieces(a))
				if len(pcs) < 2 || pcs[0].k != "lit" || !(strings.HasPrefix(pcs[0].lit, "tile/") || strings.HasPrefix(pcs[0].lit, "/tile/")) {
					continue
				}
				seen[a] = true
				n++
				key := prt + " | tile path = tile/<t.H>/<t.L>/<t.N as %03d>[.p/<t.W>], suffix exactly when t.W < 1<<t.H"
				// layout
				okL := len(pcs) >= 6 && pcs[1].k == "dec" && pcs[2].k == "lit" && pcs[2].lit == "/" && pcs[3].k == "dec" && pcs[4].k == "lit" && pcs[4].lit == "/" && pcs[5].k == "pad" && pcs[5].w == 3 &&
					(len(pcs) == 6 || (len(pcs) == 8 && pcs[6].k == "lit" && pcs[6].lit == ".p/" && pcs[7].k == "dec"))
				if !okL {
					r.Fail("C18.c", key, w.pos(ev.Pos), "the tile path "+piecesString(pcs)+" does not follow the layout")
					continue
				}
				var elem *Term
				anySub(pcs[3].t, func(t *Term) bool {
					if t.Kind == "indexaddr" && t.Args[0] == tiles {
						elem = mk("deref", "", 0, nil, t)
					}
					return false
				})
				if elem == nil {
					r.Fail("C18.c", key, w.pos(ev.Pos), "the level in the path is not the L of a requested tile: "+piecesString(pcs))
					continue
				}
				el := func(f string) *Term { return normInt(mk("field", f, 0, nil, elem)) }
				good := pcs[1].t == el("H") && pcs[3].t == el("L") && pcs[5].t == el("N")
				wT := mk("field", "W", 0, types.Typ[types.Int], elem)
				full := mk("binop", "<<", 0, types.Typ[types.Int], one, mk("field", "H", 0, types.Typ[types.Int], elem))
				var facts []Fact
				for _, f := range s.Facts {
					if f.Seq < ev.Seq {
						facts = append(facts, f)
					}
				}
				inv := []ordFact{{"<", wT, one, false}, {"<", full, wT, false}} // tlog asks for 1 <= W <= 1<<H
				if len(pcs) == 8 {
					good = good && pcs[7].t == normInt(wT) && impliesWith(facts, inv, "<", wT, full, true)
				} else {
					good = good && impliesWith(facts, inv, "==", wT, full, true)
				}
				r.Check(good, "C18.c", key, w.pos(ev.Pos), "the tile path "+piecesString(pcs)+" is not built from (t.H, t.L, t.N) of the requested tile, or its partial-width suffix is not tied to t.W < 1<<t.H; path: "+pathString(e, s))
			}
		}
	}
	if n == 0 {
		r.Undecided("C18.c", prt, "", "no path hands on a tile path")
	}
}

package main

// Rules over the path summaries of (*witness.Witness).Update:
// C01.a-d, C02.a/b, C03.a/b, C04.a-c, C07.a-c, C08.a/b, C09.a/c, C12.a, C20.a/b.

import (
	"fmt"
	"go/types"
	"sort"
	"strings"

	"golang.org/x/tools/go/ssa"
)

const fnUpdate = "(*" + pWitness + ".Witness).Update"

type updPath struct {
	i         int
	s         Summary
	knownSeq  int
	known     int // -1 unknown-branch, 1 known, 0 no fact
	parseNext *Event
	parsePrev *Event
	writeOps  *Event
	getLatest *Event
	sets      []Event
	signs     []Event
	closes    []Event
	incs      []Event
	verifies  []Event
	rootEqs   []Event
	next      *Term
	nextNote  *Term
	prev      *Term
	stored    *Term
	handle    *Term
	outcome   string // accepted | <sentinel global> | other-error
	bytes     string // nil stored cosigned input other
	notFound  bool
	class     string // semantic path class used in keys
}

type updAnalysis struct {
	fn      *ssa.Function
	eng     *Engine
	paths   []*updPath
	pLogID  *Term
	pOld    *Term
	pNext   *Term
	pProof  *Term
	pRecv   *Term
	logsMap *Term // w.Logs
	err     string
	hasLoop bool
}

func hasLoop(fn *ssa.Function) bool {
	// a back edge exists iff some successor has an index <= the block's own in DFS terms; use dominance
	for _, b := range fn.Blocks {
		for _, s := range b.Succs {
			if s.Dominates(b) {
				return true
			}
		}
	}
	return false
}

var updCache = map[*World]*updAnalysis{}

func analyseUpdate(w *World, r *Run) *updAnalysis {
	if a, ok := updCache[w]; ok {
		if a.fn != nil {
			r.Analysed(fnUpdate, len(a.paths))
		}
		return a
	}
	a := analyseUpdateFn(w, w.fn(fnUpdate), 4)
	updCache[w] = a
	if a.fn != nil {
		r.Analysed(fnUpdate, len(a.paths))
	}
	return a
}

func analyseUpdateFn(w *World, fn *ssa.Function, depth int) *updAnalysis {
	a := &updAnalysis{}
	if fn == nil {
		a.err = "anchor " + fnUpdate + " not found"
		return a
	}
	a.fn = fn
	var err error
	if a.pLogID, err = paramByType(fn, "string"); err != nil {
		a.err = err.Error()
		return a
	}
	if a.pOld, err = paramByType(fn, "uint64"); err != nil {
		a.err = err.Error()
		return a
	}
	if a.pNext, err = paramByType(fn, "[]byte"); err != nil {
		a.err = err.Error()
		return a
	}
	if a.pProof, err = paramByType(fn, "[][]byte"); err != nil {
		a.err = err.Error()
		return a
	}
	if len(fn.Params) > 0 && fn.Signature.Recv() != nil {
		a.pRecv = mk("param", fn.Params[0].Name(), 0, fn.Params[0].Type())
	} else {
		a.err = "Update has no receiver"
		return a
	}
	a.logsMap = fieldByType(a.pRecv, "map[string]witness.LogInfo")
	a.eng = w.engine(depth, 1)
	sums := a.eng.Explore(fn)
	// loops decided by constants (a literal table of checks) are unrolled exactly; only a cut enumeration is inexact
	a.hasLoop = a.eng.stats.loopcut > 0
	for i, s := range sums {
		if s.Trunc != "" {
			a.err = "path enumeration truncated: " + s.Trunc
			return a
		}
		a.paths = append(a.paths, a.view(w, i, s))
	}
	return a
}

func (a *updAnalysis) view(w *World, i int, s Summary) *updPath {
	v := &updPath{i: i, s: s}
	for _, e := range calls(s, cParse) {
		e := e
		if len(e.Args) < 1 {
			continue
		}
		switch {
		case e.Args[0] == a.pNext && v.parseNext == nil:
			v.parseNext = &e
			v.next, v.nextNote = res(e, 0), res(e, 2)
		case e.Args[0].Kind == "call" && e.Args[0].Name == cGetLatest && v.parsePrev == nil:
			v.parsePrev = &e
			v.prev = res(e, 0)
		}
	}
	for _, e := range calls(s, cWriteOps) {
		e := e
		v.writeOps = &e
		v.handle = res(e, 0)
	}
	for _, e := range calls(s, cGetLatest) {
		e := e
		if v.getLatest == nil {
			v.getLatest = &e
			v.stored = res(e, 0)
		}
	}
	v.sets = calls(s, cSet)
	v.signs = calls(s, cSign)
	v.closes = calls(s, cClose)
	v.incs = calls(s, cInc)
	v.verifies = calls(s, cVerify)
	v.rootEqs = calls(s, cBytesEq, cCTCmp)
	// known-log test
	for _, f := range s.Facts {
		if f.T.Kind == "lookup" && f.T.Name == "ok" && f.T.Args[0] == a.logsMap && f.T.Args[1] == a.pLogID {
			if f.Pos {
				v.known = 1
			} else {
				v.known = -1
			}
			v.knownSeq = f.Seq
			break
		}
	}
	if v.getLatest != nil {
		if k, val, _ := notFoundFact(w, s, errRes(*v.getLatest)); k && val {
			v.notFound = true
		}
	}
	if len(s.Rets) == 2 {
		b, er := s.Rets[0], s.Rets[1]
		switch {
		case er.Kind == "nil":
			v.outcome = "accepted"
		case er.Kind == "global":
			v.outcome = er.Name
		default:
			v.outcome = "other-error"
		}
		switch {
		case b.Kind == "nil":
			v.bytes = "nil"
		case v.stored != nil && b == v.stored:
			v.bytes = "stored"
		case b.Kind == "call" && b.Name == cSign && b.Idx == 1:
			v.bytes = "cosigned"
		case b == a.pNext:
			v.bytes = "input"
		default:
			v.bytes = "other:" + short(b.String())
		}
	} else {
		v.outcome = "malformed-return"
	}
	// semantic class
	switch {
	case v.known == -1:
		v.class = "unknown-log"
	case v.parseNext != nil && failed(s, *v.parseNext):
		v.class = "bad-signature"
	case v.writeOps != nil && failed(s, *v.writeOps):
		v.class = "writeops-failed"
	case v.getLatest != nil && v.notFound: // an affirmative NotFound status implies a non-nil error (status.Code(nil) is OK)
		v.class = "first-use"
	case v.getLatest != nil && failed(s, *v.getLatest):
		v.class = "read-failed"
	case v.parsePrev != nil && failed(s, *v.parsePrev):
		v.class = "stored-unparseable"
	case v.prev != nil && v.next != nil:
		p, n := sizeOf(v.prev), sizeOf(v.next)
		var rel []string
		if admits(s.Facts, ordFact{"<", p, n, true}) {
			rel = append(rel, "p<n")
		}
		if admits(s.Facts, ordFact{"==", p, n, true}) {
			rel = append(rel, "p=n")
		}
		if admits(s.Facts, ordFact{"<", n, p, true}) {
			rel = append(rel, "p>n")
		}
		v.class = "stored:" + strings.Join(rel, "|")
	default:
		v.class = "early"
	}
	return v
}

var tUint64 = types.Typ[types.Uint64]

func sizeOf(cp *Term) *Term { return mk("field", "Size", 0, tUint64, cp) }
func hashOf(cp *Term) *Term { return mk("field", "Hash", 0, nil, cp) }

func (a *updAnalysis) key(v *updPath, what string) string {
	return fmt.Sprintf("%s | %s | path-class=%s outcome=%s", fnUpdate, what, v.class, shortGlobal(v.outcome))
}

func (a *updAnalysis) guard(r *Run, rule string) bool {
	if a.err != "" {
		r.Undecided(rule, fnUpdate, "", a.err)
		return false
	}
	if a.hasLoop {
		r.Undecided(rule, fnUpdate, "", "Update acquired a loop whose iteration count depends on run-time values: exact path enumeration is no longer possible")
		return false
	}
	// vacuity floor: at least one success path and one Set site
	succ, sets := 0, 0
	for _, v := range a.paths {
		if v.outcome == "accepted" {
			succ++
		}
		sets += len(v.sets)
	}
	if succ == 0 || sets == 0 {
		r.Undecided(rule, fnUpdate, "", fmt.Sprintf("vacuity floor: %d success paths, %d Set events", succ, sets))
		return false
	}
	return true
}

// ---------------------------------------------------------------- C01

// C01.a ACCEPT-GUARD
func ruleAcceptGuard(w *World, r *Run, a *updAnalysis, rule string) {
	if !a.guard(r, rule) {
		return
	}
	for _, v := range a.paths {
		s := v.s
		var effects []Event
		effects = append(effects, v.sets...)
		effects = append(effects, v.signs...)
		for _, ev := range effects {
			what := "Set"
			if ev.Callee == cSign {
				what = "Sign"
			}
			pos := w.pos(ev.Pos)
			key := a.key(v, what)
			if v.prev == nil || !okBefore(s, *v.parsePrev, ev.Seq) {
				// no successfully parsed previous checkpoint: must be affirmative NotFound
				ok := v.getLatest != nil && v.notFound
				r.Check(ok, rule, key, pos, what+" reached without a verified previous checkpoint and without an affirmative NotFound from the store; path: "+pathString(a.eng, s))
				continue
			}
			p, n := sizeOf(v.prev), sizeOf(v.next)
			if v.next == nil {
				r.Fail(rule, key, pos, what+" reached without a parsed submitted checkpoint")
				continue
			}
			if !implies(s.Facts, "<", n, p, false) {
				r.Fail(rule, key, pos, what+": branch facts do not imply stored size <= submitted size; path: "+pathString(a.eng, s))
				continue
			}
			rootEq := false
			for _, be := range v.rootEqs {
				if be.Seq > ev.Seq || len(be.Args) != 2 {
					continue
				}
				hp, hn := hashOf(v.prev), hashOf(v.next)
				if !((be.Args[0] == hp && be.Args[1] == hn) || (be.Args[0] == hn && be.Args[1] == hp)) {
					continue
				}
				if k, val, _ := eqCallFact(s, be); k && val {
					rootEq = true
				}
			}
			proofOK := false
			for _, pe := range v.verifies {
				if pe.Seq < ev.Seq && okBefore(s, pe, ev.Seq) && len(pe.Args) == 6 &&
					pe.Args[1] == p && pe.Args[2] == n && pe.Args[4] == hashOf(v.prev) && pe.Args[5] == hashOf(v.next) {
					proofOK = true
				}
			}
			okEq := !admits(s.Facts, ordFact{"==", p, n, true}) || rootEq || proofOK
			okLt := !admits(s.Facts, ordFact{"<", p, n, true}) || proofOK
			switch {
			case !okEq:
				r.Fail(rule, key, pos, what+": equal sizes admitted without root equality; path: "+pathString(a.eng, s))
			case !okLt:
				r.Fail(rule, key, pos, what+": growth admitted without a verified consistency proof between the stored and the submitted root; path: "+pathString(a.eng, s))
			default:
				r.Pass(rule, key, pos, "")
			}
		}
	}
}

// C01.b PROOF-ARGS
func ruleProofArgs(w *World, r *Run, a *updAnalysis, rule string) {
	if !a.guard(r, rule) {
		return
	}
	n := 0
	for _, v := range a.paths {
		for _, pe := range v.verifies {
			n++
			key := a.key(v, "call proof.VerifyConsistency")
			pos := w.pos(pe.Pos)
			if len(pe.Args) != 6 || v.prev == nil || v.next == nil {
				r.Fail(rule, key, pos, "VerifyConsistency called without both parsed checkpoints")
				continue
			}
			hasher := mk("field", "Hasher", 0, nil, mk("lookup", "val", 0, nil, a.logsMap, a.pLogID))
			want := []*Term{hasher, sizeOf(v.prev), sizeOf(v.next), a.pProof, hashOf(v.prev), hashOf(v.next)}
			names := []string{"hasher of Logs[logID]", "stored size", "submitted size", "submitted proof", "stored root", "submitted root"}
			ok := true
			for i, wt := range want {
				if pe.Args[i] != wt {
					ok = false
					r.Fail(rule, key+fmt.Sprintf(" arg%d", i+1), pos, fmt.Sprintf("argument %d of VerifyConsistency should be the %s but is %s", i+1, names[i], short(pe.Args[i].String())))
				}
			}
			if ok {
				r.Pass(rule, key, pos, "")
			}
		}
	}
	if n == 0 {
		r.Undecided(rule, fnUpdate+" | call proof.VerifyConsistency", "", "no VerifyConsistency call found on any path (consistency idiom not recognised)")
	}
}

// C01.c SAME-HANDLE
func ruleSameHandle(w *World, r *Run, a *updAnalysis, rule string) {
	if !a.guard(r, rule) {
		return
	}
	lsp := fieldByType(a.pRecv, "persistence.LogStatePersistence")
	for _, v := range a.paths {
		if v.writeOps != nil {
			key := a.key(v, "WriteOps")
			ok := v.writeOps.Recv == lsp && len(v.writeOps.Args) == 1 && v.writeOps.Args[0] == a.pLogID
			r.Check(ok, rule, key, w.pos(v.writeOps.Pos), "WriteOps must be called on the witness's persistence with the request's log ID; got "+short(fmt.Sprint(v.writeOps.Recv))+"("+short(fmt.Sprint(v.writeOps.Args))+")")
		}
		for _, g := range calls(v.s, cGetLatest) {
			r.Check(v.handle != nil && g.Recv == v.handle, rule, a.key(v, "GetLatest"), w.pos(g.Pos), "GetLatest is not invoked on the handle returned by WriteOps(logID) (read outside the write operation)")
		}
		for _, st := range v.sets {
			r.Check(v.handle != nil && st.Recv == v.handle, rule, a.key(v, "Set"), w.pos(st.Pos), "Set is not invoked on the handle returned by WriteOps(logID)")
			// the read must precede the write on the same handle
			r.Check(v.getLatest != nil && v.getLatest.Seq < st.Seq, rule, a.key(v, "Set after GetLatest"), w.pos(st.Pos), "Set without a preceding GetLatest on the same handle")
		}
	}
}

// ---------------------------------------------------------------- C02

// C02.a UNKNOWN-FIRST
func ruleUnknownFirst(w *World, r *Run, a *updAnalysis, rule string) {
	if !a.guard(r, rule) {
		return
	}
	nUnknown := 0
	for _, v := range a.paths {
		key := a.key(v, "known-log test")
		if v.known == 0 {
			r.Fail(rule, key, w.pos(v.s.RetPos), "path returns without testing membership of logID in the configured logs; path: "+pathString(a.eng, v.s))
			continue
		}
		// nothing but the lookup (and observation: clock reads, logging, tracing) may happen before the test
		for _, ev := range v.s.Events {
			if ev.Seq < v.knownSeq && ev.Kind != "mapread" && !observationOnly(a, ev) {
				r.Fail(rule, a.key(v, "effect before known-log test"), w.pos(ev.Pos), "event "+short(ev.Callee)+" precedes the known-log test")
			}
		}
		if v.known == -1 {
			nUnknown++
			clean := true
			for _, ev := range v.s.Events {
				if ev.Kind == "mapread" || ev.Kind == "defer" {
					continue
				}
				if observationOnly(a, ev) {
					continue
				}
				clean = false
				r.Fail(rule, a.key(v, "effect on unknown log"), w.pos(ev.Pos), "unknown log ID: "+ev.Kind+" "+short(ev.Callee)+" must not happen")
			}
			sentinel := pWitness + ".ErrUnknownLog"
			ok := len(v.s.Rets) == 2 && v.s.Rets[0].Kind == "nil" && v.s.Rets[1].Kind == "global" && v.s.Rets[1].Name == sentinel
			r.Check(ok && clean, rule, key, w.pos(v.s.RetPos), "unknown log ID must return (nil, ErrUnknownLog) with no effect; got ("+v.bytes+", "+shortGlobal(v.outcome)+")")
		} else {
			r.Pass(rule, key, w.pos(v.s.RetPos), "")
		}
	}
	if nUnknown == 0 {
		r.Fail(rule, fnUpdate+" | unknown-log path", "", "no path refuses an unknown log ID")
	}
}

// C02.b AUTH-BEFORE-USE
func ruleAuthBeforeUse(w *World, r *Run, a *updAnalysis, rule string) {
	if !a.guard(r, rule) {
		return
	}
	entry := mk("lookup", "val", 0, nil, a.logsMap, a.pLogID)
	origin := mk("field", "Origin", 0, nil, entry)
	sigv := mk("field", "SigV", 0, nil, entry)
	checkParse := func(v *updPath, pe *Event, which string) bool {
		key := a.key(v, "ParseCheckpoint("+which+")")
		pos := w.pos(pe.Pos)
		if len(pe.Args) != 4 {
			r.Fail(rule, key, pos, "unexpected ParseCheckpoint arity")
			return false
		}
		ok := true
		if pe.Args[1] != origin {
			ok = false
			r.Fail(rule, key+" origin", pos, "origin argument is "+short(pe.Args[1].String())+", want the configured origin of Logs[logID]")
		}
		if pe.Args[2] != sigv {
			ok = false
			r.Fail(rule, key+" verifier", pos, "log verifier argument is "+short(pe.Args[2].String())+", want the configured verifier of Logs[logID]")
		}
		if pe.Args[3].Kind != "nil" && !(pe.Args[3].Kind == "varargs" && len(pe.Args[3].Args) == 0) {
			ok = false
			r.Fail(rule, key+" extra-verifiers", pos, "additional verifiers passed: "+short(pe.Args[3].String())+" (a signature by another key would then open the note)")
		}
		if ok {
			r.Pass(rule, key, pos, "")
		}
		return ok
	}
	for _, v := range a.paths {
		s := v.s
		if v.parseNext != nil {
			checkParse(v, v.parseNext, "submitted")
		}
		if v.parsePrev != nil {
			checkParse(v, v.parsePrev, "stored")
		}
		// every sensitive use must be preceded by a successful parse of the submitted bytes
		var uses []Event
		uses = append(uses, calls(s, cWriteOps, cGetLatest, cSet, cSign, cVerify)...)
		for _, u := range uses {
			key := a.key(v, "use "+short(u.Callee))
			ok := v.parseNext != nil && okBefore(s, *v.parseNext, u.Seq)
			r.Check(ok, rule, key, w.pos(u.Pos), short(u.Callee)+" is reachable before the submitted checkpoint was verified under the log's key and origin; path: "+pathString(a.eng, s))
		}
		// any fact reading next.Size / next.Hash must come after the successful parse
		if v.next != nil {
			_, _, okSeq := nilFact(s, errRes(*v.parseNext))
			for _, f := range s.Facts {
				if mentions(f.T, v.next) && !(f.T.Kind == "binop" && f.T.Name == "==" && (f.T.Args[0].Kind == "nil" || f.T.Args[1].Kind == "nil")) {
					r.Check(okSeq != 0 && okSeq < f.Seq && okBefore(s, *v.parseNext, 0), rule, a.key(v, "read of parsed checkpoint fields"), w.pos(f.At), "fields of the submitted checkpoint are used before its signature check succeeded")
				}
			}
		}
		// what is signed / compared comes from that very call
		for _, sg := range v.signs {
			r.Check(v.nextNote != nil && len(sg.Args) >= 1 && sg.Args[0] == v.nextNote, rule, a.key(v, "Sign note provenance"), w.pos(sg.Pos), "the note being cosigned is "+short(sg.Args[0].String())+", not the note opened from the submitted bytes under the log's verifier")
		}
	}
}

// ---------------------------------------------------------------- C03

func ruleNoSetOnRefusal(w *World, r *Run, a *updAnalysis, rule string) {
	if !a.guard(r, rule) {
		return
	}
	for _, v := range a.paths {
		if v.outcome == "accepted" {
			continue
		}
		key := a.key(v, "refusal has no Set")
		if len(v.sets) == 0 {
			r.Pass(rule, key, w.pos(v.s.RetPos), "")
			continue
		}
		for _, se := range v.sets {
			ok := failed(v.s, se) && len(v.s.Rets) == 2 && wraps(v.s.Rets[1], errRes(se))
			r.Check(ok, rule, key, w.pos(se.Pos), "Set executed on a path that ends in refusal ("+shortGlobal(v.outcome)+") without that refusal being Set's own failure; path: "+pathString(a.eng, v.s))
		}
	}
}

func ruleRefusalBytes(w *World, r *Run, a *updAnalysis, rule string) {
	if !a.guard(r, rule) {
		return
	}
	for _, v := range a.paths {
		if v.outcome == "accepted" {
			continue
		}
		key := a.key(v, "bytes returned with refusal")
		ok := v.bytes == "nil" || v.bytes == "stored"
		r.Check(ok, rule, key, w.pos(v.s.RetPos), "refusal ("+shortGlobal(v.outcome)+") returns "+v.bytes+" bytes; only nothing or the previously stored checkpoint may accompany a refusal")
		// the four typed refusals after a checkpoint is stored carry the stored checkpoint (C09 clause), checked in the table
		for _, ev := range eventsOfKind(v.s, "store") {
			if v.stored != nil && mentions(ev.Recv, v.stored) {
				r.Fail(rule, a.key(v, "store through stored bytes"), w.pos(ev.Pos), "in-place write through the stored checkpoint bytes")
			}
		}
	}
}

// ---------------------------------------------------------------- C04

func ruleReturnIsStored(w *World, r *Run, a *updAnalysis, rule string) {
	if !a.guard(r, rule) {
		return
	}
	for _, v := range a.paths {
		if v.outcome != "accepted" {
			continue
		}
		key := a.key(v, "success returns what was stored")
		pos := w.pos(v.s.RetPos)
		if len(v.sets) != 1 {
			r.Fail(rule, key, pos, fmt.Sprintf("success path with %d Set events (want exactly 1); path: %s", len(v.sets), pathString(a.eng, v.s)))
			continue
		}
		se := v.sets[0]
		switch {
		case len(se.Args) != 1 || v.s.Rets[0] != se.Args[0]:
			r.Fail(rule, key, pos, "returned bytes "+short(v.s.Rets[0].String())+" are not the bytes passed to Set "+short(fmt.Sprint(se.Args)))
		case !okBefore(v.s, se, 0):
			r.Fail(rule, key, pos, "success returned on a path where Set's error was not checked to be nil")
		default:
			r.Pass(rule, key, pos, "")
		}
	}
}

func ruleStoredIsCosigned(w *World, r *Run, a *updAnalysis, rule string) {
	if !a.guard(r, rule) {
		return
	}
	signers := fieldByType(a.pRecv, "[]note.Signer")
	for _, v := range a.paths {
		for _, se := range v.sets {
			key := a.key(v, "Set argument is Sign(verified note, all signers)")
			pos := w.pos(se.Pos)
			arg := se.Args[0]
			if !(arg.Kind == "call" && arg.Name == cSign && arg.Idx == 1) {
				r.Fail(rule, key, pos, "value stored is "+short(arg.String())+", not the output of note.Sign")
				continue
			}
			var sg *Event
			for i := range v.signs {
				if res(v.signs[i], 0) == arg {
					sg = &v.signs[i]
				}
			}
			switch {
			case sg == nil:
				r.Fail(rule, key, pos, "stored value does not come from a Sign call on this path")
			case sg.Args[0] != v.nextNote:
				r.Fail(rule, key, pos, "signed note is "+short(sg.Args[0].String())+", not the note opened from the submitted bytes")
			case len(sg.Args) < 2 || sg.Args[1] != signers:
				r.Fail(rule, key, pos, "signers passed to Sign are "+short(fmt.Sprint(sg.Args[1:]))+", want the witness's whole signer list")
			case !okBefore(v.s, *sg, se.Seq):
				r.Fail(rule, key, pos, "Sign's error not checked before its output is stored")
			default:
				r.Pass(rule, key, pos, "")
			}
		}
	}
}

func ruleFreshNoShortCircuit(w *World, r *Run, a *updAnalysis, rule string) {
	if !a.guard(r, rule) {
		return
	}
	for _, v := range a.paths {
		if v.outcome != "accepted" {
			continue
		}
		key := a.key(v, "success is a fresh cosignature")
		pos := w.pos(v.s.RetPos)
		if v.stored != nil && mentions(v.s.Rets[0], v.stored) {
			r.Fail(rule, key, pos, "success returns bytes derived from the stored checkpoint (short-circuit; no fresh cosignature)")
			continue
		}
		fresh := false
		for _, sg := range v.signs {
			if v.getLatest != nil && sg.Seq > v.getLatest.Seq && res(sg, 0) == v.s.Rets[0] {
				fresh = true
			}
		}
		r.Check(fresh, rule, key, pos, "success path without a Sign call of this invocation after the read of the stored state")
	}
}

// ---------------------------------------------------------------- C07

func ruleTofuOnlyOnNotFound(w *World, r *Run, a *updAnalysis, rule string) {
	if !a.guard(r, rule) {
		return
	}
	nFirst := 0
	for _, v := range a.paths {
		if v.getLatest == nil {
			continue
		}
		if failed(v.s, *v.getLatest) || v.notFound {
			key := a.key(v, "read of stored checkpoint failed")
			pos := w.pos(v.getLatest.Pos)
			if v.notFound {
				nFirst++
				r.Pass(rule, key, pos, "")
				continue
			}
			// not NotFound: must refuse with an error and do nothing
			ok := v.outcome != "accepted" && len(v.sets) == 0 && len(v.signs) == 0
			r.Check(ok, rule, key, pos, "a failed read that is not an affirmative NotFound is treated as 'no previous checkpoint' (trust-on-first-use on storage error); path: "+pathString(a.eng, v.s))
		} else if k, isNil, _ := nilFact(v.s, errRes(*v.getLatest)); !k || !isNil {
			if len(v.sets)+len(v.signs) > 0 || v.outcome == "accepted" {
				r.Fail(rule, a.key(v, "GetLatest error unchecked"), w.pos(v.getLatest.Pos), "effects reachable without checking GetLatest's error")
			}
		}
	}
	if nFirst == 0 {
		r.Undecided(rule, fnUpdate+" | first-use path", "", "no first-use path recognised (NotFound idiom outside the accepted table?)")
	}
}

func ruleCloseAlways(w *World, r *Run, a *updAnalysis, rule string) {
	if !a.guard(r, rule) {
		return
	}
	for _, v := range a.paths {
		if v.writeOps == nil || !okBefore(v.s, *v.writeOps, 0) {
			if v.writeOps != nil {
				// failed WriteOps: there is no handle to close
				for _, c := range v.closes {
					_ = c
				}
			}
			continue
		}
		key := a.key(v, "Close on every exit")
		n := 0
		for _, c := range v.closes {
			if c.Recv == v.handle {
				n++
				for _, se := range v.sets {
					if c.Seq < se.Seq {
						r.Fail(rule, a.key(v, "Close before Set"), w.pos(c.Pos), "write handle closed before Set")
					}
				}
			}
		}
		r.Check(n >= 1, rule, key, w.pos(v.s.RetPos), "path opened a write operation and returns without closing it (a leaked transaction blocks a single-connection store); path: "+pathString(a.eng, v.s))
	}
}

// NO-NESTED-STORAGE (resource nesting): while the write operation is open, Update acquires no other storage handle.
// With the production single-connection SQLite pool the open transaction holds the only connection, so a nested
// ReadOps/WriteOps/Logs blocks forever and wedges the whole witness.
func ruleNoNestedStorage(w *World, r *Run, a *updAnalysis, rule string) {
	if !a.guard(r, rule) {
		return
	}
	n := 0
	for _, v := range a.paths {
		if v.writeOps == nil || !okBefore(v.s, *v.writeOps, 0) {
			continue
		}
		n++
		bad := false
		for _, ev := range v.s.Events {
			if ev.Kind != "call" || ev.Seq <= v.writeOps.Seq || ev.AtExit {
				continue
			}
			switch ev.Callee {
			case cReadOps, cWriteOps, cLogs, cInit:
				bad = true
				r.Fail(rule, a.key(v, "nested storage access while the write operation is open"), w.pos(ev.Pos), short(ev.Callee)+" is called while Update's own write operation (transaction) is still open: on a single-connection store this blocks forever and every later request hangs behind it")
			case cGetLatest, cSet, cClose:
				if ev.Recv != v.handle {
					bad = true
					r.Fail(rule, a.key(v, "second handle used while the write operation is open"), w.pos(ev.Pos), short(ev.Callee)+" on a handle other than the open write operation")
				}
			}
		}
		if !bad {
			r.Pass(rule, a.key(v, "no nested storage access while the write operation is open"), w.pos(v.writeOps.Pos), "")
		}
	}
	if n == 0 {
		r.Undecided(rule, fnUpdate, "", "no path opens a write operation")
	}
}

func ruleErrNotDropped(w *World, r *Run, a *updAnalysis, rule string) {
	if !a.guard(r, rule) {
		return
	}
	for _, v := range a.paths {
		var evs []Event
		evs = append(evs, calls(v.s, cWriteOps, cGetLatest, cSet, cSign)...)
		if v.parsePrev != nil {
			evs = append(evs, *v.parsePrev)
		}
		for _, ev := range evs {
			key := a.key(v, "error of "+short(ev.Callee)+" checked")
			k, isNil, _ := nilFact(v.s, errRes(ev))
			if v.outcome == "accepted" {
				if ev.Callee == cGetLatest && v.notFound && !(k && isNil) {
					r.Pass(rule, key, w.pos(ev.Pos), "") // affirmative NotFound: the first-use arm
					continue
				}
				r.Check(k && isNil, rule, key, w.pos(ev.Pos), "success is reachable without "+short(ev.Callee)+"'s error having been found nil")
			} else if k && !isNil {
				// failure arm must return a non-nil error: outcome != accepted holds
				if ev.Callee == cGetLatest && v.notFound {
					continue
				}
				r.Pass(rule, key, w.pos(ev.Pos), "")
			}
		}
	}
}

// ---------------------------------------------------------------- C08

// C08.a STORED-REOPENABLE: what is stored must have been re-opened by the witness's own reader.
func ruleStoredReopenable(w *World, r *Run, a *updAnalysis, rule string) {
	if !a.guard(r, rule) {
		return
	}
	entry := mk("lookup", "val", 0, nil, a.logsMap, a.pLogID)
	origin := mk("field", "Origin", 0, nil, entry)
	sigv := mk("field", "SigV", 0, nil, entry)
	for _, v := range a.paths {
		for _, se := range v.sets {
			key := a.key(v, "stored value re-openable")
			reopened := false
			for _, pe := range calls(v.s, cParse) {
				if pe.Seq < se.Seq && len(pe.Args) == 4 && pe.Args[0] == se.Args[0] && pe.Args[1] == origin && pe.Args[2] == sigv && okBefore(v.s, pe, se.Seq) {
					reopened = true
				}
			}
			for _, oe := range calls(v.s, cOpen) {
				if oe.Seq < se.Seq && len(oe.Args) == 2 && oe.Args[0] == se.Args[0] && okBefore(v.s, oe, se.Seq) {
					reopened = true
				}
			}
			r.Check(reopened, rule, key, w.pos(se.Pos), "the cosigned note is stored without having been re-opened by the witness's own reader: note.Sign re-emits every submitted signature line, note.Open refuses more than 100, so an accepted checkpoint can make every later update fail (self-inflicted wedge)")
		}
	}
}

// C08.b HONEST-STEP-COMPLETE
func ruleHonestStep(w *World, r *Run, a *updAnalysis, rule string, only ...string) {
	if !a.guard(r, rule) {
		return
	}
	zero := mk("const", "0", 0, tUint64)
	izero := mk("const", "0", 0, types.Typ[types.Int])
	plen := mk("len", "", 0, types.Typ[types.Int], a.pProof)
	type class struct {
		name         string
		pZero, equal bool
	}
	classes := []class{{"0=stored=submitted", true, true}, {"0=stored<submitted", true, false}, {"0<stored=submitted", false, true}, {"0<stored<submitted", false, false}}
	for _, c := range classes {
		if len(only) > 0 && !containsStr(only, c.name) {
			continue
		}
		success, refused := 0, 0
		considered := 0
		condNote, refusedAt, hiddenCond := "", "", ""
		var deadEnd *updPath
		for _, v := range a.paths {
			if v.prev == nil || v.next == nil || v.known != 1 {
				continue
			}
			s := v.s
			if !okBefore(s, *v.parseNext, 0) || !okBefore(s, *v.parsePrev, 0) || !okBefore(s, *v.writeOps, 0) || !okBefore(s, *v.getLatest, 0) {
				continue
			}
			p, n := sizeOf(v.prev), sizeOf(v.next)
			extra := []ordFact{{"==", a.pOld, p, true}}
			if c.pZero {
				extra = append(extra, ordFact{"==", p, zero, true})
			} else {
				extra = append(extra, ordFact{"<", zero, p, true})
			}
			if c.equal {
				extra = append(extra, ordFact{"==", p, n, true})
			} else {
				extra = append(extra, ordFact{"<", p, n, true})
			}
			proofEmpty := c.equal || c.pZero
			extra = append(extra, ordFact{"<", izero, plen, !proofEmpty})
			if !admits(s.Facts, extra...) {
				continue
			}
			// honest valuation of the non-order predicates
			ok := true
			for _, be := range v.rootEqs {
				if k, val, _ := eqCallFact(s, be); k && c.equal && !val {
					ok = false
				}
				if k, val, _ := eqCallFact(s, be); k && !c.equal && val {
					// different sizes with equal roots cannot happen for an honest log of distinct sizes; ignore
					_ = val
				}
			}
			for _, se := range append(append([]Event(nil), v.signs...), v.sets...) {
				if failed(s, se) {
					ok = false
				}
			}
			for _, pe := range calls(s, cParse) {
				if failed(s, pe) {
					ok = false // re-open of own output fails only for oversized notes; honest note has one signature line
				}
			}
			for _, pe := range v.verifies {
				// documented precondition of VerifyConsistency: 0 < size1 <= size2; an honest proof verifies iff it holds
				pre := impliesWith(s.Facts, extra, "<", zero, pe.Args[1], true) && impliesWith(s.Facts, extra, "<", pe.Args[2], pe.Args[1], false)
				k, isNil, _ := nilFact(s, errRes(pe))
				if k && isNil != pre {
					ok = false
				}
				if k && !isNil && !pre {
					deadEnd = v
				}
			}
			if !ok {
				continue
			}
			considered++
			// success must follow from honesty alone: a path whose success also needs a predicate that honesty does not
			// imply (e.g. equality of the whole signed text) does not count
			extraCond := ""
			for _, f := range s.Facts {
				t := f.T
				switch {
				case t.Kind == "lookup" && t.Name == "ok":
				case t.Kind == "binop" && t.Name == "==" && (t.Args[0].Kind == "nil" || t.Args[1].Kind == "nil"):
				case t.Kind == "binop" && (t.Name == "==" || t.Name == "<") && isIntTerm(t.Args[0]) && isIntTerm(t.Args[1]):
				case t.Kind == "call" && (t.Name == cBytesEq || t.Name == cCTCmp) && len(t.Args) == 4 && ((t.Args[2] == hashOf(v.prev) && t.Args[3] == hashOf(v.next)) || (t.Args[3] == hashOf(v.prev) && t.Args[2] == hashOf(v.next))):
				default:
					extraCond = short(t.String())
					if hiddenState(a, t) {
						hiddenCond = extraCond
					}
				}
			}
			// every path an honest request can take must accept: a condition outside the protocol's own predicates (a
			// verbosity test, a tracing hook) may split the paths, but it must not decide the answer
			if v.outcome == "accepted" {
				success++
			} else {
				refused++
				if extraCond != "" {
					condNote = extraCond
				}
				if refusedAt == "" {
					refusedAt = w.pos(s.RetPos)
				}
			}
		}
		key := fmt.Sprintf("%s | honest step | order-class %s", fnUpdate, c.name)
		pos := ""
		_ = pos
		msg := fmt.Sprintf("no path accepts an honest update in ordering class %s (%d honest paths considered)", c.name, considered)
		if success >= 1 && refused > 0 {
			msg = fmt.Sprintf("an honest update in ordering class %s is refused on %d of the %d paths it can take", c.name, refused, considered)
			pos = refusedAt
		}
		if condNote != "" {
			msg += "; acceptance additionally depends on " + condNote + ", which an honest request need not satisfy"
		}
		if deadEnd != nil && len(deadEnd.verifies) > 0 {
			pos = w.pos(deadEnd.verifies[0].Pos)
			msg += ": proof.VerifyConsistency is reached with size1 == 0 < size2, which it always rejects"
		}
		if hiddenCond != "" && success >= 1 && refused == 0 {
			r.Fail(rule, key, pos, fmt.Sprintf("what an honest update in ordering class %s is compared with depends on %s: state the witness keeps outside the store, which can disagree with the stored checkpoint (after a failed write, a restart) and then turns the honest request away", c.name, hiddenCond))
			continue
		}
		r.Check(success >= 1 && refused == 0, rule, key, pos, msg)
	}
}

func impliesWith(facts []Fact, extra []ordFact, op string, x, y *Term, pos bool) bool {
	_, ords, ok := splitFacts(facts)
	if !ok {
		return true
	}
	all := append(append([]ordFact(nil), ords...), extra...)
	return !sat(append(all, ordFact{op, x, y, !pos}))
}

// ---------------------------------------------------------------- C09

// C09.c TOUCH-BY-COMPARISON: sizes flow only into comparisons, VerifyConsistency and logging.
func ruleTouchByComparison(w *World, r *Run, a *updAnalysis, rule string) {
	if !a.guard(r, rule) {
		return
	}
	isSize := func(t *Term) bool {
		return t == a.pOld || (t.Kind == "field" && t.Name == "Size" && t.Args[0].Kind == "call" && t.Args[0].Name == cParse)
	}
	bad := 0
	for _, v := range a.paths {
		for _, f := range v.s.Facts {
			anySub(f.T, func(x *Term) bool {
				if x.Kind == "binop" && x.Name != "==" && x.Name != "<" {
					for _, y := range x.Args {
						if isSize(y) {
							bad++
							r.Fail(rule, a.key(v, "arithmetic on a size"), w.pos(f.At), "a checkpoint size or the old size is used in arithmetic ("+short(x.String())+"): the order abstraction behind the decision table is no longer exact")
						}
					}
				}
				if x.Kind == "conv" && isSize(x.Args[0]) {
					bad++
					r.Fail(rule, a.key(v, "conversion of a size"), w.pos(f.At), "a size is converted ("+short(x.String())+") before being compared")
				}
				return false
			})
		}
		for _, ev := range v.s.Events {
			if ev.Kind != "call" {
				continue
			}
			pk := calleePkg(ev.Callee)
			if ev.Callee == cVerify || pk == "k8s.io/klog/v2" || pk == "fmt" {
				continue
			}
			for _, arg := range ev.Args {
				if anySub(arg, isSize) {
					bad++
					r.Fail(rule, a.key(v, "size passed to "+short(ev.Callee)), w.pos(ev.Pos), "a size flows into "+short(ev.Callee)+", outside comparisons/VerifyConsistency/logging")
				}
			}
		}
	}
	if bad == 0 {
		r.Pass(rule, fnUpdate+" | sizes touched only by comparison", w.pos(a.fn.Pos()), "")
	}
}

type cell struct {
	known, sig bool
	stored     string // notfound | found
	rk         []int  // ranks of 0, old, p, n
	rootEq     bool
	proofOK    bool
	proofEmpty bool
}

func rankDesc(rk []int, names []string) string {
	idx := make([]int, len(rk))
	for i := range idx {
		idx[i] = i
	}
	sort.SliceStable(idx, func(a, b int) bool { return rk[idx[a]] < rk[idx[b]] })
	s := names[idx[0]]
	for i := 1; i < len(idx); i++ {
		if rk[idx[i]] == rk[idx[i-1]] {
			s += "=" + names[idx[i]]
		} else {
			s += "<" + names[idx[i]]
		}
	}
	return s
}

// weakOrderings enumerates all weak orderings of k symbols after symbol 0 (which is minimal).
func weakOrderings(k int) [][]int {
	var out [][]int
	seen := map[string]bool{}
	var rec func(cur []int)
	rec = func(cur []int) {
		if len(cur) == k+1 {
			used := map[int]bool{}
			for _, r := range cur {
				used[r] = true
			}
			for r := 0; r < len(used); r++ {
				if !used[r] {
					return
				}
			}
			key := fmt.Sprint(cur)
			if !seen[key] {
				seen[key] = true
				out = append(out, append([]int(nil), cur...))
			}
			return
		}
		for r := 0; r <= k; r++ {
			rec(append(cur, r))
		}
	}
	rec([]int{0})
	return out
}

// specFound is the first-match table of property C09 for the half "a checkpoint is stored".
// VerifyConsistency's documented contract ties the code's proof verdict to the ideal one:
// at equal sizes it succeeds iff the proof is empty and the roots are equal.
func specFound(old, p, n int, rootEq, proofOK, proofEmpty bool) string {
	switch {
	case old > n:
		return "ErrOldSizeInvalid/stored"
	case old != p:
		return "ErrCheckpointStale/stored"
	case p == n && !rootEq:
		return "ErrRootMismatch/stored"
	case p == 0 && n > 0:
		return "" // outside C09's claim (claimed by C08)
	case p == n && !proofEmpty:
		return "ErrInvalidProof/stored"
	case p == n:
		return "accepted/cosigned"
	case !proofOK:
		return "ErrInvalidProof/stored"
	}
	return "accepted/cosigned"
}

// hiddenState: the term reads state the witness keeps outside the store and its configuration: a concurrent container or
// atomic reached from the receiver, a map of the receiver other than the configured logs, a package variable.
func hiddenState(a *updAnalysis, t *Term) bool {
	return anySub(t, func(x *Term) bool {
		switch {
		case x.Kind == "call" && len(x.Args) >= 2 && x.Args[1] != nil && mentions(x.Args[1], a.pRecv) && strings.Contains(x.Name, "sync."):
			return true
		case x.Kind == "lookup" && x.Args[0] != a.logsMap && mentions(x.Args[0], a.pRecv):
			return true
		case x.Kind == "global" && !isSentinel(x):
			return true
		}
		return false
	})
}

// C09.a DECISION-TABLE
func ruleDecisionTable(w *World, r *Run, a *updAnalysis, rule string) {
	if !a.guard(r, rule) {
		return
	}
	zero := mk("const", "0", 0, tUint64)
	izero := mk("const", "0", 0, types.Typ[types.Int])
	plen := mk("len", "", 0, types.Typ[types.Int], a.pProof)

	// 1. classify every fact of every path: recognised predicates only
	type pathInfo struct {
		v        *updPath
		faultArm bool // path takes a storage/sign fault arm (outside the protocol table)
		extra    []string
	}
	var infos []pathInfo
	for _, v := range a.paths {
		pi := pathInfo{v: v}
		s := v.s
		for _, f := range s.Facts {
			t := f.T
			rec := false
			switch {
			case t.Kind == "lookup" && t.Name == "ok":
				rec = true
			case t.Kind == "binop" && t.Name == "==" && (t.Args[0].Kind == "nil" || t.Args[1].Kind == "nil"):
				rec = true // err == nil of a call
			case t.Kind == "binop" && (t.Name == "==" || t.Name == "<") && isIntTerm(t.Args[0]) && isIntTerm(t.Args[1]):
				rec = true
			case t.Kind == "call" && (t.Name == cBytesEq):
				rec = true
			}
			if !rec {
				// a verdict must be a function of the request, the configuration and the checkpoint read from the store in
				// this call: a branch on other state kept in the witness (a cache, a map, a package variable) is a violation
				hidden := hiddenState(a, t)
				if hidden {
					r.Fail(rule, a.key(v, "verdict depends only on request, configuration and the checkpoint read in this call"), w.pos(f.At), "the verdict branches on "+short(t.String())+": state kept in the witness outside the store (it can disagree with the stored checkpoint after a failed write or a restart, so the first matching protocol rule is decided on the wrong sizes)")
					return
				}
				// any other condition (a verbosity test, a classification inside an observer) may split a cell into several
				// paths; the cell check below demands that they all give the same answer
				pi.extra = append(pi.extra, short(t.String()))
			}
		}
		for _, ev := range append(append(append([]Event(nil), v.signs...), v.sets...), calls(s, cWriteOps)...) {
			if failed(s, ev) {
				pi.faultArm = true
			}
		}
		if v.parsePrev != nil && failed(s, *v.parsePrev) {
			pi.faultArm = true
		}
		if v.getLatest != nil && failed(s, *v.getLatest) && !v.notFound {
			pi.faultArm = true
		}
		// re-open of the witness's own output failing is a fault arm too
		for _, pe := range calls(s, cParse) {
			if v.parseNext != nil && pe.Seq == v.parseNext.Seq || v.parsePrev != nil && pe.Seq == v.parsePrev.Seq {
				continue
			}
			if failed(s, pe) {
				pi.faultArm = true
			}
		}
		for _, oe := range calls(s, cOpen) {
			if failed(s, oe) {
				pi.faultArm = true
			}
		}
		infos = append(infos, pi)
	}
	outcome := func(v *updPath) string { return shortGlobal(v.outcome) + "/" + v.bytes }
	cells, mism, nonuniq := 0, 0, 0
	evalCell := func(desc string, want string, match func(pi pathInfo) bool) {
		cells++
		var hits, extras []string
		var hit *updPath
		plain := 0
		for _, pi := range infos {
			if pi.faultArm {
				continue
			}
			if match(pi) {
				hits = append(hits, outcome(pi.v))
				hit = pi.v
				extras = append(extras, pi.extra...)
				if len(pi.extra) == 0 {
					plain++
				}
			}
		}
		n := len(hits)
		hits = uniqStrings(hits)
		_ = plain
		if n > 1 && len(hits) == 1 {
			n = 1 // one answer, reached on paths that differ only in conditions outside the protocol's predicates
		}
		if len(hits) > 1 && len(extras) > 0 {
			hits = append(hits, "depending on "+strings.Join(uniqStrings(extras), ", "))
		}
		key := fmt.Sprintf("%s | cell %s", fnUpdate, desc)
		pos := ""
		if hit != nil {
			pos = w.pos(hit.s.RetPos)
		}
		switch {
		case n != 1:
			nonuniq++
			r.Fail(rule, key, pos, fmt.Sprintf("cell is answered by %d paths with the answers %v, want one answer (want %s)", n, hits, want))
		case want != "" && hits[0] != want:
			mism++
			r.Fail(rule, key, pos, fmt.Sprintf("answered %s, the first matching rule of the protocol says %s", hits[0], want))
		case want == "":
			r.Info(rule, key, pos, "outside the claim: "+hits[0])
		default:
			r.Pass(rule, key, pos, "")
			if cells%23 == 0 {
				r.Sample(map[string]string{"cell": desc, "answer": hits[0], "return_at": pos})
			}
		}
	}
	// unknown log
	evalCell("known=F", "ErrUnknownLog/nil", func(pi pathInfo) bool { return pi.v.known == -1 })
	// bad signature
	evalCell("known=T sig=F", "ErrNoValidSignature/nil", func(pi pathInfo) bool {
		return pi.v.known == 1 && pi.v.parseNext != nil && failed(pi.v.s, *pi.v.parseNext)
	})
	// first use, within the claim: old size 0, empty proof
	firstUse := func(pi pathInfo) bool {
		v := pi.v
		return v.known == 1 && v.parseNext != nil && okBefore(v.s, *v.parseNext, 0) && v.getLatest != nil && v.notFound
	}
	evalCell("known=T sig=T stored=NotFound old=0 proof=empty", "accepted/cosigned", func(pi pathInfo) bool {
		return firstUse(pi) && admits(pi.v.s.Facts, ordFact{"==", a.pOld, zero, true}, ordFact{"<", izero, plen, false})
	})
	// stored checkpoint present
	names := []string{"0", "old", "p", "n"}
	for _, rk := range weakOrderings(3) {
		desc := rankDesc(rk, names)
		for _, rootEq := range []bool{true, false} {
			for _, proofOK := range []bool{true, false} {
				for _, proofEmpty := range []bool{true, false} {
					p, n := rk[2], rk[3]
					// combinations excluded by the verifier's contract
					if p == n && proofOK != (proofEmpty && rootEq) {
						continue
					}
					if p < n && p > 0 && proofOK && proofEmpty {
						continue
					}
					if p > n && !proofOK {
						continue // verifier not applicable: one representative
					}
					want := specFound(rk[1], rk[2], rk[3], rootEq, proofOK, proofEmpty)
					cdesc := fmt.Sprintf("known=T sig=T stored=found %s rootEq=%v proofOK=%v proofEmpty=%v", desc, rootEq, proofOK, proofEmpty)
					evalCell(cdesc, want, func(pi pathInfo) bool {
						v := pi.v
						s := v.s
						if v.known != 1 || v.prev == nil || v.next == nil || !okBefore(s, *v.parseNext, 0) || !okBefore(s, *v.parsePrev, 0) {
							return false
						}
						terms := []*Term{zero, a.pOld, sizeOf(v.prev), sizeOf(v.next)}
						var ordC []ordFact
						for i := 0; i < 4; i++ {
							for j := i + 1; j < 4; j++ {
								switch {
								case rk[i] < rk[j]:
									ordC = append(ordC, ordFact{"<", terms[i], terms[j], true})
								case rk[i] == rk[j]:
									ordC = append(ordC, ordFact{"==", terms[i], terms[j], true})
								default:
									ordC = append(ordC, ordFact{"<", terms[j], terms[i], true})
								}
							}
						}
						ordC = append(ordC, ordFact{"<", izero, plen, !proofEmpty})
						if !admits(s.Facts, ordC...) {
							return false
						}
						for _, be := range v.rootEqs {
							if k, val, _ := eqCallFact(s, be); k && val != rootEq {
								return false
							}
						}
						for _, pe := range v.verifies {
							if k, isNil, _ := nilFact(s, errRes(pe)); k && isNil != proofOK {
								return false
							}
						}
						return true
					})
				}
			}
		}
	}
	r.extra["decision_table_cells"] = cells
	r.extra["decision_table_mismatches"] = mism
	r.extra["decision_table_nonunique"] = nonuniq
	r.extra["order_models"] = len(weakOrderings(3))
}

// ---------------------------------------------------------------- C12.a

func ruleKeyPassThrough(w *World, r *Run, a *updAnalysis, rule string) {
	if !a.guard(r, rule) {
		return
	}
	for _, v := range a.paths {
		for _, ev := range v.s.Events {
			switch {
			case ev.Kind == "mapread" && ev.Recv == a.logsMap:
				r.Check(len(ev.Args) == 1 && ev.Args[0] == a.pLogID, rule, a.key(v, "Logs[...] key"), w.pos(ev.Pos), "the configured-logs map is indexed by "+short(fmt.Sprint(ev.Args))+", not by the request's log ID")
			case ev.Kind == "call" && ev.Callee == cWriteOps:
				r.Check(len(ev.Args) == 1 && ev.Args[0] == a.pLogID, rule, a.key(v, "WriteOps key"), w.pos(ev.Pos), "WriteOps is keyed by "+short(fmt.Sprint(ev.Args))+", not by the request's log ID")
			case ev.Kind == "call" && ev.Callee == cInc:
				// whatever identifies a log among the labels is the request's log ID (a counter without labels, or with
				// constant labels besides it, files nothing under another log)
				ok := len(ev.Args) == 1 && ev.Args[0] != nil && (ev.Args[0].Kind == "nil" || ev.Args[0].Kind == "varargs")
				if ok && ev.Args[0].Kind == "varargs" {
					for _, la := range ev.Args[0].Args {
						if la != a.pLogID && (la == nil || la.Kind != "const") {
							ok = false
						}
					}
				}
				r.Check(ok, rule, a.key(v, "counter label"), w.pos(ev.Pos), "counter label is "+short(fmt.Sprint(ev.Args))+", not the request's log ID")
			}
		}
	}
}

// ---------------------------------------------------------------- C20

type counterInfo struct {
	global string // full global name
	metric string // metric name constant
}

// counterNames maps each counter of a package, identified by the value term seen where it is incremented (a package
// variable, or a field of a package-level struct), to the metric name it was created with (C20.c NAME-BINDING): every
// counter location is assigned exactly once, from MetricFactory.NewCounter with a constant name, inside a function that
// only sync.Once.Do runs.
func counterNames(w *World, r *Run, pkgPath, rule string) map[string]string {
	out, _ := counterBindings(w, r, pkgPath, rule)
	return out
}

// ssaLoc converts an address rooted at a package-level variable into the term of the value stored there.
func ssaLoc(v ssa.Value) *Term {
	switch x := v.(type) {
	case *ssa.Global:
		return mk("global", x.Pkg.Pkg.Path()+"."+x.Name(), 0, nil)
	case *ssa.FieldAddr:
		base := ssaLoc(x.X)
		if base == nil {
			return nil
		}
		st := x.X.Type().Underlying().(*types.Pointer).Elem().Underlying().(*types.Struct)
		return mk("field", st.Field(x.Field).Name(), 0, nil, base)
	}
	return nil
}

func counterBindings(w *World, r *Run, pkgPath, rule string) (map[string]string, map[*ssa.Function]bool) {
	out := map[string]string{}
	onces := map[*ssa.Function]bool{}
	counterT := w.lookup(pMon, "Counter")
	if counterT == nil {
		r.Undecided(rule, "monitoring.Counter", "", "type not found")
		return out, onces
	}
	holdsCounter := func(t types.Type) bool {
		if types.Identical(t, counterT.Type()) {
			return true
		}
		if p, ok := t.Underlying().(*types.Pointer); ok {
			t = p.Elem()
		}
		if st, ok := t.Underlying().(*types.Struct); ok {
			for i := 0; i < st.NumFields(); i++ {
				if types.Identical(st.Field(i).Type(), counterT.Type()) {
					return true
				}
			}
		}
		return false
	}
	// A (who may write): counter locations reachable from package-level variables are assigned only inside functions that
	// nothing but sync.Once.Do runs
	for _, fn := range w.modFns {
		if isCanary(fn) || pkgPathOf(fn) != pkgPath {
			continue
		}
		for _, b := range fn.Blocks {
			for _, in := range b.Instrs {
				st, ok := in.(*ssa.Store)
				if !ok {
					continue
				}
				loc := ssaLoc(st.Addr)
				if loc == nil || !holdsCounter(st.Val.Type()) {
					continue
				}
				key := pkgPath + " counter " + short(loc.String()) + " | assigned only inside Once.Do"
				if fn.Name() == "init" && fn.Synthetic != "" {
					r.Fail(rule, key, w.pos(st.Pos()), "counter created at package initialisation (before the metric factory is installed)")
					continue
				}
				if !w.inOnce(fn) {
					r.Fail(rule, key, w.pos(st.Pos()), "counter assigned outside a sync.Once.Do closure (racy re-initialisation)")
					continue
				}
				r.Pass(rule, key, w.pos(st.Pos()), "")
				onces[outermostOnce(w, fn)] = true
			}
		}
	}
	// B (what is bound): run each of those functions and read off which location received which NewCounter(name)
	cNew := "(" + pMon + ".MetricFactory).NewCounter"
	metricOf := func(v *Term) (string, bool) {
		if v == nil || v.Kind != "call" || v.Name != cNew || len(v.Args) < 3 || v.Args[2].Kind != "const" {
			return "", false
		}
		return unquote(v.Args[2].Name), true
	}
	var addrVal func(a *Term) *Term
	addrVal = func(a *Term) *Term {
		switch a.Kind {
		case "gaddr":
			return mk("global", a.Name, 0, nil)
		case "faddr":
			if base := addrVal(a.Args[0]); base != nil {
				return mk("field", a.Name, 0, nil, base)
			}
		}
		return nil
	}
	for f := range onces {
		e := w.engine(3, 1)
		for _, s := range e.Explore(f) {
			if s.Panic {
				continue
			}
			if s.Trunc != "" {
				r.Undecided(rule, funcNameOrSSA(f), "", "path enumeration truncated: "+s.Trunc)
				continue
			}
			assigned := map[string]int{}
			for _, ev := range eventsOfKind(s, "store") {
				loc := addrVal(ev.Recv)
				if loc == nil || len(ev.Args) != 1 {
					continue
				}
				structOf := ""
				bind := func(l *Term, v *Term) {
					assigned[l.key]++
					key := pkgPath + " counter " + short(l.String()) + " | created by NewCounter with a constant name"
					if m, ok := metricOf(v); ok {
						out[l.key] = m
						if l.Kind == "field" && structOf != "" {
							// the same structure reached through another pointer (a field of the serving object set from the
							// package's singleton): counters are identified by the structure type and the field
							tk := "type:" + structOf + "." + l.Name
							if prev, dup := out[tk]; dup && prev != m {
								out[tk] = "ambiguous"
							} else {
								out[tk] = m
							}
						}
						r.Pass(rule, key, w.pos(ev.Pos), "")
					} else if v != nil && v.Typ != nil && types.Identical(v.Typ, counterT.Type()) || (v != nil && v.Kind == "call" && v.Name == cNew) {
						r.Fail(rule, key, w.pos(ev.Pos), "counter assigned from "+short(fmt.Sprint(v))+", not from MetricFactory.NewCounter with a constant name")
					}
				}
				v := ev.Args[0]
				if v.Kind == "alloc" {
					// a pointer to a freshly built struct of counters: read what it points to at the end of the function
					if sv, ok := s.Mem[v.key]; ok && sv.Kind == "structval" {
						v = sv
					} else if et := elemType(v.Typ); et != nil {
						if st, ok := et.Underlying().(*types.Struct); ok {
							var fvs []*Term
							for i := 0; i < st.NumFields(); i++ {
								if cv, ok := s.Mem[mk("faddr", st.Field(i).Name(), 0, nil, v).key]; ok {
									fvs = append(fvs, mk("fieldval", st.Field(i).Name(), 0, nil, cv))
								}
							}
							if len(fvs) > 0 {
								v = mk("structval", typeStr(et), 0, et, fvs...)
							}
						}
					}
				}
				if v.Kind == "structval" {
					structOf = v.Name
					for _, fv := range v.Args {
						if len(fv.Args) == 1 {
							if _, isC := metricOf(fv.Args[0]); isC {
								bind(mk("field", fv.Name, 0, nil, loc), fv.Args[0])
							}
						}
					}
				} else if _, isC := metricOf(v); isC {
					bind(loc, v)
				}
			}
			for k, n := range assigned {
				if n != 1 {
					r.Fail(rule, pkgPath+" counter "+k+" | single assignment", "", fmt.Sprintf("counter is assigned %d times", n))
				}
			}
		}
	}
	return out, onces
}

// counterBindingsQuiet: the witness package's counter bindings, without reporting (for rules that only filter by name).
var counterQuietCache = map[*World]map[string]string{}

func counterBindingsQuiet(w *World) map[string]string {
	if c, ok := counterQuietCache[w]; ok {
		return c
	}
	out, _ := counterBindings(w, newRun("x", "quick", 0), pWitness, "x")
	counterQuietCache[w] = out
	return out
}

// counterName: the metric name a counter location was created with: by location, or — for a field of a structure of counters
// reached through a pointer other than the package's own (w.metrics.attempt) — by structure type and field.
func counterName(names map[string]string, recv *Term) (string, bool) {
	if recv == nil {
		return "", false
	}
	if m, ok := names[recv.key]; ok {
		return m, true
	}
	if recv.Kind == "field" && len(recv.Args) == 1 && recv.Args[0] != nil && recv.Args[0].Typ != nil {
		if et := elemType(recv.Args[0].Typ); et != nil {
			if m, ok := names["type:"+typeStr(et)+"."+recv.Name]; ok && m != "ambiguous" {
				return m, true
			}
		}
		if m, ok := names["type:"+typeStr(recv.Args[0].Typ)+"."+recv.Name]; ok && m != "ambiguous" {
			return m, true
		}
	}
	return "", false
}

// outermostOnce: the function handed to Once.Do that (lexically) contains fn.
func outermostOnce(w *World, fn *ssa.Function) *ssa.Function {
	c := w.callgraph()
	for f := fn; f != nil; f = f.Parent() {
		if c.onceFns[f] {
			return f
		}
	}
	return fn
}

// onceDoClosures returns the closures that fn passes to (*sync.Once).Do.
func onceDoClosures(fn *ssa.Function) []*ssa.Function {
	var out []*ssa.Function
	for _, b := range fn.Blocks {
		for _, in := range b.Instrs {
			call, ok := in.(*ssa.Call)
			if !ok {
				continue
			}
			sc := call.Call.StaticCallee()
			if sc == nil || funcName(sc) != "(*sync.Once).Do" {
				continue
			}
			for _, arg := range call.Call.Args {
				if mc, ok := arg.(*ssa.MakeClosure); ok {
					out = append(out, mc.Fn.(*ssa.Function))
				}
				if f, ok := arg.(*ssa.Function); ok {
					out = append(out, f)
				}
			}
		}
	}
	return out
}

var c20Metrics = map[string]bool{"witness_update_request": true, "witness_update_success": true, "witness_update_invalid_consistency": true, "witness_update_inconsistent_checkpoints": true}

func ruleOutcomeCounter(w *World, r *Run, a *updAnalysis, rule string) {
	if !a.guard(r, rule) {
		return
	}
	names := counterNames(w, r, pWitness, "C20.c")
	byMetric := map[string]string{}
	for g, m := range names {
		byMetric[m] = g
	}
	for _, m := range []string{"witness_update_request", "witness_update_success", "witness_update_invalid_consistency", "witness_update_inconsistent_checkpoints"} {
		if byMetric[m] == "" {
			r.Undecided(rule, "metric "+m, "", "no counter variable is created with this metric name")
			return
		}
	}
	for _, v := range a.paths {
		cnt := map[string]int{}
		for _, ie := range v.incs {
			g := "?"
			if ie.Recv != nil {
				g = ie.Recv.key
			}
			m, ok := counterName(names, ie.Recv)
			_ = g
			if !ok {
				m = "unknown-counter:" + short(fmt.Sprint(ie.Recv))
			}
			// the property speaks about these four; a counter created under another metric name is not one of them
			if ok && !c20Metrics[m] {
				continue
			}
			cnt[m]++
		}
		want := map[string]int{}
		if v.known != -1 {
			want["witness_update_request"] = 1
		}
		switch v.outcome {
		case "accepted":
			want["witness_update_success"] = 1
		case pWitness + ".ErrInvalidProof":
			want["witness_update_invalid_consistency"] = 1
		case pWitness + ".ErrRootMismatch":
			want["witness_update_inconsistent_checkpoints"] = 1
		}
		key := a.key(v, "counters")
		r.Check(fmt.Sprint(cnt) == fmt.Sprint(want), rule, key, w.pos(v.s.RetPos), fmt.Sprintf("counters moved on this path %v, want %v for outcome %s; path: %s", cnt, want, shortGlobal(v.outcome), pathString(a.eng, v.s)))
		// the attempt counter is bumped before the outcome is known (so that no outcome can skip it)
	}
}

func ruleCounterLabel(w *World, r *Run, a *updAnalysis, rule string) {
	if !a.guard(r, rule) {
		return
	}
	names := counterBindingsQuiet(w)
	for _, v := range a.paths {
		for _, ie := range v.incs {
			// the property speaks about the four update counters; a counter created under another metric name carries the
			// labels its own definition gives it
			if m, known := counterName(names, ie.Recv); known && !c20Metrics[m] {
				continue
			}
			ok := len(ie.Args) == 1 && ie.Args[0].Kind == "varargs" && len(ie.Args[0].Args) == 1 && ie.Args[0].Args[0] == a.pLogID
			r.Check(ok, rule, a.key(v, "Inc label"), w.pos(ie.Pos), "counter label is "+short(fmt.Sprint(ie.Args))+", want exactly the request's log ID")
		}
	}
}

// observationOnly: the event cannot change or reveal witness state: deferrals, reads, calls into the logging, clock,
// formatting and string packages of the standard library and klog, and calls of an operator-supplied callback held in the
// witness's own configuration that is handed nothing but scalars (outcome codes, durations).
var observationPkgs = map[string]bool{"k8s.io/klog/v2": true, "fmt": true, "time": true, "errors": true, "strings": true, "strconv": true, "bytes": true, "unicode/utf8": true, "sort": true, "math": true, "math/bits": true, "runtime": true}

func observationOnly(a *updAnalysis, ev Event) bool {
	switch ev.Kind {
	case "defer", "mapread", "index", "fieldaddr", "copyconv", "slice":
		return true
	case "call":
		if observationPkgs[calleePkg(ev.Callee)] {
			return true
		}
		// a counter other than the four the property speaks about (one that counts refusals of unknown logs, say) observes
		if ev.Callee == cInc && curWorld != nil {
			if m, known := counterName(counterBindingsQuiet(curWorld), ev.Recv); known && !c20Metrics[m] {
				return true
			}
		}
		if ev.Callee == "dyn" && ev.Recv != nil && mentions(ev.Recv, a.pRecv) {
			for _, x := range ev.Args {
				if x == nil || x.Typ == nil {
					return false
				}
				if _, basic := x.Typ.Underlying().(*types.Basic); !basic {
					return false
				}
			}
			return true
		}
	}
	return false
}

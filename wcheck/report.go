package main

import (
	"encoding/json"
	"fmt"
	"os"
	"path/filepath"
	"sort"
	"strings"
	"time"
)

type Verdict struct {
	Rule   string `json:"rule"`
	Key    string `json:"key"`
	Status string `json:"status"` // pass violation undecided known info
	Pos    string `json:"pos,omitempty"`
	Msg    string `json:"msg,omitempty"`
	Path   string `json:"path,omitempty"`
}

type KnownFinding struct {
	Property string `json:"property"`
	Key      string `json:"key"`
	Status   string `json:"status"` // known | fixed
	Commit   string `json:"commit,omitempty"`
	What     string `json:"what"`
}

type Run struct {
	Prop       string
	Tier       string
	Seed       int
	verdicts   []Verdict
	evals      int
	funcs      map[string]bool
	paths      int
	sites      int
	canaries   map[string]bool
	expl       string
	notdec     []string
	trusted    []string
	assume     []string
	extra      map[string]any
	samples    []any
	start      time.Time
	selftest   []map[string]any
	evDir      string
	exhaustive bool
}

func newRun(prop, tier string, seed int) *Run {
	return &Run{Prop: prop, Tier: tier, Seed: seed, funcs: map[string]bool{}, canaries: map[string]bool{}, extra: map[string]any{}, start: time.Now()}
}

func (r *Run) add(status, rule, key, pos, msg string) {
	r.evals++
	r.verdicts = append(r.verdicts, Verdict{Rule: rule, Key: rule + " | " + key, Status: status, Pos: pos, Msg: msg})
}
func (r *Run) Pass(rule, key, pos, msg string)      { r.add("pass", rule, key, pos, msg) }
func (r *Run) Fail(rule, key, pos, msg string)      { r.add("violation", rule, key, pos, msg) }
func (r *Run) Undecided(rule, key, pos, msg string) { r.add("undecided", rule, key, pos, msg) }
func (r *Run) Info(rule, key, pos, msg string)      { r.add("info", rule, key, pos, msg) }

// Check records pass or violation.
func (r *Run) Check(ok bool, rule, key, pos, msg string) bool {
	if ok {
		r.Pass(rule, key, pos, "")
	} else {
		r.Fail(rule, key, pos, msg)
	}
	return ok
}

func (r *Run) Analysed(fn string, paths int) {
	r.funcs[fn] = true
	r.paths += paths
}

func (r *Run) Sample(s any) {
	if len(r.samples) < 12 {
		r.samples = append(r.samples, s)
	}
}

func loadKnown(verifDir string) ([]KnownFinding, error) {
	b, err := os.ReadFile(filepath.Join(verifDir, "known_findings.json"))
	if err != nil {
		if os.IsNotExist(err) {
			return nil, nil
		}
		return nil, err
	}
	var k struct {
		Findings []KnownFinding `json:"findings"`
	}
	if err := json.Unmarshal(b, &k); err != nil {
		return nil, err
	}
	return k.Findings, nil
}

// Finish prints diagnostics, writes evidence and returns the exit status.
// Assume records a modelling assumption (once) in the evidence.
func (r *Run) Assume(a string) {
	for _, x := range r.assume {
		if x == a {
			return
		}
	}
	r.assume = append(r.assume, a)
}

func (r *Run) Finish(verifDir string, cmd string) int {
	known, err := loadKnown(verifDir)
	if err != nil {
		fmt.Printf("undecided: cannot read known_findings.json: %v\n", err)
		r.Undecided("KNOWN", "known_findings.json", "", err.Error())
	}
	kmap := map[string]KnownFinding{}
	for _, k := range known {
		if k.Property == r.Prop && k.Status == "known" {
			kmap[k.Key] = k
		}
	}
	nviol, nund, nknown, npass := 0, 0, 0, 0
	distinct := map[string]bool{}
	seenKnown := map[string]bool{}
	var bad []Verdict
	for i := range r.verdicts {
		v := &r.verdicts[i]
		switch v.Status {
		case "violation":
			if k, ok := kmap[v.Key]; ok {
				v.Status = "known"
				nknown++
				if !seenKnown[v.Key] {
					seenKnown[v.Key] = true
					fmt.Printf("KNOWN-FINDING: property=%s %s [%s at %s]\n", r.Prop, k.What, v.Key, v.Pos)
				}
				distinct[v.Key] = true
				continue
			}
			nviol++
			bad = append(bad, *v)
			distinct[v.Key] = true
		case "undecided":
			nund++
			bad = append(bad, *v)
		case "pass":
			npass++
			distinct[v.Key] = true
		}
	}
	sort.SliceStable(bad, func(i, j int) bool { return bad[i].Pos < bad[j].Pos })
	seenBad := map[string]bool{}
	perRule := map[string]int{}
	for _, v := range bad {
		msg := v.Msg
		if i := strings.Index(msg, "; path: "); i >= 0 {
			msg = msg[:i]
		}
		dk := v.Pos + "|" + v.Rule + "|" + msg
		if seenBad[dk] {
			continue
		}
		seenBad[dk] = true
		perRule[v.Rule]++
		if perRule[v.Rule] == 13 {
			fmt.Printf("… further %s reports are in the report file\n", v.Rule)
		}
		if perRule[v.Rule] >= 13 {
			continue
		}
		fmt.Printf("%s: rule %s %s: %s  [key: %s]\n", v.Pos, v.Rule, v.Status, v.Msg, v.Key)
	}
	evDir := filepath.Join(verifDir, "evidence")
	if r.evDir != "" {
		evDir = r.evDir
	}
	os.MkdirAll(evDir, 0o755)
	status := 0
	reportPath := filepath.Join(evDir, r.Prop+".report.json")
	if nviol+nund > 0 {
		status = 1
		rb, _ := json.MarshalIndent(map[string]any{"property": r.Prop, "tier": r.Tier, "failures": bad}, "", " ")
		os.WriteFile(reportPath, rb, 0o644)
		fmt.Printf("VIOLATION property=%s replay=%s\n", r.Prop, reportPath)
	} else {
		os.Remove(reportPath)
	}
	var fns []string
	for f := range r.funcs {
		fns = append(fns, f)
	}
	sort.Strings(fns)
	samples := r.samples
	byRule := map[string]map[string]int{}
	seenRule := map[string]bool{}
	for _, v := range r.verdicts {
		if byRule[v.Rule] == nil {
			byRule[v.Rule] = map[string]int{}
		}
		byRule[v.Rule][v.Status]++
		// one sample obligation per rule, so that a reader sees what each rule's obligations look like
		if !seenRule[v.Rule] && len(samples) < 24 && (v.Status == "pass" || v.Status == "known" || v.Status == "violation") {
			seenRule[v.Rule] = true
			samples = append(samples, map[string]string{"rule": v.Rule, "obligation": v.Key, "status": v.Status, "at": v.Pos})
		}
	}
	if len(samples) == 0 {
		samples = append(samples, "no obligation matched a construct")
	}
	expl := r.expl
	if len(r.notdec) > 0 {
		expl += " NOT DECIDED: " + strings.Join(r.notdec, "; ") + "."
	}
	cov := map[string]any{
		"explanation":         expl,
		"obligations":         npass + nviol + nund + nknown,
		"discharged":          npass,
		"evaluations":         r.evals,
		"distinct_nontrivial": len(distinct),
		"rule":                "one obligation = one (rule, construct) pair found in /repo's type-checked source on this run; distinct = distinct semantic keys; an obligation is non-trivial when it matched a real construct (function, call site, path or table cell)",
		"samples":             samples,
		"checker_cmd":         cmd,
		"trusted_base":        r.trusted,
		"functions_analysed":  fns,
		"paths_enumerated":    r.paths,
		"call_sites":          r.sites,
		"known_findings":      nknown,
		"undecided":           nund,
		"exhaustive":          r.exhaustive,
		"exhaustive_scope":    "every feasible control-flow path of the analysed roots after inlining module callees (loops unrolled k=1, thorough k=2; path cap 20000 turns into undecided), every matching construct of the type-checked production code for structural rules",
		"by_rule":             byRule,
	}
	for k, v := range r.extra {
		cov[k] = v
	}
	if r.selftest != nil {
		cov["selftest"] = r.selftest
	}
	if r.trusted == nil {
		r.trusted = []string{"Go type checker and go/ssa construction (golang.org/x/tools v0.29.0)"}
		cov["trusted_base"] = r.trusted
	}
	assume := append([]string{"dependencies are the versions pinned in /repo/go.sum (cannot change offline)", "production wiring is what cmd/omniwitness and cmd/feedbastion build"}, r.assume...)
	for _, t := range r.trusted {
		assume = append(assume, "trusted: "+t)
	}
	ev := map[string]any{
		"property_id": r.Prop,
		"tier":        r.Tier,
		"seed":        r.Seed,
		"level":       "other",
		"coverage":    cov,
		"assumptions": assume,
		"wall_s":      time.Since(r.start).Seconds(),
		"violations":  nviol,
	}
	eb, _ := json.MarshalIndent(ev, "", " ")
	if err := os.WriteFile(filepath.Join(evDir, r.Prop+".json"), eb, 0o644); err != nil {
		fmt.Printf("cannot write evidence: %v\n", err)
		return 1
	}
	fmt.Printf("%s %s: obligations=%d pass=%d violations=%d undecided=%d known=%d functions=%d paths=%d wall=%.1fs\n",
		r.Prop, r.Tier, npass+nviol+nund+nknown, npass, nviol, nund, nknown, len(fns), r.paths, time.Since(r.start).Seconds())
	return status
}

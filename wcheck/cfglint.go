package main

// C17: the shipped log configuration. The YAML files are source (go:embed compiles them into the
// binaries); every entry is validated against constraint sets extracted from the repository's code.

import (
	"fmt"
	"go/ast"
	"go/parser"
	"go/token"
	"go/types"
	"net/url"
	"os"
	"path/filepath"
	"reflect"
	"sort"
	"strconv"
	"strings"

	"gopkg.in/yaml.v3"
)

type cfgConstraints struct {
	yamlKeys    map[string]string // struct field -> yaml key
	feederNames map[string]string // yaml feeder name -> enum const name
	lowerTrim   bool              // ParseFeeder normalises with ToLower/TrimSpace
	rekorParam  string            // required query parameter of the rekor feeder
	schemes     map[string]bool   // URL schemes the serverless feeder supports (others panic)
	urlParsers  map[string]bool   // feeder packages that url.Parse the URL at start
	intParams   []intParamCheck   // start-up refusals on a numeric parse of a URL query parameter
}

// intParamCheck: FeedLog of feeder `enum` refuses to start unless strconv.<fn>(query parameter `param`) succeeds.
type intParamCheck struct {
	enum, param, fn string
	base, bits      int
	pos             string
}

func embedTargets(dir string) (map[string]string, error) {
	// variable name -> embedded file, from //go:embed directives (test files included: logs_test.yaml is embedded by a test)
	out := map[string]string{}
	fset := token.NewFileSet()
	pkgs, err := parser.ParseDir(fset, dir, nil, parser.ParseComments)
	if err != nil {
		return nil, err
	}
	for _, p := range pkgs {
		for _, f := range p.Files {
			for _, d := range f.Decls {
				gd, ok := d.(*ast.GenDecl)
				if !ok || gd.Tok != token.VAR {
					continue
				}
				for _, sp := range gd.Specs {
					vs := sp.(*ast.ValueSpec)
					doc := vs.Doc
					if doc == nil {
						doc = gd.Doc
					}
					if doc == nil {
						continue
					}
					for _, c := range doc.List {
						if strings.HasPrefix(c.Text, "//go:embed ") {
							for _, n := range vs.Names {
								out[n.Name] = strings.TrimSpace(strings.TrimPrefix(c.Text, "//go:embed "))
							}
						}
					}
				}
			}
		}
	}
	return out, nil
}

func extractConstraints(w *World, r *Run, rule string) (*cfgConstraints, bool) {
	c := &cfgConstraints{yamlKeys: map[string]string{}, feederNames: map[string]string{}, schemes: map[string]bool{}, urlParsers: map[string]bool{}}
	// yaml keys of omniwitness.LogInfo
	li := w.lookup(pOmni, "LogInfo")
	if li == nil {
		r.Undecided(rule, "omniwitness.LogInfo", "", "type not found")
		return nil, false
	}
	st := li.Type().Underlying().(*types.Struct)
	for i := 0; i < st.NumFields(); i++ {
		tag := reflect.StructTag(st.Tag(i)).Get("yaml")
		if tag == "" {
			tag = strings.ToLower(st.Field(i).Name())
		}
		c.yamlKeys[st.Field(i).Name()] = strings.Split(tag, ",")[0]
	}
	for _, need := range []string{"Origin", "PublicKey", "URL", "Feeder"} {
		if c.yamlKeys[need] == "" {
			r.Undecided(rule, "omniwitness.LogInfo."+need, "", "field not found")
			return nil, false
		}
	}
	// feeder registry (by evaluation, see rules_registry.go)
	reg := feederRegistry(w)
	for name, v := range reg.byName {
		c.feederNames[name] = reg.consts[v]
	}
	if len(c.feederNames) < 2 {
		r.Undecided(rule, "omniwitness feeder registry", "", "feeder registry not recognised")
		return nil, false
	}
	// ParseFeeder normalisation
	if sums, _, ok := explore(w, r, rule, fnParseFeeder, 4, 1); ok {
		for _, s := range sums {
			if len(calls(s, "strings.ToLower")) > 0 && len(calls(s, "strings.TrimSpace")) > 0 {
				c.lowerTrim = true
			}
		}
	}
	// rekor: the query parameter it insists on
	rk := modPath + "/internal/feeder/rekor.FeedLog"
	if sums, _, ok := exploreOpaque(w, r, rule, rk, 4, 1, fnRun, fnFeedOnce); ok {
		for _, s := range sums {
			for _, g := range calls(s, "(net/url.Values).Get") {
				if p, ok := constInt(g.Args[0]); ok {
					// the path where it is empty returns an error
					if k, v, _ := eqConstFact(s, g.Res, "\"\""); k && v && len(s.Rets) == 1 && neverNil(s.Rets[0]) {
						c.rekorParam = unquote(p)
					}
				}
			}
		}
	}
	// every feeder: start-up refusals that depend on parsing a query parameter of the configured URL as an integer
	enumOf := feedFuncEnums(w)
	for _, fp := range feederPkgs {
		name := modPath + "/internal/feeder/" + fp + ".FeedLog"
		if w.fn(name) == nil {
			continue
		}
		sums, _, ok := exploreOpaque(w, r, rule, name, 4, 1, fnRun, fnFeedOnce)
		if !ok {
			continue
		}
		seen := map[string]bool{}
		for _, s := range sums {
			if len(calls(s, fnRun)) > 0 || len(s.Rets) != 1 || !neverNil(s.Rets[0]) {
				continue
			}
			for _, pc := range calls(s, "strconv.Atoi", "strconv.ParseInt", "strconv.ParseUint") {
				if !failed(s, pc) || len(pc.Args) == 0 {
					continue
				}
				arg := pc.Args[0]
				if !(arg.Kind == "call" && arg.Name == "(net/url.Values).Get" && len(arg.Args) == 3 && arg.Args[2].Kind == "const") {
					continue
				}
				ic := intParamCheck{enum: enumOf[name], param: unquote(arg.Args[2].Name), fn: pc.Callee[strings.LastIndex(pc.Callee, ".")+1:], base: 10, bits: 0, pos: w.pos(pc.Pos)}
				if len(pc.Args) == 3 {
					if b, ok := constInt(pc.Args[1]); ok {
						fmt.Sscan(b, &ic.base)
					}
					if b, ok := constInt(pc.Args[2]); ok {
						fmt.Sscan(b, &ic.bits)
					}
				}
				k := fmt.Sprint(ic)
				if !seen[k] {
					seen[k] = true
					c.intParams = append(c.intParams, ic)
				}
			}
		}
	}
	if c.rekorParam == "" {
		r.Undecided(rule, rk+" | required query parameter", "", "could not extract the query parameter the rekor feeder requires")
		return nil, false
	}
	// serverless: supported schemes = the cases of newFetcher that do not panic
	nf := modPath + "/internal/feeder/serverless.newFetcher"
	if sums, _, ok := explore(w, r, rule, nf, 4, 1); ok {
		fn := w.fn(nf)
		var root *Term
		for _, p := range fn.Params {
			if typeStr(p.Type()) == "*url.URL" {
				root = mk("param", p.Name(), 0, p.Type())
			}
		}
		panics := 0
		for _, s := range sums {
			if s.Panic {
				panics++
				continue
			}
			for _, f := range s.Facts {
				if f.Pos && f.T.Kind == "binop" && f.T.Name == "==" {
					for i := 0; i < 2; i++ {
						a, b := f.T.Args[i], f.T.Args[1-i]
						if root != nil && a == mk("field", "Scheme", 0, nil, root) && b.Kind == "const" {
							c.schemes[unquote(b.Name)] = true
						}
					}
				}
			}
		}
		r.extra["serverless_unsupported_scheme_panics"] = panics > 0
	}
	if len(c.schemes) == 0 {
		r.Undecided(rule, nf+" | supported schemes", "", "could not extract the URL schemes the serverless feeder supports")
		return nil, false
	}
	return c, true
}

func ruleShippedConfig(w *World, r *Run, rule string) {
	c, ok := extractConstraints(w, r, rule)
	if !ok {
		return
	}
	r.extra["extracted_constraints"] = map[string]any{"yaml_keys": c.yamlKeys, "feeder_names": c.feederNames, "parsefeeder_normalises": c.lowerTrim, "rekor_required_param": c.rekorParam, "serverless_schemes": keysOf(c.schemes)}
	dir := filepath.Join(w.repo, "omniwitness")
	emb, err := embedTargets(dir)
	if err != nil {
		r.Undecided(rule, "omniwitness go:embed directives", "", err.Error())
		return
	}
	var files []string
	for _, f := range emb {
		if strings.HasSuffix(f, ".yaml") || strings.HasSuffix(f, ".yml") {
			files = append(files, f)
		}
	}
	sort.Strings(files)
	if emb["ConfigLogs"] == "" {
		r.Undecided(rule, "omniwitness.ConfigLogs | go:embed", "", "the production configuration variable has no go:embed directive")
		return
	}
	total := 0
	for _, f := range files {
		path := filepath.Join(dir, f)
		data, ok := w.overlay[path]
		if !ok {
			var err error
			data, err = os.ReadFile(path)
			if err != nil {
				r.Fail(rule, "omniwitness/"+f+" | readable", "omniwitness/"+f, err.Error())
				continue
			}
		}
		var doc struct {
			Logs []map[string]yaml.Node `yaml:"Logs"`
		}
		if err := yaml.Unmarshal(data, &doc); err != nil {
			r.Fail(rule, "omniwitness/"+f+" | parses as YAML", "omniwitness/"+f, err.Error())
			continue
		}
		if len(doc.Logs) == 0 {
			r.Fail(rule, "omniwitness/"+f+" | has entries", "omniwitness/"+f, "no Logs entries")
			continue
		}
		ids := map[string]string{}
		for i, e := range doc.Logs {
			total++
			get := func(field string) (string, int) {
				n, ok := e[c.yamlKeys[field]]
				if !ok {
					return "", 0
				}
				return n.Value, n.Line
			}
			origin, line := get("Origin")
			pk, _ := get("PublicKey")
			u, _ := get("URL")
			fd, _ := get("Feeder")
			pos := fmt.Sprintf("omniwitness/%s:%d", f, line)
			ek := fmt.Sprintf("omniwitness/%s entry %q", f, origin)
			if origin == "" {
				ek = fmt.Sprintf("omniwitness/%s entry #%d", f, i+1)
				r.Fail(rule, ek+" | origin present", pos, "entry without an origin")
				continue
			}
			// 1. key
			if _, err := parseLogKey(pk); err != nil {
				r.Fail(rule, ek+" | public key parses into a verifier", pos, "start-up aborts on this entry: "+err.Error())
			} else {
				r.Pass(rule, ek+" | public key parses into a verifier", pos, "")
			}
			// 2. ID uniqueness
			id := logIDOf(origin)
			if o, dup := ids[id]; dup {
				r.Fail(rule, ek+" | log ID unique in the file", pos, fmt.Sprintf("origin %q has the same ID as %q: AsLogMap refuses the configuration at start-up", origin, o))
			} else {
				ids[id] = origin
				r.Pass(rule, ek+" | log ID unique in the file", pos, "")
			}
			// 3. feeder
			fname := fd
			if c.lowerTrim {
				fname = strings.TrimSpace(strings.ToLower(fname))
			}
			enum, known := c.feederNames[fname]
			if !known {
				r.Fail(rule, ek+" | feeder type known", pos, fmt.Sprintf("feeder %q is not in the registry %v: yaml decoding fails at start-up", fd, sortedMapKeys(c.feederNames)))
				continue
			}
			r.Pass(rule, ek+" | feeder type known", pos, "")
			// 4. URL
			if enum == "None" {
				r.Pass(rule, ek+" | URL usable by its feeder", pos, "")
				continue
			}
			pu, err := url.Parse(u)
			problem := ""
			switch {
			case err != nil:
				problem = "URL does not parse: " + err.Error()
			case enum == "Rekor" && pu.Query().Get(c.rekorParam) == "":
				problem = "rekor feeder requires the query parameter " + c.rekorParam
			case enum == "Serverless" && !c.schemes[pu.Scheme]:
				problem = fmt.Sprintf("serverless feeder panics on scheme %q (supported: %s)", pu.Scheme, keysOf(c.schemes))
			case enum != "Serverless" && pu.Scheme != "http" && pu.Scheme != "https":
				problem = fmt.Sprintf("feeder %s fetches over HTTP but the URL scheme is %q", fname, pu.Scheme)
			case (pu.Scheme == "http" || pu.Scheme == "https") && pu.Host == "":
				problem = "URL has no host"
			}
			if problem == "" && err == nil {
				for _, ic := range c.intParams {
					if ic.enum != enum {
						continue
					}
					v := pu.Query().Get(ic.param)
					for _, word := range []int{32, 64} {
						bits := ic.bits
						if bits == 0 {
							bits = word // strconv.Atoi and bitSize 0 mean the platform's int
						}
						var perr error
						if ic.fn == "ParseUint" {
							_, perr = strconv.ParseUint(v, ic.base, bits)
						} else {
							_, perr = strconv.ParseInt(v, ic.base, bits)
						}
						if perr != nil {
							problem = fmt.Sprintf("the %s feeder refuses to start unless strconv.%s(%s=%q) succeeds (%s); on a %d-bit build it fails: %v", fname, ic.fn, ic.param, v, ic.pos, word, perr)
							break
						}
					}
				}
			}
			if problem != "" {
				r.Fail(rule, ek+" | URL usable by its feeder", pos, problem)
			} else {
				r.Pass(rule, ek+" | URL usable by its feeder", pos, "")
			}
			if i < 3 {
				r.Sample(map[string]string{"file": f, "origin": origin, "id": id, "feeder": fname, "url": u})
			}
		}
	}
	r.extra["config_entries_checked"] = total
	if total < 2 {
		r.Undecided(rule, "shipped configuration", "", fmt.Sprintf("only %d entries found", total))
	}
	// code side: yaml decoding of the feeder field goes through ParseFeeder and propagates its error
	un := "(*" + pOmni + ".Feeder).UnmarshalYAML"
	if sums, _, ok := explore(w, r, rule, un, 0, 1); ok {
		for _, s := range sums {
			pf := calls(s, fnParseFeeder)
			if len(pf) == 1 && failed(s, pf[0]) {
				r.Check(len(s.Rets) == 1 && s.Rets[0] == errRes(pf[0]), "C17.b", un+" | unknown feeder name fails decoding", w.pos(s.RetPos), "UnmarshalYAML swallows ParseFeeder's error")
			}
		}
	}
}

// feedFuncEnums maps each FeedLog entry point to the name of the Feeder constant that FeedFunc resolves to it.
func feedFuncEnums(w *World) map[string]string {
	out := map[string]string{}
	reg := feederRegistry(w)
	for v, t := range reg.impl {
		if t != nil {
			out[t.Name] = reg.consts[v]
		}
	}
	return out
}

// shippedUnknownKeys lists (file:line) the keys of shipped configuration entries that are not in known.
func shippedUnknownKeys(w *World, known map[string]bool) []string {
	dir := filepath.Join(w.repo, "omniwitness")
	emb, err := embedTargets(dir)
	if err != nil {
		return nil
	}
	var out []string
	var files []string
	for _, f := range emb {
		if strings.HasSuffix(f, ".yaml") || strings.HasSuffix(f, ".yml") {
			files = append(files, f)
		}
	}
	sort.Strings(files)
	for _, f := range files {
		path := filepath.Join(dir, f)
		data, ok := w.overlay[path]
		if !ok {
			data, err = os.ReadFile(path)
			if err != nil {
				continue
			}
		}
		var doc struct {
			Logs []map[string]yaml.Node `yaml:"Logs"`
		}
		if yaml.Unmarshal(data, &doc) != nil {
			continue
		}
		for _, e := range doc.Logs {
			var ks []string
			for k := range e {
				ks = append(ks, k)
			}
			sort.Strings(ks)
			for _, k := range ks {
				if !known[k] {
					out = append(out, fmt.Sprintf("omniwitness/%s:%d (key %s)", f, e[k].Line, k))
				}
			}
		}
	}
	return out
}

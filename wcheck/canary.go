package main

// loadWithCanaries loads the repository; canary overlay files are added when present.
func loadWithCanaries(repo string, ov map[string][]byte, with bool, deps bool) (*World, string, error) {
	w, err := loadWorld(repo, ov, deps)
	return w, "", err
}

#!/bin/bash
# usage: tools/trymutant.sh <patch.diff> [props...]   — applies a scratch change to /repo, runs the checks with evidence
# redirected to a temp dir (the committed evidence is not touched), and undoes the change straight afterwards.
set -u
patch=$(readlink -f "$1"); shift
props=${*:-all}
cd /verif
if ! git -C /repo diff --quiet; then echo "/repo has uncommitted changes; refusing"; exit 2; fi
git -C /repo apply "$patch" || { echo "patch does not apply"; exit 2; }
tmp=$(mktemp -d)
trap 'git -C /repo checkout -- . ; git -C /repo clean -fdq; rm -rf "$tmp"' EXIT
for p in $props; do
  bin/wcheck -prop "$p" -tier quick -evdir "$tmp" 2>&1 | grep -E "violation|undecided|VIOLATION|KNOWN" | cut -c1-${CUT:-260}
done

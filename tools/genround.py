#!/usr/bin/env python3
"""Writes the per-property prompt files of a mutant round: property text + summaries of every
change already kept under seeded/ (so that a new round looks elsewhere).  usage: genround.py <n>"""
import json, sys, glob, os
n = sys.argv[1]
props = [json.loads(l) for l in open('/verif/properties.jsonl')]
guid = open('/verif/tools/round_guidance.txt').read().strip()
for p in props:
    pid = p['id']
    known = []
    for d in sorted(glob.glob(f'/verif/seeded/{pid}-*')):
        m = json.load(open(d + '/meta.json'))
        known.append('- ' + m['summary'][:260].replace('\n', ' ') + ' (files: ' + ', '.join(m.get('files_changed', [])) + ')')
    wt, out = f'/tmp/mut/r{n}/{pid}', f'/tmp/mut/r{n}out/{pid}'
    os.makedirs(out, exist_ok=True)
    t = f"""You are helping test a verification tool by writing realistic *bugs*. You work ONLY inside a scratch git worktree of the Go repository transparency-dev/witness at {wt} and write your results under {out}/. Do not read or touch /repo, /verif or any other directory (other than the Go module cache for reading dependency sources if you need to).

The repository is a Go witness service for verifiable logs: it verifies checkpoint signatures and consistency proofs, ratchets per-log state append-only, and cosigns checkpoints. Start with README.md, internal/witness/witness.go, internal/persistence/, internal/feeder/, omniwitness/, internal/distribute/, internal/http/, client/ as relevant.

Every shell command needs: export GOFLAGS=-mod=mod GOPROXY=off GOSUMDB=off GOTOOLCHAIN=local   (there is no network; nothing can be downloaded).

PROPERTY (this is all you get; it describes behaviour that must always hold):
---
{pid}: {p['title']}

{p['statement'] if 'statement' in p else p.get('text','')}
---

ALREADY KNOWN (earlier engineers produced these; do NOT repeat them or close variants — find different mechanisms, different functions/files and different clauses of the property):
{chr(10).join(known)}

{guid}
NEVER use `git stash` (it is shared between worktrees): use `git diff > file; git checkout -- .; git apply file`.

---

TASK: produce TWO different source changes ("mutants") to the repository, each of which BREAKS this property while
 (1) still compiling:  go build ./...
 (2) still passing the entire existing test suite, unedited:  go test -count=1 ./...   (all packages must stay ok)
 (3) needing something specific to manifest: a particular interleaving, a crash or fault at a particular point, a multi-step sequence of operations, an unusual input, or two cooperating sites that each look fine alone. NOT something that ordinary use would expose at once.
Make them realistic: the kind of slip a developer could plausibly commit (a refactoring slip, an "optimisation", a wrong operator or swapped same-typed argument, a dropped or misplaced check, an error handled too leniently, a changed constant, wrong lock, etc.). Keep each small (roughly 1-20 changed lines). The two mutants must differ in mechanism AND in location (different function or file if possible). Do not add new dependencies. Do not edit or delete existing tests.

For EACH mutant n in {{1,2}}:
 - write a demonstration: a Go test file (or small program) that FAILS with the change applied and PASSES on the unchanged tree. The demonstration is NOT part of the patch.
 - verify all of it yourself: unchanged tree + demo => pass; mutant + demo => fail; mutant => go build ./... ok and go test -count=1 ./... all ok (without the demo file present).
 - save:
     {out}/<n>/patch.diff      = output of `git diff` containing ONLY the source change (apply-able with `git apply` at the repo root)
     {out}/<n>/demo_test.go    = the demonstration; first lines: a comment saying in which package directory it must be placed and the exact command to run it
     {out}/<n>/meta.json       = {{"property":"{pid}","summary":"...","what_it_needs_to_manifest":"...","files_changed":[...],"demo_dir":"...","demo_cmd":"...","ran":[{{"cmd":"...","result":"..."}}]}}
 - then restore the worktree: git checkout -- . && git clean -fdq

If you truly cannot find a second mutant that satisfies all conditions, deliver one and say so. Your final message: two or three lines per mutant (what was changed, what it needs to manifest).
"""
    open(out + '/PROMPT.txt', 'w').write(t)
print('written', len(props))

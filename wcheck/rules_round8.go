package main

// Rules added after the eighth round of seeded changes (cooperating edits, state that outlives a call, shipped data).

import (
	"fmt"
	"go/token"
	"go/types"
	"os"
	"path/filepath"
	"reflect"
	"sort"
	"strings"

	"golang.org/x/tools/go/ssa"
	"gopkg.in/yaml.v3"
)

// ruleNoHiddenVerdictState: no branch of Update tests state the witness keeps outside the store (a sync.Map, a map or a
// package variable reached through the receiver): after a failed write, or a restart, such state disagrees with the last
// committed checkpoint, and the witness no longer "carries on from the last committed state" once the errors stop.
func ruleNoHiddenVerdictState(w *World, r *Run, a *updAnalysis, rule string) {
	if !a.guard(r, rule) {
		return
	}
	bad := false
	for _, v := range a.paths {
		for _, f := range v.s.Facts {
			if hiddenState(a, f.T) {
				bad = true
				r.Fail(rule, a.key(v, "outcome depends only on the request, the configuration and the store"), w.pos(f.At), "the update branches on "+short(f.T.String())+": state the witness keeps outside the store. It is set or cleared independently of whether the write was committed, so after a storage error the next update is decided on something other than the last committed checkpoint")
				break
			}
		}
		if bad {
			break
		}
	}
	if !bad {
		r.Pass(rule, fnUpdate+" | outcome depends only on the request, the configuration and the store", "", "")
	}
}

func stripConv(v ssa.Value) ssa.Value {
	for {
		switch x := v.(type) {
		case *ssa.Convert:
			v = x.X
		case *ssa.ChangeType:
			v = x.X
		default:
			return v
		}
	}
}

// isFieldLoad: v is a load of field `field` of a struct of (named) type `typ` (through a pointer or by value).
func isFieldLoad(v ssa.Value, typ, field string) bool {
	v = stripConv(v)
	switch x := v.(type) {
	case *ssa.UnOp:
		if x.Op != token.MUL {
			return false
		}
		fa, ok := x.X.(*ssa.FieldAddr)
		if !ok {
			return false
		}
		return fieldOfAddr(fa).Name() == field && strings.HasSuffix(strings.TrimPrefix(typeStr(fa.X.Type()), "*"), typ)
	case *ssa.Field:
		st, ok := x.X.Type().Underlying().(*types.Struct)
		return ok && st.Field(x.Field).Name() == field && strings.HasSuffix(typeStr(x.X.Type()), typ)
	}
	return false
}

// ruleContentLengthUnknownIsNotEmpty: Request.ContentLength is -1 when the length is not announced (chunked HTTP/1.1,
// HTTP/2 streams without a content-length). A comparison that draws its line between 0 and 1 (<= 0, < 1, > 0, >= 1) singles
// out "no body" and puts every request of unknown length on the same side: a legal update is then refused before any
// rule of the protocol has looked at it.
func ruleContentLengthUnknownIsNotEmpty(w *World, r *Run, rule string) {
	n, bad := 0, 0
	for _, fn := range w.prodFns() {
		for _, b := range fn.Blocks {
			for _, in := range b.Instrs {
				bo, ok := in.(*ssa.BinOp)
				if !ok {
					continue
				}
				var k *ssa.Const
				op := bo.Op
				switch {
				case isFieldLoad(bo.X, "http.Request", "ContentLength"):
					k, _ = stripConv(bo.Y).(*ssa.Const)
				case isFieldLoad(bo.Y, "http.Request", "ContentLength"):
					k, _ = stripConv(bo.X).(*ssa.Const)
					switch op { // mirror: c OP x  ==  x OP' c
					case token.LSS:
						op = token.GTR
					case token.LEQ:
						op = token.GEQ
					case token.GTR:
						op = token.LSS
					case token.GEQ:
						op = token.LEQ
					}
				default:
					continue
				}
				n++
				if k == nil || k.Value == nil {
					continue
				}
				c := k.Int64()
				if (op == token.LEQ && c == 0) || (op == token.LSS && c == 1) || (op == token.GTR && c == 0) || (op == token.GEQ && c == 1) {
					bad++
					r.Fail(rule, funcNameOrSSA(outermost(fn))+" | a request of unannounced length is not taken for an empty one", w.pos(bo.Pos()), fmt.Sprintf("the request's ContentLength is compared with %s %d: net/http reports -1 when the length is not announced (chunked transfer, HTTP/2 stream without content-length), so every such request lands on the 'empty' side and a legal update is answered before any rule of the protocol has been applied", op, c))
				}
			}
		}
	}
	r.sites += n
	if bad == 0 {
		r.Pass(rule, "module | a request of unannounced length is not taken for an empty one", "", "")
	}
}

// freshHandle: v points to an object this function obtained for itself — a local variable or composite, the result of a
// constructor of the standard library (url.Parse, (*URL).Parse, http.NewRequest, …), or a field of such an object.
func freshHandle(v ssa.Value, depth int) bool {
	if depth > 8 {
		return false
	}
	switch x := v.(type) {
	case *ssa.Alloc:
		return true
	case *ssa.Call:
		if sc := x.Call.StaticCallee(); sc != nil && sc.Pkg != nil {
			p := sc.Pkg.Pkg.Path()
			return p == "net/url" || p == "net/http" || p == "net/http/httptest"
		}
		return false
	case *ssa.Extract:
		return freshHandle(x.Tuple, depth+1)
	case *ssa.UnOp:
		if x.Op == token.MUL {
			if fa, ok := x.X.(*ssa.FieldAddr); ok {
				// the URL of a request: requests are per-request objects, not handles shared between components
				if strings.HasSuffix(typeStr(fa.X.Type()), "http.Request") {
					return true
				}
				// req.URL of a request built here (not: a pointer kept in a local copy of somebody's structure)
				if _, local := fa.X.(*ssa.Alloc); !local {
					return freshHandle(fa.X, depth+1)
				}
			}
		}
		return false
	case *ssa.FieldAddr:
		return freshHandle(x.X, depth+1)
	case *ssa.Phi:
		for _, e := range x.Edges {
			if e != v && !freshHandle(e, depth+1) {
				return false
			}
		}
		return true
	case *ssa.ChangeType:
		return freshHandle(x.X, depth+1)
	}
	return false
}

// ruleSharedHandlesNotMutated: no component writes a field of an *http.Client, *http.Transport or *url.URL that it was
// handed (a parameter, a field of its own structure, another function's result): Main gives one client to every feeder
// and distributor, clients and base URLs are copied by reference, so such a write changes what every other user of the
// same object does from then on (redirects no longer followed, another log's path in the base URL).
func ruleSharedHandlesNotMutated(w *World, r *Run, rule string) {
	n, bad := 0, 0
	shared := map[string]bool{"*http.Client": true, "*http.Transport": true, "*url.URL": true}
	for _, fn := range w.prodFns() {
		for _, b := range fn.Blocks {
			for _, in := range b.Instrs {
				st, ok := in.(*ssa.Store)
				if !ok {
					continue
				}
				fa, ok := st.Addr.(*ssa.FieldAddr)
				if !ok || !shared[typeStr(fa.X.Type())] {
					continue
				}
				n++
				// a client or URL embedded by value in the writer's own structure is the writer's own copy
				if _, emb := fa.X.(*ssa.FieldAddr); emb {
					continue
				}
				if freshHandle(fa.X, 0) {
					continue
				}
				bad++
				r.Fail(rule, funcNameOrSSA(outermost(fn))+" | a client or URL that was handed in is not written through", w.pos(st.Pos()), fmt.Sprintf("field %s of a %s this function did not create is assigned: the object is shared (Main hands one http.Client to every feeder and distributor; clients keep the caller's *url.URL), so the write changes the behaviour of every other component using it — and races with them", fieldOfAddr(fa).Name(), strings.TrimPrefix(typeStr(fa.X.Type()), "*")))
			}
		}
	}
	r.sites += n
	if bad == 0 {
		r.Pass(rule, "module | clients and URLs that were handed in are not written through", "", "")
	}
}

// jsonPointerElems: struct types S such that a value decoded from JSON in production code holds a *S in a field, slice,
// array or map element (encoding/json leaves such a pointer nil for `null` and for a missing key).
func jsonPointerElems(w *World) (map[string]bool, int) {
	out := map[string]bool{}
	seen := map[types.Type]bool{}
	var walk func(t types.Type)
	walk = func(t types.Type) {
		if t == nil || seen[t] {
			return
		}
		seen[t] = true
		switch u := t.Underlying().(type) {
		case *types.Struct:
			for i := 0; i < u.NumFields(); i++ {
				walk(u.Field(i).Type())
			}
		case *types.Slice:
			walk(u.Elem())
		case *types.Array:
			walk(u.Elem())
		case *types.Map:
			walk(u.Elem())
		case *types.Pointer:
			if _, isStruct := u.Elem().Underlying().(*types.Struct); isStruct {
				out[typeStr(u.Elem())] = true
			}
			walk(u.Elem())
		}
	}
	n := 0
	for _, fn := range w.prodFns() {
		for _, b := range fn.Blocks {
			for _, in := range b.Instrs {
				c, ok := in.(ssa.CallInstruction)
				if !ok {
					continue
				}
				idx := -1
				switch ssaCallName(c.Common()) {
				case "encoding/json.Unmarshal":
					idx = 1
				case "(*encoding/json.Decoder).Decode":
					idx = 1
				}
				if idx < 0 || idx >= len(c.Common().Args) {
					continue
				}
				n++
				for _, arg := range decodeTargets(w, fn, c.Common().Args[idx], 0) {
					if p, ok := arg.Type().Underlying().(*types.Pointer); ok {
						// the target itself is the caller's (non-nil) pointer: only what hangs below it counts
						seen[p] = true
						walk(p.Elem())
					}
				}
			}
		}
	}
	return out, n
}

// decodeTargets: the concrete values handed to a decoder as its `any` target: the value wrapped into the interface here,
// or — when the target is a parameter of a helper (getJSON(ctx, url, &v)) — what the helper's callers pass.
func decodeTargets(w *World, fn *ssa.Function, arg ssa.Value, depth int) []ssa.Value {
	if mi, ok := arg.(*ssa.MakeInterface); ok {
		return []ssa.Value{mi.X}
	}
	p, ok := arg.(*ssa.Parameter)
	if !ok || depth > 2 {
		return []ssa.Value{arg}
	}
	pi := -1
	for i, fp := range fn.Params {
		if fp == p {
			pi = i
		}
	}
	var out []ssa.Value
	for _, cf := range w.prodFns() {
		for _, cb := range cf.Blocks {
			for _, cin := range cb.Instrs {
				if cc, ok := cin.(ssa.CallInstruction); ok && cc.Common().StaticCallee() == fn && pi >= 0 && pi < len(cc.Common().Args) {
					out = append(out, decodeTargets(w, cf, cc.Common().Args[pi], depth+1)...)
				}
			}
		}
	}
	return out
}

// sameRead: a and b are the same value, or two reads of the same place (`if t.Opt != nil { use(t.Opt.X) }` reads the
// field twice): loads through structurally equal addresses.
func sameRead(a, b ssa.Value, depth int) bool {
	if a == b {
		return true
	}
	if depth > 6 {
		return false
	}
	switch x := a.(type) {
	case *ssa.UnOp:
		y, ok := b.(*ssa.UnOp)
		return ok && x.Op == token.MUL && y.Op == token.MUL && sameRead(x.X, y.X, depth+1)
	case *ssa.FieldAddr:
		y, ok := b.(*ssa.FieldAddr)
		return ok && x.Field == y.Field && sameRead(x.X, y.X, depth+1)
	case *ssa.Field:
		y, ok := b.(*ssa.Field)
		return ok && x.Field == y.Field && sameRead(x.X, y.X, depth+1)
	case *ssa.IndexAddr:
		y, ok := b.(*ssa.IndexAddr)
		return ok && sameRead(x.X, y.X, depth+1) && sameRead(x.Index, y.Index, depth+1)
	case *ssa.Const:
		y, ok := b.(*ssa.Const)
		return ok && x.Value != nil && y.Value != nil && x.Value.ExactString() == y.Value.ExactString()
	}
	return false
}

// nilGuarded: the use in block `at` is dominated by the non-nil side of a test of v against nil.
func nilGuarded(v ssa.Value, at *ssa.BasicBlock) bool {
	fn := at.Parent()
	for _, b := range fn.Blocks {
		if len(b.Instrs) == 0 {
			continue
		}
		iff, ok := b.Instrs[len(b.Instrs)-1].(*ssa.If)
		if !ok {
			continue
		}
		bo, ok := iff.Cond.(*ssa.BinOp)
		if !ok || (bo.Op != token.NEQ && bo.Op != token.EQL) {
			continue
		}
		isNil := func(x ssa.Value) bool { k, ok := x.(*ssa.Const); return ok && k.Value == nil }
		if !((sameRead(bo.X, v, 0) && isNil(bo.Y)) || (sameRead(bo.Y, v, 0) && isNil(bo.X))) {
			continue
		}
		succ := b.Succs[0]
		if bo.Op == token.EQL {
			succ = b.Succs[1]
		}
		if len(succ.Preds) == 1 && (succ == at || succ.Dominates(at)) {
			return true
		}
	}
	return false
}

// ruleDecodedPointersGuarded: a pointer that encoding/json filled in (an element of a decoded slice or map, a field of a
// decoded structure) is not dereferenced unless a nil test dominates the use: `null` in a peer's answer leaves it nil, and
// a nil dereference in a feeder goroutine takes the whole process down.
func ruleDecodedPointersGuarded(w *World, r *Run, rule string) {
	elems, nDecode := jsonPointerElems(w)
	if nDecode == 0 {
		r.Undecided(rule, "JSON decoding of peer answers", "", "no encoding/json decode call found in production code")
		return
	}
	names := make([]string, 0, len(elems))
	for k := range elems {
		names = append(names, k)
	}
	sort.Strings(names)
	r.extra["json_decoded_pointer_element_types"] = names
	bad := 0
	// loaded: v was read out of memory (a slice/map element, a structure field), not created here
	loaded := func(v ssa.Value) bool {
		switch x := v.(type) {
		case *ssa.UnOp:
			if x.Op != token.MUL {
				return false
			}
			switch x.X.(type) {
			case *ssa.IndexAddr, *ssa.FieldAddr:
				return true
			}
		case *ssa.Lookup, *ssa.Index, *ssa.Field:
			return true
		case *ssa.Extract:
			_, isNext := x.Tuple.(*ssa.Next)
			if isNext {
				return true
			}
			_, isLookup := x.Tuple.(*ssa.Lookup)
			return isLookup
		}
		return false
	}
	for _, fn := range w.prodFns() {
		for _, b := range fn.Blocks {
			for _, in := range b.Instrs {
				var p ssa.Value
				switch x := in.(type) {
				case *ssa.FieldAddr:
					p = x.X
				case *ssa.UnOp:
					if x.Op == token.MUL {
						p = x.X
					}
				}
				if p == nil {
					continue
				}
				pt, ok := p.Type().Underlying().(*types.Pointer)
				if !ok || !elems[typeStr(pt.Elem())] || !loaded(p) {
					continue
				}
				r.sites++
				if nilGuarded(p, b) {
					continue
				}
				bad++
				r.Fail(rule, funcNameOrSSA(outermost(fn))+" | pointers filled in by the JSON decoder are tested before use", w.pos(in.Pos()), fmt.Sprintf("a *%s read out of a JSON-decoded value is dereferenced without a nil test: encoding/json leaves the pointer nil for `null` (and for a key that is missing), so one such element in a log server's answer panics the feeder goroutine and with it the process", typeStr(pt.Elem())))
			}
		}
	}
	if bad == 0 {
		r.Pass(rule, fmt.Sprintf("module | pointers filled in by the JSON decoder are tested before use (%d pointer element types)", len(elems)), "", "")
	}
}

// positiveAt: the value is known positive where it is used: a positive constant, configuration (a parameter or a field
// of one, arithmetic that cannot lower it), or a computed value under a dominating `v > 0` test.
func positiveAt(v ssa.Value, at *ssa.BasicBlock, depth int) bool {
	if depth > 6 {
		return false
	}
	switch x := v.(type) {
	case *ssa.Const:
		return x.Value != nil && x.Int64() > 0
	case *ssa.Parameter, *ssa.FreeVar:
		return true
	case *ssa.Convert:
		return positiveAt(x.X, at, depth+1)
	case *ssa.ChangeType:
		return positiveAt(x.X, at, depth+1)
	case *ssa.UnOp:
		if x.Op == token.MUL {
			switch a := x.X.(type) {
			case *ssa.FieldAddr:
				return configValue(at.Parent(), a, 0)
			case *ssa.Global:
				return true
			case *ssa.Alloc:
				// a local captured by a closure: every value stored into it is positive
				all, n := true, 0
				for _, ref := range *a.Referrers() {
					if st, ok := ref.(*ssa.Store); ok && st.Addr == a {
						n++
						if !positiveAt(st.Val, st.Block(), depth+1) {
							all = false
						}
					}
				}
				if all && n > 0 {
					return true
				}
			}
		}
	case *ssa.Field:
		return configValue(at.Parent(), x, 0)
	case *ssa.BinOp:
		if x.Op == token.MUL || x.Op == token.ADD || x.Op == token.QUO {
			if positiveAt(x.X, at, depth+1) && positiveAt(x.Y, at, depth+1) {
				return true
			}
		}
	case *ssa.Phi:
		all := true
		for i, e := range x.Edges {
			if e == v {
				continue
			}
			if !positiveAt(e, x.Block().Preds[i], depth+1) {
				all = false
			}
		}
		if all {
			return true
		}
	}
	// a dominating test v > c (c >= 0) / v >= c (c >= 1), or the false side of v <= c / v < c
	fn := at.Parent()
	for _, b := range fn.Blocks {
		if len(b.Instrs) == 0 {
			continue
		}
		iff, ok := b.Instrs[len(b.Instrs)-1].(*ssa.If)
		if !ok {
			continue
		}
		bo, ok := iff.Cond.(*ssa.BinOp)
		if !ok {
			continue
		}
		op := bo.Op
		var k *ssa.Const
		switch {
		case bo.X == v:
			k, _ = bo.Y.(*ssa.Const)
		case bo.Y == v:
			k, _ = bo.X.(*ssa.Const)
			switch op {
			case token.LSS:
				op = token.GTR
			case token.LEQ:
				op = token.GEQ
			case token.GTR:
				op = token.LSS
			case token.GEQ:
				op = token.LEQ
			}
		}
		if k == nil || k.Value == nil {
			continue
		}
		c := k.Int64()
		side := -1
		switch {
		case op == token.GTR && c >= 0, op == token.GEQ && c >= 1:
			side = 0
		case op == token.LEQ && c >= 0, op == token.LSS && c >= 1:
			side = 1
		}
		if side < 0 {
			continue
		}
		succ := b.Succs[side]
		if len(succ.Preds) == 1 && (succ == at || succ.Dominates(at)) {
			return true
		}
	}
	return false
}

// clockDerived: the duration is computed at run time from the clock (time.Until, time.Since, a difference of times) or may
// be a constant that is not positive (a clamp at zero): its sign is not settled by the configuration.
func clockDerived(v ssa.Value, depth int) bool {
	if depth > 8 {
		return false
	}
	switch x := v.(type) {
	case *ssa.Const:
		return x.Value != nil && x.Int64() <= 0
	case *ssa.Convert:
		return clockDerived(x.X, depth+1)
	case *ssa.ChangeType:
		return clockDerived(x.X, depth+1)
	case *ssa.BinOp:
		if x.Op == token.SUB {
			// a difference is only as positive as its operands allow: left to the guard unless both are configuration
			if _, isConst := x.Y.(*ssa.Const); !isConst {
				return true
			}
		}
		return clockDerived(x.X, depth+1) || clockDerived(x.Y, depth+1)
	case *ssa.Phi:
		for _, e := range x.Edges {
			if e != v && clockDerived(e, depth+1) {
				return true
			}
		}
	case *ssa.UnOp:
		if a, ok := x.X.(*ssa.Alloc); ok && x.Op == token.MUL {
			for _, ref := range *a.Referrers() {
				if st, ok := ref.(*ssa.Store); ok && st.Addr == a && clockDerived(st.Val, depth+1) {
					return true
				}
			}
		}
	case *ssa.Call:
		switch ssaCallName(&x.Call) {
		case "time.Until", "time.Since", "(time.Time).Sub":
			return true
		}
		for _, a := range x.Call.Args {
			if clockDerived(a, depth+1) {
				return true
			}
		}
	}
	return false
}

// ruleTickerDurationsPositive: time.NewTicker, (*Ticker).Reset and time.Tick panic on a duration that is not positive.
// In the polling and serving loops the duration is the configured interval (checked where Main passes it) or a positive
// constant; a duration computed at run time (time.Until, a difference, a clamp at zero) must be under a `> 0` test —
// otherwise a slow peer decides whether the loop's goroutine, and the process, survive.
func ruleTickerDurationsPositive(w *World, r *Run, rule string) {
	n, bad := 0, 0
	for _, fn := range w.prodFns() {
		for _, b := range fn.Blocks {
			for _, in := range b.Instrs {
				c, ok := in.(ssa.CallInstruction)
				if !ok {
					continue
				}
				idx := -1
				name := ssaCallName(c.Common())
				switch name {
				case "time.NewTicker", "time.Tick":
					idx = 0
				case "(*time.Ticker).Reset":
					idx = 1
				}
				if idx < 0 || idx >= len(c.Common().Args) {
					continue
				}
				n++
				if !clockDerived(c.Common().Args[idx], 0) || positiveAt(c.Common().Args[idx], b, 0) {
					continue
				}
				bad++
				r.Fail(rule, funcNameOrSSA(outermost(fn))+" | ticker durations are positive", w.pos(in.Pos()), name+" is given a duration computed at run time that no dominating test shows to be positive (zero counts: the call panics on d <= 0). What the duration is depends on how long a peer took to answer, so a slow or failing log server ends the loop's goroutine with a panic, and the process with it")
			}
		}
	}
	r.sites += n
	if n == 0 {
		r.Undecided(rule, "module | tickers", "", "no ticker found: the polling loops are expected to use one")
		return
	}
	if bad == 0 {
		r.Pass(rule, fmt.Sprintf("module | ticker durations are positive (%d sites)", n), "", "")
	}
}

func reaches(from, to *ssa.BasicBlock) bool {
	seen := map[*ssa.BasicBlock]bool{}
	var dfs func(b *ssa.BasicBlock) bool
	dfs = func(b *ssa.BasicBlock) bool {
		for _, s := range b.Succs {
			if s == to {
				return true
			}
			if !seen[s] {
				seen[s] = true
				if dfs(s) {
					return true
				}
			}
		}
		return false
	}
	return dfs(from)
}

// ruleDecodeTargetFresh: a decoder (yaml, json) called in a loop does not fill a variable that lives across the
// iterations: decoders assign only the keys that are present, so whatever an entry omits keeps the previous entry's value —
// a log entry without a key line would be configured with its neighbour's key instead of being refused.
func ruleDecodeTargetFresh(w *World, r *Run, rule string) {
	n, bad := 0, 0
	for _, fn := range w.prodFns() {
		for _, b := range fn.Blocks {
			for _, in := range b.Instrs {
				c, ok := in.(ssa.CallInstruction)
				if !ok {
					continue
				}
				idx := -1
				name := ssaCallName(c.Common())
				switch name {
				case "encoding/json.Unmarshal", "gopkg.in/yaml.v3.Unmarshal", "(*encoding/json.Decoder).Decode", "(*gopkg.in/yaml.v3.Decoder).Decode", "(*gopkg.in/yaml.v3.Node).Decode":
					idx = 1
				}
				if idx < 0 || idx >= len(c.Common().Args) {
					continue
				}
				n++
				if !reaches(b, b) {
					continue // not in a loop
				}
				arg := c.Common().Args[idx]
				if mi, ok := arg.(*ssa.MakeInterface); ok {
					arg = mi.X
				}
				for {
					if fa, ok := arg.(*ssa.FieldAddr); ok {
						arg = fa.X
						continue
					}
					break
				}
				al, ok := arg.(*ssa.Alloc)
				if !ok {
					continue
				}
				ab := al.Block()
				if ab == b || (reaches(b, ab) && reaches(ab, b)) {
					continue // allocated anew in every iteration
				}
				// reset at the top of each iteration (x = T{}): a store of a zero value inside the loop that comes before the call
				reset := false
				for _, rb := range fn.Blocks {
					if !(rb == b || (reaches(b, rb) && reaches(rb, b))) {
						continue
					}
					for _, ri := range rb.Instrs {
						if st, ok := ri.(*ssa.Store); ok && st.Addr == al {
							if k, ok := st.Val.(*ssa.Const); ok && k.Value == nil && (rb != b || instrIndex(b, ri) < instrIndex(b, in)) && (rb == b || rb.Dominates(b)) {
								reset = true
							}
						}
					}
				}
				if reset {
					continue
				}
				bad++
				r.Fail(rule, funcNameOrSSA(outermost(fn))+" | every decoded entry starts from an empty value", w.pos(in.Pos()), name+" fills a variable declared outside the loop it is called in: the decoder assigns only the keys an entry has, so a key the entry omits keeps the value of the previous entry (a log without a PublicKey line is configured with the previous log's key instead of being refused at start-up)")
			}
		}
	}
	r.sites += n
	if n == 0 {
		r.Undecided(rule, "module | decoders", "", "no yaml/json decode call found")
		return
	}
	if bad == 0 {
		r.Pass(rule, fmt.Sprintf("module | every decoded entry starts from an empty value (%d decode sites)", n), "", "")
	}
}

// ruleShippedSumDBURL: the SumDB client asks the fetcher for "/latest", "/lookup/…" and "/tile/…" (the leading slash is
// part of every path it builds: see the tile templates of C18.a) and the fetcher sends <base URL><path> (C18.i). The URL
// shipped for a log followed with the sumdb feeder therefore must not end in '/': the requests would go to //tile/… ,
// which is not the path the reference implementation assigns to the tile.
func ruleShippedSumDBURL(w *World, r *Run, rule string) {
	if w.tilePathSlash[true]+w.tilePathSlash[false] == 0 {
		r.Undecided(rule, "SumDB tile path templates", "", "no tile path template was recognised (C18.a runs first)")
		return
	}
	if w.tilePathSlash[true] > 0 && w.tilePathSlash[false] > 0 {
		r.Fail(rule, "SumDB tile path templates | one joining convention", "", "some tile paths start with '/' and some do not: no base URL can be right for both")
		return
	}
	lead := w.tilePathSlash[true] > 0
	li := w.lookup(pOmni, "LogInfo")
	if li == nil {
		r.Undecided(rule, "omniwitness.LogInfo", "", "type not found")
		return
	}
	keys := map[string]string{}
	st := li.Type().Underlying().(*types.Struct)
	for i := 0; i < st.NumFields(); i++ {
		tag := strings.Split(reflect.StructTag(st.Tag(i)).Get("yaml"), ",")[0]
		if tag == "" {
			tag = strings.ToLower(st.Field(i).Name())
		}
		keys[st.Field(i).Name()] = tag
	}
	reg := feederRegistry(w)
	dir := filepath.Join(w.repo, "omniwitness")
	emb, err := embedTargets(dir)
	if err != nil || emb["ConfigLogs"] == "" {
		r.Undecided(rule, "omniwitness.ConfigLogs | go:embed", "", "the shipped configuration was not found")
		return
	}
	path := filepath.Join(dir, emb["ConfigLogs"])
	data, ok := w.overlay[path]
	if !ok {
		if data, err = os.ReadFile(path); err != nil {
			r.Undecided(rule, "omniwitness/"+emb["ConfigLogs"], "", err.Error())
			return
		}
	}
	var doc struct {
		Logs []map[string]yaml.Node `yaml:"Logs"`
	}
	if err := yaml.Unmarshal(data, &doc); err != nil {
		r.Undecided(rule, "omniwitness/"+emb["ConfigLogs"], "", err.Error())
		return
	}
	n := 0
	for _, e := range doc.Logs {
		fd := strings.TrimSpace(strings.ToLower(e[keys["Feeder"]].Value))
		if reg.consts[reg.byName[fd]] != "SumDB" {
			continue
		}
		n++
		un := e[keys["URL"]]
		u := un.Value
		good := strings.HasSuffix(u, "/") != lead
		why := "ends in '/' while every path the SumDB client requests starts with one: the shipped witness asks for " + u + "/latest and " + u + "/tile/8/…, a different path from the one tlog assigns (an exact-match origin answers 404, and no proof is ever built)"
		if !lead {
			why = "does not end in '/' while the SumDB client's paths do not start with one: base URL and path run together"
		}
		r.Check(good, rule, fmt.Sprintf("omniwitness/%s entry %q | base URL and the client's paths join into the reference path", emb["ConfigLogs"], e[keys["Origin"]].Value), fmt.Sprintf("omniwitness/%s:%d", emb["ConfigLogs"], un.Line), "the URL "+u+" "+why)
	}
	if n == 0 {
		r.Pass(rule, "omniwitness/"+emb["ConfigLogs"]+" | no log is followed with the sumdb feeder", "", "")
	}
}

package main

// Rules added after the ninth round of seeded changes (the bug that arrives with a feature).

import (
	"fmt"
	"go/token"
	"go/types"
	"strings"

	"golang.org/x/tools/go/ssa"
)

// ruleCosignatureNotReleasedBeforeStored: on every path of Update, a cosignature made by this invocation is handed to nothing
// but the store (and the witness's own re-opening check) unless the path committed it: a subscriber hook, a channel, a
// callback that receives the signed bytes on the path where Set failed releases a witness signature over a checkpoint that
// was refused.
func ruleCosignatureNotReleasedBeforeStored(w *World, r *Run, a *updAnalysis, rule string) {
	if !a.guard(r, rule) {
		return
	}
	bad := false
	for _, v := range a.paths {
		s := v.s
		for _, sg := range v.signs {
			signed := res(sg, 0)
			stored := false
			for _, st := range v.sets {
				if len(st.Args) > 0 && st.Args[0] == signed && !failed(s, st) {
					stored = true
				}
			}
			if stored {
				continue
			}
			for _, ev := range s.Events {
				if ev.Seq <= sg.Seq || (ev.Kind != "call" && ev.Kind != "send" && ev.Kind != "go") {
					continue
				}
				switch {
				case ev.Callee == cSet, ev.Callee == cParse, ev.Callee == cOpen, ev.Callee == cSign, strings.HasPrefix(ev.Callee, "k8s.io/klog"), strings.HasPrefix(ev.Callee, "fmt."), strings.HasPrefix(ev.Callee, "bytes."), strings.HasPrefix(ev.Callee, "builtin:"):
					continue
				}
				hands := false
				// the bytes themselves, directly or inside a value built around them — not a value computed by a call that merely
				// received them (the error of the failed Set)
				var carries func(x *Term, depth int) bool
				carries = func(x *Term, depth int) bool {
					if x == nil || depth > 6 {
						return false
					}
					if x == signed {
						return true
					}
					switch x.Kind {
					case "varargs", "structval", "fieldval", "conv", "slice", "append", "makeiface", "iface":
						for _, y := range x.Args {
							if carries(y, depth+1) {
								return true
							}
						}
					}
					return false
				}
				for _, x := range ev.Args {
					if carries(x, 0) {
						hands = true
					}
				}
				if !hands {
					continue
				}
				bad = true
				r.Fail(rule, a.key(v, "a cosignature leaves Update only once it is stored"), w.pos(ev.Pos), "the bytes signed in this call are handed to "+short(ev.Callee)+" on a path where they were not stored (Set failed or was not reached): a witness signature over a checkpoint that was refused is released")
			}
		}
	}
	if !bad {
		r.Pass(rule, fnUpdate+" | a cosignature leaves Update only once it is stored", "", "")
	}
}

// ruleParseBodyRefusesOnlyForm: the body parser refuses a request only because of its form — a read that failed, a line that
// does not parse — never because of a relation between the values it has parsed: which rule of the protocol answers a
// well-formed request is the witness's business (first matching rule), and a verdict pronounced by the parser comes before
// "unknown log", "no valid signature" and "stale".
func ruleParseBodyRefusesOnlyForm(w *World, r *Run, rule string) {
	sums, _, ok := explore(w, r, rule, fnParseBody, 4, 2)
	if !ok {
		return
	}
	n, bad := 0, 0
	for _, s := range sums {
		if s.Trunc != "" || s.Panic || len(s.Rets) == 0 {
			continue
		}
		errT := s.Rets[len(s.Rets)-1]
		if errT == nil || errT.Kind == "nil" {
			continue
		}
		n++
		// the last branch taken before the refusal: a failed call, a prefix/shape test on bytes read, an end of input
		var last *Fact
		for i := range s.Facts {
			last = &s.Facts[i]
		}
		if last == nil {
			continue
		}
		// a test on a value the parser has extracted (the old size as a number, the number of proof hashes collected so far)
		// is a test on the content; everything else the parser branches on is form: errors and found-flags of calls, the
		// blank separator, prefixes
		formal := true
		isInt := func(t types.Type) bool {
			if t == nil {
				return false
			}
			b, ok := t.Underlying().(*types.Basic)
			return ok && b.Info()&types.IsInteger != 0
		}
		anySub(last.T, func(x *Term) bool {
			switch {
			case x.Kind == "call" && strings.HasPrefix(x.Name, "strconv.") && isInt(x.Typ):
				formal = false
			case x.Kind == "out" && isInt(x.Typ):
				formal = false
			case x.Kind == "len" && len(x.Args) == 1 && x.Args[0] != nil && (x.Args[0].Kind == "append" || x.Args[0].Kind == "alloc"):
				formal = false
			}
			return false
		})
		if formal {
			continue
		}
		bad++
		r.Fail(rule, fnParseBody+" | refusals are about the form of the body only", w.pos(s.RetPos), "the parser refuses on "+short(last.T.String())+", a relation between values it has parsed, not a defect of form: a well-formed request is answered 400 before the witness has applied the first matching rule (unknown log, no valid signature, stale old size all come first)")
	}
	if n == 0 {
		r.Undecided(rule, fnParseBody, "", "no refusing path found")
		return
	}
	if bad == 0 {
		r.Pass(rule, fnParseBody+" | refusals are about the form of the body only", "", "")
	}
}

// viewRoot: v is a view into memory this function does not own outright: a field of a structure it was given, a
// parameter, or a part of another slice produced by bytes.Cut/Split/Fields/Trim*.
func viewRoot(v ssa.Value, depth int) (string, bool) {
	if depth > 6 {
		return "", false
	}
	switch x := v.(type) {
	case *ssa.Parameter:
		return "parameter " + x.Name(), true
	case *ssa.UnOp:
		if x.Op == token.MUL {
			if fa, ok := x.X.(*ssa.FieldAddr); ok {
				if _, local := fa.X.(*ssa.Alloc); !local {
					return "field " + fieldOfAddr(fa).Name(), true
				}
			}
		}
	case *ssa.Extract:
		return viewRoot(x.Tuple, depth+1)
	case *ssa.Call:
		switch ssaCallName(&x.Call) {
		case "bytes.Cut", "bytes.CutPrefix", "bytes.CutSuffix", "bytes.Split", "bytes.SplitN", "bytes.Fields", "bytes.TrimSpace", "bytes.TrimRight", "bytes.TrimLeft", "bytes.Trim", "bytes.TrimSuffix", "bytes.TrimPrefix":
			return "a part of another slice (" + ssaCallName(&x.Call) + ")", true
		}
	case *ssa.Slice:
		return viewRoot(x.X, depth+1)
	case *ssa.Phi:
		for _, e := range x.Edges {
			if e != v {
				if why, ok := viewRoot(e, depth+1); ok {
					return why, true
				}
			}
		}
	case *ssa.IndexAddr:
		return viewRoot(x.X, depth+1)
	}
	return "", false
}

// ruleNoAppendOntoSharedPrefix: append(x[:k], …) writes into x's backing array from position k on. When x is not a buffer
// the function made for itself — a field of the witness or of a configuration structure, a parameter, a part of a larger
// slice — the bytes or elements overwritten belong to someone else: the checkpoint that is about to be returned, the
// witness's list of signers.
func ruleNoAppendOntoSharedPrefix(w *World, r *Run, rule string) {
	n, bad := 0, 0
	for _, fn := range w.prodFns() {
		for _, b := range fn.Blocks {
			for _, in := range b.Instrs {
				c, ok := in.(*ssa.Call)
				if !ok {
					continue
				}
				bi, ok := c.Call.Value.(*ssa.Builtin)
				if !ok || bi.Name() != "append" || len(c.Call.Args) < 2 {
					continue
				}
				n++
				sl, ok := c.Call.Args[0].(*ssa.Slice)
				if !ok {
					// the accumulator of a loop that starts from x[:k] (signers := w.Signers[:0]; for … { signers = append(signers, s) })
					if phi, isPhi := c.Call.Args[0].(*ssa.Phi); isPhi {
						for _, e := range phi.Edges {
							if s2, isSl := e.(*ssa.Slice); isSl {
								sl, ok = s2, true
							}
						}
					}
				}
				if !ok || sl.High == nil {
					continue
				}
				why, shared := viewRoot(sl.X, 0)
				if !shared {
					continue
				}
				bad++
				r.Fail(rule, funcNameOrSSA(outermost(fn))+" | no append onto a prefix of memory the function does not own", w.pos(c.Pos()), "append(x[:k], …) with x "+why+": the elements from k on are overwritten in place in x's backing array, which is still in use elsewhere (the bytes about to be returned or submitted, the witness's own list)")
			}
		}
	}
	r.sites += n
	if bad == 0 {
		r.Pass(rule, "module | no append onto a prefix of memory the function does not own", "", "")
	}
}

// ruleFetchersKeepNoState: the functions a feeder hands to feeder.Run as FetchCheckpoint / FetchProof, and the fetcher
// functions they are built from, assign no variable that outlives the call (a captured variable of an enclosing function):
// what a fetcher remembers about an earlier download (a validator, "already seen") is committed before the witness has
// accepted anything, and one failed submission later the log is never looked at again.
func ruleFetchersKeepNoState(w *World, r *Run, rule string) {
	n, bad := 0, 0
	for _, fn := range w.prodFns() {
		if fn.Parent() == nil || !strings.HasPrefix(pkgPathOf(fn), modPath+"/internal/feeder/") || strings.HasPrefix(pkgPathOf(fn), pBastion) {
			continue
		}
		// closures that are returned or stored (fetch functions), not goroutine or Once bodies run in place
		escapes := false
		par := fn.Parent()
		for _, b := range par.Blocks {
			for _, in := range b.Instrs {
				mc, ok := in.(*ssa.MakeClosure)
				if !ok || mc.Fn != fn || mc.Referrers() == nil {
					continue
				}
				for _, ref := range *mc.Referrers() {
					switch x := ref.(type) {
					case *ssa.Return, *ssa.Store, *ssa.MakeInterface, *ssa.ChangeType:
						escapes = true
					case *ssa.Call:
						if x.Call.Value != mc { // passed as an argument
							if sc := x.Call.StaticCallee(); sc == nil || !strings.Contains(funcName(sc), "errgroup") && !strings.Contains(funcName(sc), "sync.Once") {
								escapes = true
							}
						}
					}
				}
			}
		}
		if !escapes {
			continue
		}
		n++
		for _, b := range fn.Blocks {
			for _, in := range b.Instrs {
				st, ok := in.(*ssa.Store)
				if !ok {
					continue
				}
				fv, ok := st.Addr.(*ssa.FreeVar)
				if !ok {
					continue
				}
				// an error or result variable of the enclosing call that the closure reports through is not state of the fetcher:
				// only variables of plain data type that the same closure also reads
				if isErrorType(fv.Type().Underlying().(*types.Pointer).Elem()) {
					continue
				}
				reads := false
				if fv.Referrers() != nil {
					for _, ref := range *fv.Referrers() {
						if u, ok := ref.(*ssa.UnOp); ok && u.Op == token.MUL {
							reads = true
						}
					}
				}
				if !reads {
					continue
				}
				bad++
				r.Fail(rule, funcNameOrSSA(outermost(fn))+" | fetch functions keep nothing between polls", w.pos(st.Pos()), fmt.Sprintf("the fetch function assigns and reads the captured variable %s: state remembered from one download to the next (a validator, a cursor) is committed before the witness has accepted the checkpoint, so after one failed submission the feeder can decide there is nothing new for good", fv.Name()))
			}
		}
	}
	r.sites += n
	if n == 0 {
		r.Undecided(rule, "feeder fetch functions", "", "no escaping closure found in the feeder packages")
		return
	}
	if bad == 0 {
		r.Pass(rule, fmt.Sprintf("feeders | fetch functions keep nothing between polls (%d closures)", n), "", "")
	}
}

// ruleFeedFuncOnlyForPolledLogs: Feeder.FeedFunc panics for None (and unknown values). Every call is therefore under a
// test that the feeder is not None — directly, or through a helper whose every result is that test.
func ruleFeedFuncOnlyForPolledLogs(w *World, r *Run, rule string) {
	n, bad := 0, 0
	target := "(" + pOmni + ".Feeder).FeedFunc"
	isNoneTest := func(cond ssa.Value, f ssa.Value) (side int, ok bool) {
		bo, isBin := cond.(*ssa.BinOp)
		if !isBin || (bo.Op != token.NEQ && bo.Op != token.EQL) {
			return 0, false
		}
		var k *ssa.Const
		switch {
		case sameRead(bo.X, f, 0):
			k, _ = bo.Y.(*ssa.Const)
		case sameRead(bo.Y, f, 0):
			k, _ = bo.X.(*ssa.Const)
		}
		if k == nil || k.Value == nil {
			return 0, false
		}
		none := w.lookup(pOmni, "None")
		nc, _ := none.(*types.Const)
		if nc == nil || nc.Val().ExactString() != k.Value.ExactString() {
			return 0, false
		}
		if bo.Op == token.NEQ {
			return 0, true
		}
		return 1, true
	}
	for _, fn := range w.prodFns() {
		if fn.Synthetic != "" {
			continue // promotion/pointer wrappers of FeedFunc itself
		}
		for _, b := range fn.Blocks {
			for _, in := range b.Instrs {
				c, ok := in.(ssa.CallInstruction)
				if !ok || ssaCallName(c.Common()) != target || len(c.Common().Args) == 0 {
					continue
				}
				n++
				f := c.Common().Args[0]
				guarded := false
				for _, gb := range fn.Blocks {
					if len(gb.Instrs) == 0 {
						continue
					}
					iff, ok := gb.Instrs[len(gb.Instrs)-1].(*ssa.If)
					if !ok {
						continue
					}
					if side, ok := isNoneTest(iff.Cond, f); ok {
						succ := gb.Succs[side]
						if len(succ.Preds) == 1 && (succ == b || succ.Dominates(b)) {
							guarded = true
						}
					}
				}
				if !guarded {
					// the feeders are selected where they are registered (a table filled in one loop, fed from in another): a test
					// against None in the enclosing function whose guarded region registers something (a map update, an append)
					var scan func(g *ssa.Function)
					scan = func(g *ssa.Function) {
						for _, gb := range g.Blocks {
							if len(gb.Instrs) == 0 {
								continue
							}
							iff, ok := gb.Instrs[len(gb.Instrs)-1].(*ssa.If)
							if !ok {
								continue
							}
							bo, ok := iff.Cond.(*ssa.BinOp)
							if !ok {
								continue
							}
							var fv ssa.Value
							if strings.HasSuffix(typeStr(bo.X.Type()), "omniwitness.Feeder") {
								fv = bo.X
							}
							if _, isConst := bo.X.(*ssa.Const); isConst && strings.HasSuffix(typeStr(bo.Y.Type()), "omniwitness.Feeder") {
								fv = bo.Y
							}
							if fv == nil {
								continue
							}
							side, ok := isNoneTest(iff.Cond, fv)
							if !ok {
								continue
							}
							succ := gb.Succs[side]
							for _, rb := range g.Blocks {
								if !(rb == succ || succ.Dominates(rb)) || len(succ.Preds) != 1 {
									continue
								}
								for _, ri := range rb.Instrs {
									switch x := ri.(type) {
									case *ssa.MapUpdate:
										guarded = true
									case *ssa.Call:
										if bi, ok := x.Call.Value.(*ssa.Builtin); ok && bi.Name() == "append" {
											guarded = true
										}
									}
								}
							}
						}
						for _, a := range g.AnonFuncs {
							scan(a)
						}
					}
					scan(outermost(fn))
					// … or in another function of the same package (the table is filled by a helper)
					if !guarded {
						for _, of := range w.prodFns() {
							if of.Parent() == nil && pkgPathOf(of) == pkgPathOf(fn) && of != outermost(fn) {
								scan(of)
							}
						}
					}
				}
				if guarded {
					continue
				}
				bad++
				r.Fail(rule, funcNameOrSSA(outermost(fn))+" | FeedFunc only for feeders other than None", w.pos(in.Pos()), "Feeder.FeedFunc is called where no test `feeder != None` dominates the call: FeedFunc panics for None, and the shipped configuration contains an entry without a feeder, so a selection that lets it through takes the process down at start-up")
			}
		}
	}
	r.sites += n
	if n == 0 {
		r.Undecided(rule, target, "", "no call found")
		return
	}
	if bad == 0 {
		r.Pass(rule, fmt.Sprintf("module | FeedFunc only for feeders other than None (%d sites)", n), "", "")
	}
}

// ruleFetchFailsOnlyOnTransport: an implementation of the client's fetch methods fails only because the exchange failed —
// building or sending the request, the status, reading the body. A failure decided locally (a request budget, a circuit
// breaker) makes a proof that needs more requests than the budget allows impossible to build, however healthy the log.
func ruleFetchFailsOnlyOnTransport(w *World, r *Run, rule string) {
	n, bad := 0, 0
	for _, name := range fetchMethods(w) {
		mi := strings.LastIndex(name, ").")
		if mi < 0 {
			continue
		}
		tn := name[strings.LastIndex(name[:mi], ".")+1 : mi]
		m := ifaceMethod(w, pClient, tn, name[mi+2:])
		if m == nil {
			continue
		}
		for _, f := range w.implementations(m) {
			if !w.isProd(f) || f.Synthetic != "" || pkgPathOf(f) != pClient {
				continue
			}
			e := w.engine(4, 1)
			for _, s := range e.Explore(f) {
				if s.Trunc != "" || s.Panic || len(s.Rets) != 2 || s.Rets[1] == nil || s.Rets[1].Kind == "nil" {
					continue
				}
				// an error handed on from a call as it is (return f(path)) is that call's failure
				if !neverNil(s.Rets[1]) && s.Rets[1].Kind == "call" {
					continue
				}
				n++
				// the branch that led to this return: a call that failed, or a test of the status
				cause := false
				if len(s.Facts) > 0 {
					last := s.Facts[len(s.Facts)-1]
					anySub(last.T, func(x *Term) bool {
						if x.Kind == "field" && x.Name == "StatusCode" {
							cause = true
						}
						if x.Kind == "call" && isErrorType(x.Typ) {
							cause = true
						}
						return false
					})
					// a cap on the size of what was read is about the exchange too (an oversized answer)
					if t := last.T; t.Kind == "binop" && t.Name == "<" && len(t.Args) == 2 {
						for i := 0; i < 2; i++ {
							if _, isConst := constVal(t.Args[i]); isConst && t.Args[1-i].Kind == "len" {
								cause = true
							}
						}
					}
				}
				if cause {
					continue
				}
				bad++
				why := ""
				if len(s.Facts) > 0 {
					why = short(s.Facts[len(s.Facts)-1].T.String())
				}
				r.Fail(rule, funcName(f)+" | a fetch fails only when the exchange failed", w.pos(s.RetPos), "the fetch returns an error on a path where no request failed and no status was examined (last test: "+why+"): a locally decided refusal — a request budget checked with Allow, a breaker — fails every proof that needs more requests than it lets through, however healthy the log")
			}
		}
	}
	if n == 0 {
		r.Undecided(rule, "client fetch methods", "", "no failing path found")
		return
	}
	if bad == 0 {
		r.Pass(rule, "client | a fetch fails only when the exchange failed", "", "")
	}
}

// ruleDoublingLoopsTerminate: a loop `for p := c; p < n; p <<= k` (or p *= c) over an unsigned p ends only if p can pass n
// before it wraps: for n above half the type's range p wraps to 0 and the loop never ends — no context or time-out looks
// into it. n must be a constant or be bounded by a dominating comparison with a constant.
func ruleDoublingLoopsTerminate(w *World, r *Run, rule string) {
	n, bad := 0, 0
	for _, fn := range w.prodFns() {
		for _, b := range fn.Blocks {
			for _, in := range b.Instrs {
				phi, ok := in.(*ssa.Phi)
				if !ok {
					continue
				}
				bt, ok := phi.Type().Underlying().(*types.Basic)
				if !ok || bt.Info()&types.IsUnsigned == 0 {
					continue
				}
				grows := false
				for _, e := range phi.Edges {
					if bo, ok := e.(*ssa.BinOp); ok && (bo.Op == token.SHL || bo.Op == token.MUL) && bo.X == phi {
						if _, isConst := bo.Y.(*ssa.Const); isConst {
							grows = true
						}
					}
				}
				if !grows || phi.Referrers() == nil {
					continue
				}
				for _, ref := range *phi.Referrers() {
					bo, ok := ref.(*ssa.BinOp)
					if !ok || (bo.Op != token.LSS && bo.Op != token.LEQ) || bo.X != phi || bo.Block() != b {
						continue
					}
					isCond := false
					if bo.Referrers() != nil {
						for _, rr := range *bo.Referrers() {
							if _, ok := rr.(*ssa.If); ok {
								isCond = true
							}
						}
					}
					if !isCond {
						continue
					}
					n++
					limit := bo.Y
					if _, isConst := limit.(*ssa.Const); isConst {
						continue
					}
					// bounded by a dominating comparison with a constant?
					bounded := false
					for _, gb := range fn.Blocks {
						if len(gb.Instrs) == 0 || !gb.Dominates(b) {
							continue
						}
						if iff, ok := gb.Instrs[len(gb.Instrs)-1].(*ssa.If); ok {
							if c, ok := iff.Cond.(*ssa.BinOp); ok && (c.X == limit || c.Y == limit) {
								if _, k1 := c.X.(*ssa.Const); k1 {
									bounded = true
								}
								if _, k2 := c.Y.(*ssa.Const); k2 {
									bounded = true
								}
							}
						}
					}
					if bounded {
						continue
					}
					bad++
					r.Fail(rule, funcNameOrSSA(outermost(fn))+" | doubling loops end for every limit", w.pos(bo.Pos()), "the loop multiplies an unsigned counter until it passes a limit that nothing bounds: for a limit above half the type's range the counter wraps to 0 first and the loop never ends (a checkpoint size above 2^63, validly signed by the log, hangs the goroutine beyond every time-out)")
				}
			}
		}
	}
	r.sites += n
	if bad == 0 {
		r.Pass(rule, "module | doubling loops end for every limit", "", "")
	}
}

package main

// Devirtualised composition: Update and GetCheckpoint explored with the witness's persistence bound to each
// concrete store, so that the storage discipline is checked end to end on the composed paths
// (independent of how a store's handle carries its state: closure, method value or fields).

import (
	"fmt"
	"go/types"
	"strings"

	"golang.org/x/tools/go/ssa"
)

type composed struct {
	store  string // "inmemory" | "sql"
	preset *Term
	sums   []Summary
	eng    *Engine
	fn     *ssa.Function
	logID  *Term
	recv   *Term
}

var composedCache = map[string]*composed{}

func presetFor(w *World, store string) (*Term, bool) {
	var obj types.Object
	switch store {
	case "inmemory":
		obj = w.lookup(pInmem, "inMemoryPersistence")
	case "sql":
		obj = w.lookup(pSQL, "sqlLogPersistence")
	}
	if obj == nil {
		return nil, false
	}
	return mk("preset", store, 0, types.NewPointer(obj.Type())), true
}

// compose explores root (a method of *Witness) with w.lsp bound to the given store; opaque names stay events.
func compose(w *World, r *Run, rule, root, store string, opaque ...string) (*composed, bool) {
	key := fmt.Sprintf("%p|%s|%s|%v", w, root, store, opaque)
	if c, ok := composedCache[key]; ok {
		r.Analysed(root+" ∘ "+store, len(c.sums))
		return c, true
	}
	fn := w.fn(root)
	if fn == nil {
		r.Undecided(rule, root, "", "anchor not found")
		return nil, false
	}
	preset, ok := presetFor(w, store)
	if !ok {
		r.Undecided(rule, store+" persistence type", "", "not found")
		return nil, false
	}
	e := w.engine(8, 1)
	for _, o := range opaque {
		e.opaque[o] = true
	}
	recv := recvParam(fn)
	e.bind = map[string]*Term{fieldByType(recv, "persistence.LogStatePersistence").key: preset}
	sums := e.Explore(fn)
	for _, s := range sums {
		if s.Trunc != "" {
			r.Undecided(rule, root+" ∘ "+store, "", "path enumeration truncated: "+s.Trunc)
			return nil, false
		}
	}
	if len(sums) == 0 {
		r.Undecided(rule, root+" ∘ "+store, "", "no path")
		return nil, false
	}
	c := &composed{store: store, preset: preset, sums: sums, eng: e, fn: fn, recv: recv}
	c.logID, _ = paramByType(fn, "string")
	composedCache[key] = c
	r.Analysed(root+" ∘ "+store, len(sums))
	return c, true
}

// casPrimitive finds the unique production function of the in-memory store that writes the checkpoint map.
func casPrimitive(w *World) *ssa.Function {
	ck := w.structField(pInmem, "inMemoryPersistence", "checkpoints")
	var found *ssa.Function
	for _, fn := range w.prodFns() {
		if pkgPathOf(fn) != pInmem {
			continue
		}
		for _, b := range fn.Blocks {
			for _, in := range b.Instrs {
				if mu, ok := in.(*ssa.MapUpdate); ok {
					if mf, base := mapFieldOf(mu.Map); mf == ck && !baseIsLocalAlloc(base) {
						if found != nil && found != outermost(fn) {
							return nil
						}
						found = outermost(fn)
					}
				}
			}
		}
	}
	return found
}

// C05.d / C12.b on Update ∘ inmemory: the compare-and-set is asked with (the request's log ID, the snapshot taken when
// the write operation was opened for that same ID, the bytes given to Set).
func ruleComposedInMemory(w *World, r *Run, rule string) {
	cas := casPrimitive(w)
	if cas == nil {
		r.Undecided(rule, "in-memory compare-and-set primitive", "", "could not identify the unique function that writes the checkpoint map")
		return
	}
	casName := funcNameOrSSA(cas)
	c, ok := compose(w, r, rule, fnUpdate, "inmemory", casName)
	if !ok {
		return
	}
	ck := mk("field", "checkpoints", 0, nil, c.preset)
	nCas := 0
	for _, s := range c.sums {
		// every read of the map is keyed by the request's log ID
		for _, ev := range s.Events {
			if ev.Kind == "mapread" && ev.Recv == ck && len(ev.Args) == 1 {
				r.Check(ev.Args[0] == c.logID, rule, fnUpdate+" ∘ inmemory | map read keyed by the request's log ID", w.pos(ev.Pos), "the in-memory store reads entry "+short(ev.Args[0].String())+" while serving an update for another log ID")
			}
		}
		for _, ce := range calls(s, casName) {
			nCas++
			key := fnUpdate + " ∘ inmemory | compare-and-set(log ID of the request, snapshot taken at WriteOps, bytes given to Set)"
			// arguments by type: string key, pointer snapshot, struct new
			var keyT, oldT, newT *Term
			for _, a0 := range ce.Args {
				if a0 == nil || a0.Typ == nil {
					if a0 != nil && (a0.Kind == "nil" || a0.Kind == "zero") {
						oldT = a0
					}
					continue
				}
				switch a0.Typ.Underlying().(type) {
				case *types.Basic:
					keyT = a0
				case *types.Pointer:
					oldT = a0
				case *types.Struct:
					newT = a0
				}
			}
			good := ce.Recv == c.preset && keyT == c.logID
			// new state carries exactly the bytes Update handed to Set (the Sign output)
			if good {
				good = newT != nil && newT.Kind == "structval" && len(newT.Args) == 1 && newT.Args[0].Args[0].Kind == "call" && newT.Args[0].Args[0].Name == cSign
			}
			// expected: nil when the lookup at WriteOps missed, else a private copy of checkpoints[logID] taken then
			if good {
				kf, found, _ := boolFact(s, mk("lookup", "ok", 0, nil, ck, c.logID))
				switch {
				case !kf:
					good = false
				case found:
					snap := ce.Binds[keyOf(oldT)]
					good = oldT != nil && oldT.Kind == "alloc" && snap == mk("lookup", "val", 0, nil, ck, c.logID)
				default:
					good = oldT == nil || oldT.Kind == "nil" || oldT.Kind == "zero"
				}
			}
			r.Check(good, rule, key, w.pos(ce.Pos), "the compare-and-set is invoked with ("+short(fmt.Sprint(ce.Args))+"): its key must be the request's log ID, its expected value the snapshot read when the write operation was opened for that ID, its new value the bytes given to Set")
		}
	}
	if nCas == 0 {
		r.Undecided(rule, fnUpdate+" ∘ inmemory", "", "no compare-and-set reached on any composed path")
	}
	// read side
	if g, ok := compose(w, r, rule, fnGetCheckpoint, "inmemory"); ok {
		ck := mk("field", "checkpoints", 0, nil, g.preset)
		for _, s := range g.sums {
			for _, ev := range s.Events {
				if ev.Kind == "mapread" && ev.Recv == ck && len(ev.Args) == 1 {
					r.Check(ev.Args[0] == g.logID, rule, fnGetCheckpoint+" ∘ inmemory | map read keyed by the requested log ID", w.pos(ev.Pos), "GetCheckpoint reads entry "+short(ev.Args[0].String()))
				}
			}
			if len(s.Rets) == 2 && s.Rets[1].Kind == "nil" {
				good := anySub(s.Rets[0], func(t *Term) bool { return t == mk("lookup", "val", 0, nil, ck, g.logID) })
				r.Check(good, rule, fnGetCheckpoint+" ∘ inmemory | returns the bytes stored for the requested log ID", w.pos(s.RetPos), "GetCheckpoint returns "+short(s.Rets[0].String()))
			}
		}
	}
}

func keyOf(t *Term) string {
	if t == nil {
		return ""
	}
	return t.key
}

func sqlMethod(ev Event) (method string, onTx, onDB bool) {
	if ev.Kind != "call" {
		return "", false, false
	}
	for _, p := range []string{"(*database/sql.Tx).", "(*database/sql.DB)."} {
		if strings.HasPrefix(ev.Callee, p) {
			return strings.TrimPrefix(ev.Callee, p), p[15] == 'T', p[15] == 'D'
		}
	}
	return "", false, false
}

// C05.e / C06.a / C12.b on Update ∘ sql: one transaction per write operation; read, statement and commit on it, keyed by
// the request's log ID; exact order Begin → QueryRow → Exec → Commit → (return) → Rollback.
func ruleComposedSQL(w *World, r *Run, rule string) {
	c, ok := compose(w, r, rule, fnUpdate, "sql")
	if !ok {
		return
	}
	db := mk("field", "db", 0, nil, c.preset)
	nSucc := 0
	for _, s := range c.sums {
		var begin, query, exec, commit, rollback *Event
		nBegin := 0
		for i := range s.Events {
			ev := s.Events[i]
			m, onTx, onDB := sqlMethod(ev)
			switch {
			case onDB && (m == "Begin" || m == "BeginTx"):
				nBegin++
				begin = &s.Events[i]
				r.Check(ev.Recv == db, rule, fnUpdate+" ∘ sql | transaction begun on the store's own database", w.pos(ev.Pos), "Begin on "+short(fmt.Sprint(ev.Recv)))
			case onDB && m != "":
				r.Fail(rule, fnUpdate+" ∘ sql | nothing bypasses the transaction", w.pos(ev.Pos), "the update path uses the connection pool directly ("+m+") instead of its transaction: the read or write is not isolated from a concurrent writer")
			case onTx && strings.HasPrefix(m, "Query"):
				query = &s.Events[i]
			case onTx && strings.HasPrefix(m, "Exec"):
				exec = &s.Events[i]
			case onTx && m == "Commit":
				commit = &s.Events[i]
			case onTx && m == "Rollback":
				rollback = &s.Events[i]
			}
		}
		if begin == nil {
			continue
		}
		if nBegin != 1 {
			r.Fail(rule, fnUpdate+" ∘ sql | one transaction per update", w.pos(begin.Pos), fmt.Sprintf("%d transactions begun on one update path", nBegin))
			continue
		}
		tx := res(*begin, 0)
		if failed(s, *begin) {
			r.Check(query == nil && exec == nil && commit == nil, rule, fnUpdate+" ∘ sql | failed Begin leaves nothing behind", w.pos(begin.Pos), "statements run although Begin failed")
			continue
		}
		key := fnUpdate + " ∘ sql | read, statement and commit on the one transaction, keyed by the request's log ID"
		good := true
		why := ""
		for _, ev := range []*Event{query, exec, commit, rollback} {
			if ev != nil && ev.Recv != tx {
				good, why = false, short(ev.Callee)+" runs on "+short(fmt.Sprint(ev.Recv))+", not on the transaction begun for this update"
			}
		}
		if query != nil {
			va := query.Args[len(query.Args)-1]
			if !(va.Kind == "varargs" && len(va.Args) == 1 && va.Args[0] == c.logID) {
				good, why = false, "the stored checkpoint is read with key "+short(va.String())
			}
		}
		if exec != nil {
			va := exec.Args[len(exec.Args)-1]
			if !(va.Kind == "varargs" && len(va.Args) == 2 && va.Args[0] == c.logID && va.Args[1].Kind == "call" && va.Args[1].Name == cSign) {
				good, why = false, "the statement is executed with "+short(va.String())+", want (request's log ID, cosigned bytes)"
			}
			if query == nil || query.Seq > exec.Seq {
				good, why = false, "write without a preceding read in the same transaction"
			}
		}
		if commit != nil && (exec == nil || exec.Seq > commit.Seq || !okBefore(s, *exec, commit.Seq)) {
			good, why = false, "Commit without a successful statement before it"
		}
		// every path that began a transaction ends it: Rollback at exit (a no-op after Commit)
		if rollback == nil || !rollback.AtExit {
			good, why = false, "a path that began a transaction returns without rolling it back at exit (the single connection stays pinned)"
		}
		if len(s.Rets) == 2 && s.Rets[1].Kind == "nil" {
			nSucc++
			if commit == nil || !okBefore(s, *commit, 0) {
				good, why = false, "success reported without a successful Commit (acknowledged update not durable)"
			}
		} else if commit != nil && okBefore(s, *commit, 0) {
			good, why = false, "a refusal is reported although the transaction was committed"
		}
		r.Check(good, rule, key, w.pos(begin.Pos), why+"; path: "+pathString(c.eng, s))
	}
	if nSucc == 0 {
		r.Undecided(rule, fnUpdate+" ∘ sql", "", "no composed success path")
	}
	// read side: GetCheckpoint ∘ sql queries the pool with the requested log ID and never begins a transaction
	if g, ok := compose(w, r, rule, fnGetCheckpoint, "sql"); ok {
		dbg := mk("field", "db", 0, nil, g.preset)
		nq := 0
		for _, s := range g.sums {
			for _, ev := range s.Events {
				m, onTx, onDB := sqlMethod(ev)
				if onTx || (onDB && strings.HasPrefix(m, "Begin")) || strings.HasPrefix(m, "Exec") {
					r.Fail(rule, fnGetCheckpoint+" ∘ sql | read-only, no transaction", w.pos(ev.Pos), "GetCheckpoint uses "+short(ev.Callee))
				}
				if onDB && strings.HasPrefix(m, "Query") {
					nq++
					va := ev.Args[len(ev.Args)-1]
					good := ev.Recv == dbg && va.Kind == "varargs" && len(va.Args) == 1 && va.Args[0] == g.logID
					r.Check(good, rule, fnGetCheckpoint+" ∘ sql | query keyed by the requested log ID", w.pos(ev.Pos), "query arguments "+short(va.String()))
				}
			}
		}
		if nq == 0 {
			r.Undecided(rule, fnGetCheckpoint+" ∘ sql", "", "no query on the composed read path")
		}
	}
}

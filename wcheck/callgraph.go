package main

// Small call-graph helpers over the module's SSA (static callees, closures by lexical parent).

import (
	"go/types"
	"golang.org/x/tools/go/ssa"
)

type cgInfo struct {
	callers     map[*ssa.Function]map[*ssa.Function]bool // callee -> set of static callers
	usedAsValue map[*ssa.Function]bool                   // function value escapes (passed, stored, bound) other than as a direct callee
	onceFns     map[*ssa.Function]bool                   // functions handed to (*sync.Once).Do
	takers      map[*ssa.Function]map[*ssa.Function]bool // function -> functions in which it is turned into a value
}

var cgCache = map[*World]*cgInfo{}

func (w *World) callgraph() *cgInfo {
	if c, ok := cgCache[w]; ok {
		return c
	}
	c := &cgInfo{callers: map[*ssa.Function]map[*ssa.Function]bool{}, usedAsValue: map[*ssa.Function]bool{}, onceFns: map[*ssa.Function]bool{}}
	addCaller := func(callee, caller *ssa.Function) {
		if c.callers[callee] == nil {
			c.callers[callee] = map[*ssa.Function]bool{}
		}
		c.callers[callee][caller] = true
	}
	implCache := map[*types.Func][]*ssa.Function{}
	for _, fn := range w.modFns {
		for _, b := range fn.Blocks {
			for _, in := range b.Instrs {
				var cc *ssa.CallCommon
				if ci, ok := in.(ssa.CallInstruction); ok {
					cc = ci.Common()
					if cc.IsInvoke() {
						// class-hierarchy edges: every module implementation of the invoked interface method may be the callee
						impls, seen := implCache[cc.Method]
						if !seen {
							impls = w.implementations(cc.Method)
							implCache[cc.Method] = impls
						}
						for _, m := range impls {
							addCaller(m, fn)
						}
					}
					if sc := cc.StaticCallee(); sc != nil {
						addCaller(sc, fn)
						if funcName(sc) == "(*sync.Once).Do" {
							for _, a := range cc.Args {
								switch x := a.(type) {
								case *ssa.MakeClosure:
									c.onceFns[x.Fn.(*ssa.Function)] = true
								case *ssa.Function:
									c.onceFns[x] = true
								}
							}
						}
					}
				}
				for _, op := range in.Operands(nil) {
					var f *ssa.Function
					switch x := (*op).(type) {
					case *ssa.Function:
						f = x
					case *ssa.MakeClosure:
						f = x.Fn.(*ssa.Function)
					}
					if f == nil {
						continue
					}
					// direct callee position is not a value use
					if cc != nil && !cc.IsInvoke() && cc.Value == *op {
						if _, isClosure := (*op).(*ssa.MakeClosure); isClosure {
							addCaller(f, fn)
						}
						continue
					}
					if _, isMC := in.(*ssa.MakeClosure); isMC {
						continue // the MakeClosure instruction itself; its uses are what matter
					}
					c.usedAsValue[f] = true
					if c.takers == nil {
						c.takers = map[*ssa.Function]map[*ssa.Function]bool{}
					}
					if c.takers[f] == nil {
						c.takers[f] = map[*ssa.Function]bool{}
					}
					c.takers[f][fn] = true
				}
			}
		}
	}
	cgCache[w] = c
	return c
}

// onlyReachableFrom reports whether fn is root, or a non-escaping helper all of whose callers are (transitively) so.
// Closures count as part of their lexical parent.
func (w *World) onlyReachableFrom(fn *ssa.Function, roots map[*ssa.Function]bool) bool {
	c := w.callgraph()
	seen := map[*ssa.Function]bool{}
	var ok func(f *ssa.Function) bool
	ok = func(f *ssa.Function) bool {
		if roots[f] {
			return true
		}
		if seen[f] {
			return true // cycle among helpers: decided by the other members
		}
		seen[f] = true
		if f.Parent() != nil {
			return ok(f.Parent())
		}
		// a function turned into a value (method value, function reference) counts, like a closure, as part of the
		// functions that create the value
		for taker := range c.takers[f] {
			if !ok(taker) {
				return false
			}
		}
		cs := c.callers[f]
		if len(cs) == 0 && len(c.takers[f]) == 0 {
			return false
		}
		for caller := range cs {
			if !ok(caller) {
				return false
			}
		}
		return true
	}
	return ok(fn)
}

func (w *World) rootsOf(names ...string) map[*ssa.Function]bool {
	m := map[*ssa.Function]bool{}
	for _, n := range names {
		if f := w.fn(n); f != nil {
			m[f] = true
		}
	}
	return m
}

// inOnce: fn is (lexically inside) a function that is handed to sync.Once.Do and called from nowhere else.
func (w *World) inOnce(fn *ssa.Function) bool {
	c := w.callgraph()
	for f := fn; f != nil; f = f.Parent() {
		if c.onceFns[f] {
			if f.Parent() == nil && len(c.callers[f]) > 0 {
				return false // also called directly
			}
			return true
		}
	}
	return false
}

package main

import (
	"flag"
	"fmt"
	"os"
	"path/filepath"
	"runtime/pprof"
	"sort"
	"strconv"
	"strings"
	"time"

	"golang.org/x/tools/go/ssa"
)

type propDef struct {
	id  string
	run func(w *World, r *Run)
}

var props = map[string]func(w *World, r *Run){}

type multiFlag []string

func (m *multiFlag) String() string     { return strings.Join(*m, ",") }
func (m *multiFlag) Set(s string) error { *m = append(*m, s); return nil }

func main() {
	prop := flag.String("prop", "", "property id (C01..C20) or 'all'")
	tier := flag.String("tier", "quick", "quick|thorough")
	repo := flag.String("repo", "/repo", "repository root")
	verif := flag.String("verif", "", "verif dir (default: parent of the binary's directory, else cwd)")
	fnName := flag.String("fn", "", "debug: dump path summaries of functions whose ssa name contains this")
	depth := flag.Int("depth", 0, "inline depth override")
	loops := flag.Int("loops", 0, "loop bound override")
	verbose := flag.Bool("v", false, "verbose")
	explain := flag.String("explain", "", "print a report file")
	evdir := flag.String("evdir", "", "write evidence/report files here instead of <verif>/evidence (used when checking scratch variants)")
	noCanary := flag.Bool("nocanary", false, "do not add canary overlay")
	var opaques multiFlag
	flag.Var(&opaques, "opaque", "debug: canonical callee name kept opaque (repeatable)")
	var overlays multiFlag
	flag.Var(&overlays, "overlay", "repoRelativeFile=replacementFile (repeatable)")
	var subs multiFlag
	flag.Var(&subs, "sub", "repoRelativeFile::old::new textual overlay substitution (repeatable; self-test)")
	flag.Parse()
	if pf := os.Getenv("WCHECK_CPUPROFILE"); pf != "" {
		if f, err := os.Create(pf); err == nil {
			_ = pprof.StartCPUProfile(f)
			defer pprof.StopCPUProfile()
		}
	}

	if *explain != "" {
		b, err := os.ReadFile(*explain)
		if err != nil {
			fmt.Println(err)
			exitWith(2)
		}
		os.Stdout.Write(b)
		fmt.Println()
		return
	}
	vdir := *verif
	if vdir == "" {
		if exe, err := os.Executable(); err == nil {
			d := filepath.Dir(filepath.Dir(exe))
			if _, err := os.Stat(filepath.Join(d, "properties.jsonl")); err == nil {
				vdir = d
			}
		}
		if vdir == "" {
			vdir, _ = os.Getwd()
		}
	}
	if t := os.Getenv("VERIF_TIER"); t != "" && *tier == "" {
		*tier = t
	}
	seed := 0
	if s := os.Getenv("VERIF_SEED"); s != "" {
		seed, _ = strconv.Atoi(s)
	}
	ov := map[string][]byte{}
	for _, o := range overlays {
		parts := strings.SplitN(o, "=", 2)
		b, err := os.ReadFile(parts[1])
		if err != nil {
			fmt.Println(err)
			exitWith(2)
		}
		ov[filepath.Join(*repo, parts[0])] = b
	}
	for _, sb := range subs {
		parts := strings.SplitN(sb, "::", 3)
		if len(parts) != 3 {
			fmt.Println("bad -sub")
			exitWith(2)
		}
		p := filepath.Join(*repo, parts[0])
		src, ok := ov[p]
		if !ok {
			var err error
			src, err = os.ReadFile(p)
			if err != nil {
				fmt.Println(err)
				exitWith(2)
			}
		}
		if !strings.Contains(string(src), parts[1]) {
			fmt.Println("SUB-SITE-NOT-FOUND")
			exitWith(3)
		}
		ov[p] = []byte(strings.Replace(string(src), parts[1], parts[2], 1))
	}

	if *fnName != "" {
		w, err := loadWorld(*repo, ov, false)
		if err != nil {
			fmt.Println(err)
			exitWith(2)
		}
		d, l := 4, 1
		if *depth > 0 {
			d = *depth
		}
		if *loops > 0 {
			l = *loops
		}
		e := w.engine(d, l)
		for _, o := range opaques {
			if strings.HasPrefix(o, "hof:") { // hof:<callee>[#idx[#method]]
				parts := strings.Split(strings.TrimPrefix(o, "hof:"), "#")
				idx := 0
				if len(parts) > 1 {
					fmt.Sscan(parts[1], &idx)
				}
				e.hof[parts[0]] = idx
				if len(parts) > 2 {
					e.hofMethod[parts[0]] = parts[2]
				}
				continue
			}
			e.opaque[o] = true
		}
		var roots []*ssa.Function
		for _, f := range w.modFns {
			if strings.Contains(f.String(), *fnName) {
				roots = append(roots, f)
			}
		}
		for _, r := range roots {
			t1 := time.Now()
			sums := e.Explore(r)
			fmt.Printf("=== %s [%s]: %d paths (%v)\n", r.String(), funcNameOrSSA(r), len(sums), time.Since(t1))
			for i, s := range sums {
				printSummary(e, i, s, *verbose)
			}
		}
		return
	}

	ids := []string{*prop}
	if *prop == "all" {
		ids = nil
		for id := range props {
			ids = append(ids, id)
		}
		sort.Strings(ids)
	}
	if *prop == "" {
		fmt.Println("usage: wcheck -prop Cnn -tier quick|thorough")
		exitWith(2)
	}
	for _, id := range ids {
		if props[id] == nil {
			fmt.Printf("unknown property %s\n", id)
			exitWith(2)
		}
	}
	t0 := time.Now()
	thoroughTier = *tier == "thorough"
	withCanary := !*noCanary
	w, canaryNote, err := loadWithCanaries(*repo, ov, withCanary, *tier == "thorough" && len(ov) == 0)
	status := 0
	for _, id := range ids {
		r := newRun(id, *tier, seed)
		cmd := fmt.Sprintf("bin/wcheck -prop %s -tier %s", id, *tier)
		if err != nil {
			r.Undecided("LOAD", "packages.Load("+*repo+")", "", err.Error())
			r.expl = "The repository could not be loaded/type-checked, so nothing was decided."
		} else {
			if canaryNote != "" {
				r.extra["canary_note"] = canaryNote
			}
			r.extra["packages_loaded"] = len(w.pkgs)
			r.extra["module_functions"] = len(w.modFns)
			r.extra["load_s"] = time.Since(t0).Seconds()
			func() {
				defer func() {
					if x := recover(); x != nil {
						r.Undecided("PANIC", "checker panic", "", fmt.Sprint(x))
						if *verbose {
							panic(x)
						}
					}
				}()
				props[id](w, r)
			}()
		}
		r.evDir = *evdir
		if *tier == "thorough" && err == nil && len(ov) == 0 {
			runSelfTest(r, id, *repo, vdir)
			switch id {
			case "C02", "C12", "C13", "C15", "C10":
				runDRules(w, r, "D1")
			case "C08":
				runDRules(w, r, "D1", "D2")
			case "C18":
				runDRules(w, r, "D3")
			}
		}
		if st := r.Finish(vdir, cmd); st != 0 {
			status = 1
		}
	}
	exitWith(status)
}

func short(s string) string {
	s = strings.ReplaceAll(s, "github.com/transparency-dev/witness/internal/", "")
	s = strings.ReplaceAll(s, "github.com/transparency-dev/witness/", "")
	s = strings.ReplaceAll(s, "github.com/transparency-dev/", "")
	s = strings.ReplaceAll(s, "golang.org/x/mod/sumdb/", "")
	s = strings.ReplaceAll(s, "google.golang.org/grpc/", "")
	return s
}

func printSummary(e *Engine, i int, s Summary, verbose bool) {
	fmt.Printf("--- path %d", i)
	if s.Panic {
		fmt.Printf(" PANIC")
	}
	if s.Trunc != "" {
		fmt.Printf(" TRUNC(%s)", s.Trunc)
	}
	fmt.Println()
	var fs []string
	for _, f := range s.Facts {
		fs = append(fs, short(f.String()))
	}
	fmt.Printf("  facts: %s\n", strings.Join(fs, " ; "))
	for _, ev := range s.Events {
		if !verbose && (ev.Kind == "defer") {
			continue
		}
		if !verbose && ev.Kind == "call" && (strings.Contains(ev.Callee, "klog") || strings.HasPrefix(ev.Callee, "fmt.")) {
			continue
		}
		var as []string
		for _, a := range ev.Args {
			as = append(as, short(a.String()))
		}
		ex := ""
		if ev.AtExit {
			ex = " [atExit]"
		}
		r := ""
		if ev.Recv != nil {
			r = short(ev.Recv.String()) + " . "
		}
		fmt.Printf("  %-5s %s%s(%s)%s  @%s\n", ev.Kind, r, short(ev.Callee), strings.Join(as, ", "), ex, e.posStr(ev.Pos))
	}
	var rs []string
	for _, r := range s.Rets {
		rs = append(rs, short(r.String()))
	}
	fmt.Printf("  return: %s  @%s\n", strings.Join(rs, " , "), e.posStr(s.RetPos))
}

func exitWith(code int) {
	pprof.StopCPUProfile()
	os.Exit(code)
}

package main

// C13: the feeder only asks the witness for a justified step.

import (
	"fmt"
	"go/types"

	"golang.org/x/tools/go/ssa"
)

const (
	fnFeedOnce = pFeeder + ".FeedOnce"
	fnSubmit   = pFeeder + ".submitToWitness"
	fnRun      = pFeeder + ".Run"
	cRetry     = "github.com/cenkalti/backoff/v4.Retry"
	cWithCtx   = "github.com/cenkalti/backoff/v4.WithContext"
	cPermanent = "github.com/cenkalti/backoff/v4.Permanent"
)

type feederCtx struct {
	submit  *ssa.Function
	closure *ssa.Function
	bind    map[string]*Term // free variable name -> what submitToWitness bound it to
	retry   Event
	sum     Summary
}

func feederContext(w *World, r *Run, rule string) (*feederCtx, bool) {
	sums, _, ok := explore(w, r, rule, fnSubmit, 0, 1)
	if !ok {
		return nil, false
	}
	if len(sums) != 1 {
		r.Undecided(rule, fnSubmit, "", fmt.Sprintf("%d paths through submitToWitness, expected a single straight-line path", len(sums)))
		return nil, false
	}
	s := sums[0]
	rt := calls(s, cRetry)
	if len(rt) != 1 || len(rt[0].Args) != 2 || rt[0].Args[0].Kind != "closure" {
		r.Undecided(rule, fnSubmit+" | backoff.Retry(closure, …)", "", "retry idiom not recognised")
		return nil, false
	}
	fc := &feederCtx{submit: w.fn(fnSubmit), retry: rt[0], sum: s, bind: map[string]*Term{}}
	cl := rt[0].Args[0]
	fc.closure = w.funcs[cl.Name]
	if fc.closure == nil {
		r.Undecided(rule, fnSubmit, "", "closure function not found")
		return nil, false
	}
	for i, fv := range fc.closure.FreeVars {
		if i < len(cl.Args) {
			b := cl.Args[i]
			if b.Kind == "alloc" {
				if v, ok := rt[0].Binds[b.key]; ok {
					fc.bind[fv.Name()] = v
				} else {
					fc.bind[fv.Name()] = mk("zero", "", 0, nil)
				}
				fc.bind["&"+fv.Name()] = b
			} else {
				fc.bind[fv.Name()] = b
			}
		}
	}
	return fc, true
}

func fvDeref(fn *ssa.Function, name string) *Term {
	for _, fv := range fn.FreeVars {
		if fv.Name() == name {
			return mk("deref", "", 0, nil, mk("freevar", fv.Name(), 0, fv.Type()))
		}
	}
	return nil
}

func fvField(fn *ssa.Function, name, field string) *Term {
	for _, fv := range fn.FreeVars {
		if fv.Name() == name {
			return mk("field", field, 0, nil, mk("freevar", fv.Name(), 0, fv.Type()))
		}
	}
	return nil
}

func ruleFeeder(w *World, r *Run) {
	fc, ok := feederContext(w, r, "C13.d")
	if !ok {
		return
	}
	sub := fc.submit
	pCtx, pRaw, pSubmit, pOpts := paramN(sub, 0), paramN(sub, 1), paramN(sub, 2), paramN(sub, 3)
	// ---- bindings: the closure sees submitToWitness's own parameters
	key := fnSubmit + " | closure captures (ctx, cpRaw, cpSubmit, opts) of this call"
	good := fc.bind["ctx"] == pCtx && fc.bind["cpRaw"] == pRaw && fc.bind["cpSubmit"] == pSubmit && fc.bind["opts"] == pOpts
	r.Check(good, "C13.b", key, w.pos(fc.retry.Pos), fmt.Sprintf("closure bindings: ctx=%v cpRaw=%v cpSubmit=%v opts=%v", fc.bind["ctx"], fc.bind["cpRaw"], fc.bind["cpSubmit"], fc.bind["opts"]))
	// ---- C13.d RETRY-TO-CONTEXT
	wc := calls(fc.sum, cWithCtx)
	good = len(wc) == 1 && len(wc[0].Args) == 2 && wc[0].Args[1] == pCtx && fc.retry.Args[1] == wc[0].Res
	r.Check(good, "C13.d", fnSubmit+" | retry bound to the caller's context", w.pos(fc.retry.Pos), "backoff.Retry is not driven by backoff.WithContext(…, ctx) of the caller's context: the feeder would not stop when its context ends")
	// ---- C13.e RESULT
	rc := fc.bind["&returnCp"]
	good = rc != nil && len(fc.sum.Rets) == 2 && fc.sum.Rets[0].Kind == "out" && fc.sum.Rets[0].Args[1] == rc && fc.sum.Rets[1] == fc.retry.Res
	r.Check(good, "C13.e", fnSubmit+" | returns (cell written by the closure, Retry's error)", w.pos(fc.sum.RetPos), "submitToWitness does not return the checkpoint cell the retry closure fills and Retry's verdict")

	// ---- the closure as a root of its own
	cl := fc.closure
	sums, e, ok := exploreFn(w, r, "C13.b", cl, 4, 1)
	if !ok {
		return
	}
	ctxT := fvDeref(cl, "ctx")
	rawT := fvDeref(cl, "cpRaw")
	subT := fvDeref(cl, "cpSubmit")
	if pt, isPtr := typeOfFV(cl, "cpSubmit").(*types.Pointer); isPtr {
		_ = pt
	}
	logID := fvField(cl, "opts", "LogID")
	origin := fvField(cl, "opts", "LogOrigin")
	sigv := fvField(cl, "opts", "LogSigVerifier")
	wit := fvField(cl, "opts", "Witness")
	fetch := fvField(cl, "opts", "FetchProof")
	retCell := mk("freevar", "returnCp", 0, typeOfFV(cl, "returnCp"))
	notExist := mk("global", "os.ErrNotExist", 0, nil)
	nUpd, nAhead, nOK := 0, 0, 0
	subSize := mk("field", "Size", 0, nil, mk("freevar", "cpSubmit", 0, typeOfFV(cl, "cpSubmit")))
	subHash := mk("field", "Hash", 0, nil, mk("freevar", "cpSubmit", 0, typeOfFV(cl, "cpSubmit")))
	for _, s := range sums {
		gl := calls(s, cFeederGetLatest)
		if len(gl) != 1 || gl[0].Recv != wit || len(gl[0].Args) != 2 || gl[0].Args[0] != ctxT || gl[0].Args[1] != logID {
			r.Fail("C13.b", cl.String()+" | asks the witness for its latest checkpoint of this log first", w.pos(s.RetPos), "attempt does not start with Witness.GetLatestCheckpoint(ctx, opts.LogID)")
			continue
		}
		g := gl[0]
		latestRaw := res(g, 0)
		// latest checkpoint: parsed under the log's origin and verifier, or absent
		var pc *Event
		for _, pe := range calls(s, cParse) {
			pe := pe
			if len(pe.Args) == 4 && pe.Args[0] == latestRaw {
				pc = &pe
			}
		}
		var latest *Term
		hasLatest := false
		if pc != nil && okBefore(s, *pc, 0) {
			hasLatest = true
			latest = mk("deref", "", 0, nil, res(*pc, 0))
			okp := pc.Args[1] == origin && pc.Args[2] == sigv && (pc.Args[3].Kind == "nil" || len(pc.Args[3].Args) == 0)
			r.Check(okp, "C13.b", cl.String()+" | witness's latest verified under the log's origin and key", w.pos(pc.Pos), "the witness's checkpoint is parsed with "+short(fmt.Sprint(pc.Args[1:])))
		}
		// failure classification (C13.d): transient failures are plain errors, only 'ahead' is permanent
		upds := calls(s, cFeederUpdate)
		ret := s.Rets[0]
		if len(upds) == 0 {
			switch {
			case ret.Kind == "call" && ret.Name == cPermanent:
				nAhead++
				ahead := hasLatest && implies(s.Facts, "<", subSize, mk("field", "Size", 0, nil, latest), true)
				r.Check(ahead, "C13.c", cl.String()+" | permanent error only when the witness is ahead", w.pos(s.RetPos), "a permanent (non-retried) error is returned on a path that did not establish witness size > log size; path: "+pathString(e, s))
			case ret.Kind == "nil":
				r.Fail("C13.e", cl.String()+" | success only after Update", w.pos(s.RetPos), "attempt reports success without having submitted anything; path: "+pathString(e, s))
			default:
				r.Check(neverNil(ret), "C13.d", cl.String()+" | transient failure is a plain retryable error", w.pos(s.RetPos), "failure path returns "+short(ret.String()))
			}
			// NotFound → no checkpoint yet (C13.f): proceeding without latest only under errors.Is(err, os.ErrNotExist) or err == nil
			continue
		}
		if len(upds) != 1 {
			r.Fail("C13.b", cl.String()+" | one Update per attempt", w.pos(s.RetPos), "more than one Update in a single attempt")
			continue
		}
		nUpd++
		u := upds[0]
		// the get-latest error was nil or affirmatively 'does not exist'
		kE, eNil, _ := nilFact(s, res(g, 1))
		proceedOK := kE && eNil
		if kE && !eNil {
			for _, ie := range calls(s, cErrorsIs) {
				if len(ie.Args) == 2 && ie.Args[0] == res(g, 1) && ie.Args[1] == notExist {
					if k, v, _ := boolFact(s, ie.Res); k && v {
						proceedOK = true
					}
				}
			}
			if k, v, _ := eqFact(s, res(g, 1), notExist); k && v {
				proceedOK = true
			}
		}
		r.Check(proceedOK, "C13.f", cl.String()+" | proceeds without a latest checkpoint only on 'does not exist'", w.pos(u.Pos), "Update is reached although GetLatestCheckpoint failed with something other than os.ErrNotExist (a transient witness failure would be treated as first use); path: "+pathString(e, s))
		// without a parsed latest the raw bytes must be empty
		if !hasLatest {
			ln := mk("len", "", 0, types.Typ[types.Int], latestRaw)
			emp := implies(s.Facts, "<", mk("const", "0", 0, types.Typ[types.Int]), ln, false)
			r.Check(emp, "C13.b", cl.String()+" | latest ignored only when empty", w.pos(u.Pos), "Update is reached with a non-empty latest checkpoint that was not parsed/verified")
		}
		// ---- arguments
		keyU := cl.String() + " | Update(ctx, log ID, size of the witness's latest, fetched checkpoint, proof from latest to it)"
		if len(u.Args) != 5 || u.Recv != wit {
			r.Fail("C13.b", keyU, w.pos(u.Pos), "unexpected Update call shape")
			continue
		}
		var wantOld *Term
		if hasLatest {
			wantOld = mk("field", "Size", 0, nil, latest)
		}
		oldOK := (hasLatest && u.Args[2] == wantOld) || (!hasLatest && (u.Args[2].Kind == "zero" || (u.Args[2].Kind == "const" && u.Args[2].Name == "0")))
		argsOK := u.Args[0] == ctxT && u.Args[1] == logID && oldOK && u.Args[3] == rawT
		if !argsOK {
			r.Fail("C13.b", keyU, w.pos(u.Pos), "Update is called with ("+short(fmt.Sprint(u.Args))+"): old size must be the size of the latest checkpoint the witness reported in this attempt (0 if none) and the checkpoint must be the fetched bytes; path: "+pathString(e, s))
			continue
		}
		// proof
		proof := u.Args[4]
		var fp *Event
		for _, ev := range s.Events {
			ev := ev
			if ev.Kind == "call" && ev.Callee == "dyn" && ev.Recv == fetch {
				fp = &ev
			}
		}
		switch {
		case fp != nil && proof == res(*fp, 0):
			fromOK := len(fp.Args) == 3 && fp.Args[0] == ctxT && fp.Args[2] == subT && ((hasLatest && fp.Args[1] == latest) || (!hasLatest && (fp.Args[1].Kind == "zero" || fp.Args[1].Kind == "structval")))
			r.Check(fromOK && okBefore(s, *fp, u.Seq), "C13.b", cl.String()+" | proof requested from exactly the witness's latest to the submitted checkpoint", w.pos(fp.Pos), "FetchProof is called with ("+short(fmt.Sprint(fp.Args))+") or its error is unchecked")
		case (proof.Kind == "varargs" && len(proof.Args) == 0) || proof.Kind == "nil" || proof.Kind == "alloc":
			// empty literal: only when sizes and roots are equal
			eqSize := hasLatest && implies(s.Facts, "==", mk("field", "Size", 0, nil, latest), subSize, true)
			eqRoot := false
			for _, be := range calls(s, cBytesEq) {
				if k, v, _ := boolFact(s, be.Res); k && v && len(be.Args) == 2 && hasLatest {
					lh := mk("field", "Hash", 0, nil, latest)
					if (be.Args[0] == lh && be.Args[1] == subHash) || (be.Args[1] == lh && be.Args[0] == subHash) {
						eqRoot = true
					}
				}
			}
			r.Check(eqSize && eqRoot, "C13.b", cl.String()+" | empty proof only for an identical checkpoint", w.pos(u.Pos), "an empty proof is submitted on a path that did not establish equal sizes and equal roots; path: "+pathString(e, s))
		default:
			r.Fail("C13.b", cl.String()+" | proof provenance", w.pos(u.Pos), "proof argument "+short(proof.String())+" is neither FetchProof's result nor the empty proof")
		}
		// ---- C13.c NEVER-WHEN-AHEAD
		if hasLatest {
			notAhead := implies(s.Facts, "<", subSize, mk("field", "Size", 0, nil, latest), false)
			r.Check(notAhead, "C13.c", cl.String()+" | never submits when the witness is ahead", w.pos(u.Pos), "Update is reachable although the witness's size may exceed the submitted size; path: "+pathString(e, s))
		}
		// ---- C13.e: result cell
		stores := 0
		for _, ev := range eventsOfKind(s, "store") {
			if ev.Recv == retCell {
				stores++
				r.Check(ev.Args[0] == res(u, 0), "C13.e", cl.String()+" | result cell = what Update returned", w.pos(ev.Pos), "the result cell is filled with "+short(ev.Args[0].String()))
			}
		}
		if ret.Kind == "nil" {
			nOK++
			r.Check(stores == 1 && okBefore(s, u, 0), "C13.e", cl.String()+" | success = Update accepted, result recorded", w.pos(s.RetPos), "attempt reports success without Update's error being nil or without recording the returned checkpoint")
		} else {
			r.Check(neverNil(ret) && failed(s, u) && !(ret.Kind == "call" && ret.Name == cPermanent), "C13.d", cl.String()+" | failed Update is retried", w.pos(s.RetPos), "a failed Update is reported as "+short(ret.String()))
		}
	}
	if nUpd < 2 || nAhead < 1 || nOK < 1 {
		r.Undecided("C13.b", cl.String()+" | anchors", "", fmt.Sprintf("vacuity floor: %d update paths, %d ahead paths, %d success paths", nUpd, nAhead, nOK))
	}

	// ---- C13.a VERIFY-BEFORE-SUBMIT and C13.e in FeedOnce
	fsums, fe, ok := exploreOpaque(w, r, "C13.a", fnFeedOnce, 4, 1, fnSubmit)
	if !ok {
		return
	}
	fo := w.fn(fnFeedOnce)
	fctx, fopts := paramN(fo, 0), paramN(fo, 1)
	nSub := 0
	for _, s := range fsums {
		for _, sc := range calls(s, fnSubmit) {
			nSub++
			var pc *Event
			for _, pe := range calls(s, cParse) {
				pe := pe
				if pe.Seq < sc.Seq && len(pe.Args) == 4 && pe.Args[0] == sc.Args[1] && okBefore(s, pe, sc.Seq) {
					pc = &pe
				}
			}
			good := pc != nil && pc.Args[1] == mk("field", "LogOrigin", 0, nil, fopts) && pc.Args[2] == mk("field", "LogSigVerifier", 0, nil, fopts) && (pc.Args[3].Kind == "nil" || len(pc.Args[3].Args) == 0)
			if good {
				good = sc.Args[0] == fctx && sc.Args[3] == fopts && sc.Args[2] == mk("deref", "", 0, nil, res(*pc, 0))
			}
			if good {
				// the bytes come from FetchCheckpoint of this cycle
				good = sc.Args[1].Kind == "call" && sc.Args[1].Name == "dyn" && sc.Args[1].Args[1] == mk("field", "FetchCheckpoint", 0, nil, fopts)
			}
			r.Check(good, "C13.a", fnFeedOnce+" | submits only bytes that verified under the log's key and origin", w.pos(sc.Pos), "submitToWitness is reached with bytes that were not successfully parsed under opts.LogOrigin/opts.LogSigVerifier, or with a different parsed checkpoint; path: "+pathString(fe, s))
		}
		if len(s.Rets) == 2 && s.Rets[1].Kind == "nil" {
			sc := calls(s, fnSubmit)
			r.Check(len(sc) == 1 && s.Rets[0] == res(sc[0], 0) && okBefore(s, sc[0], 0), "C13.e", fnFeedOnce+" | returns the cosigned checkpoint the witness returned", w.pos(s.RetPos), "FeedOnce's success value is "+short(s.Rets[0].String()))
		}
	}
	if nSub == 0 {
		r.Undecided("C13.a", fnFeedOnce, "", "no submission found")
	}
}

func typeOfFV(fn *ssa.Function, name string) types.Type {
	for _, fv := range fn.FreeVars {
		if fv.Name() == name {
			return fv.Type()
		}
	}
	return nil
}

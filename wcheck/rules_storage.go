package main

// Structural and path rules over the two stores and the code that may touch them:
// SOLE-WRITER, IMMUT, C03.c/d, C04.d, C05.b-g, C06.a/b, C07.c-f, C12.b.

import (
	"fmt"
	"go/constant"
	"go/types"
	"strings"

	"golang.org/x/tools/go/ssa"
)

const (
	fnSQLSet       = "(*" + pSQL + ".writer).Set"
	fnSQLClose     = "(*" + pSQL + ".writer).Close"
	fnSQLWGet      = "(*" + pSQL + ".writer).GetLatest"
	fnSQLRGet      = "(*" + pSQL + ".reader).GetLatest"
	fnSQLWriteOps  = "(*" + pSQL + ".sqlLogPersistence).WriteOps"
	fnSQLReadOps   = "(*" + pSQL + ".sqlLogPersistence).ReadOps"
	fnSQLLogs      = "(*" + pSQL + ".sqlLogPersistence).Logs"
	fnSQLInit      = "(*" + pSQL + ".sqlLogPersistence).Init"
	fnMemWriteOps  = "(*" + pInmem + ".inMemoryPersistence).WriteOps"
	fnMemReadOps   = "(*" + pInmem + ".inMemoryPersistence).ReadOps"
	fnMemLogs      = "(*" + pInmem + ".inMemoryPersistence).Logs"
	fnMemExpect    = "(*" + pInmem + ".inMemoryPersistence).expectAndWrite"
	fnMemGet       = "(*" + pInmem + ".readWriter).GetLatest"
	fnMemSet       = "(*" + pInmem + ".readWriter).Set"
	fnMemClose     = "(*" + pInmem + ".readWriter).Close"
	fnGetCheckpoint = "(*" + pWitness + ".Witness).GetCheckpoint"
	fnGetLogs      = "(*" + pWitness + ".Witness).GetLogs"
	fnWitnessNew   = pWitness + ".New"
)

type sumCacheKey struct {
	w     *World
	name  string
	depth int
	loops int
}

var sumCache = map[sumCacheKey][]Summary{}
var engCache = map[*World]map[string]*Engine{}

func engFor(w *World, depth, loops int, opaque ...string) *Engine {
	if engCache[w] == nil {
		engCache[w] = map[string]*Engine{}
	}
	k := fmt.Sprint(depth, loops, opaque)
	if e, ok := engCache[w][k]; ok {
		return e
	}
	e := w.engine(depth, loops)
	for _, o := range opaque {
		e.opaque[o] = true
	}
	engCache[w][k] = e
	return e
}

// exploreOpaque is explore with the named module functions kept as opaque call events.
func exploreOpaque(w *World, r *Run, rule, name string, depth, loops int, opaque ...string) ([]Summary, *Engine, bool) {
	fn := w.fn(name)
	if fn == nil {
		r.Undecided(rule, name, "", "anchor function not found in the type-checked program")
		return nil, nil, false
	}
	e := engFor(w, depth, loops, opaque...)
	k := sumCacheKey{w, name + "|opaque:" + strings.Join(opaque, ","), depth, loops}
	sums, ok := sumCache[k]
	if !ok {
		sums = e.Explore(fn)
		sumCache[k] = sums
	}
	r.Analysed(name, len(sums))
	for _, s := range sums {
		if s.Trunc != "" {
			r.Undecided(rule, name, w.pos(fn.Pos()), "path enumeration truncated: "+s.Trunc)
			return nil, e, false
		}
	}
	if len(sums) == 0 {
		r.Undecided(rule, name, w.pos(fn.Pos()), "no feasible path")
		return nil, e, false
	}
	return sums, e, true
}

// explore returns the path summaries of a named module function, or reports undecided.
func explore(w *World, r *Run, rule, name string, depth, loops int) ([]Summary, *Engine, bool) {
	fn := w.fn(name)
	if fn == nil {
		r.Undecided(rule, name, "", "anchor function not found in the type-checked program")
		return nil, nil, false
	}
	return exploreFn(w, r, rule, fn, depth, loops)
}

func exploreFn(w *World, r *Run, rule string, fn *ssa.Function, depth, loops int) ([]Summary, *Engine, bool) {
	name := funcNameOrSSA(fn)
	e := engFor(w, depth, loops)
	k := sumCacheKey{w, name, depth, loops}
	sums, ok := sumCache[k]
	if !ok {
		sums = e.Explore(fn)
		sumCache[k] = sums
	}
	r.Analysed(name, len(sums))
	for _, s := range sums {
		if s.Trunc != "" {
			r.Undecided(rule, name, w.pos(fn.Pos()), "path enumeration truncated: "+s.Trunc)
			return nil, e, false
		}
	}
	if len(sums) == 0 {
		r.Undecided(rule, name, w.pos(fn.Pos()), "no feasible path")
		return nil, e, false
	}
	return sums, e, true
}

func recvParam(fn *ssa.Function) *Term {
	if fn.Signature.Recv() == nil || len(fn.Params) == 0 {
		return nil
	}
	return mk("param", fn.Params[0].Name(), 0, fn.Params[0].Type())
}

func paramN(fn *ssa.Function, i int) *Term {
	if fn.Signature.Recv() != nil {
		i++
	}
	if i >= len(fn.Params) {
		return nil
	}
	return mk("param", fn.Params[i].Name(), 0, fn.Params[i].Type())
}

// memField reads field name of a struct alloc from the final memory of a path.
func memField(s Summary, alloc *Term, name string) *Term {
	if alloc == nil {
		return nil
	}
	if v, ok := s.Mem[mk("faddr", name, 0, nil, alloc).key]; ok {
		return v
	}
	if whole, ok := s.Mem[alloc.key]; ok && whole.Kind == "structval" {
		for _, f := range whole.Args {
			if f.Name == name {
				return f.Args[0]
			}
		}
	}
	return nil
}

// ---------------------------------------------------------------- production scope helpers

func (w *World) prodFns() []*ssa.Function {
	var out []*ssa.Function
	for _, fn := range w.modFns {
		if w.isProd(fn) {
			out = append(out, fn)
		}
	}
	return out
}

func outermost(fn *ssa.Function) *ssa.Function {
	for fn.Parent() != nil {
		fn = fn.Parent()
	}
	return fn
}

func fieldOfAddr(fa *ssa.FieldAddr) *types.Var {
	st := fa.X.Type().Underlying().(*types.Pointer).Elem().Underlying().(*types.Struct)
	return st.Field(fa.Field)
}

// baseIsLocalAlloc: the struct whose field is addressed was allocated in this very function.
func baseIsLocalAlloc(v ssa.Value) bool {
	switch x := v.(type) {
	case *ssa.Alloc:
		return true
	case *ssa.FieldAddr:
		return baseIsLocalAlloc(x.X)
	case *ssa.IndexAddr:
		return baseIsLocalAlloc(x.X)
	}
	return false
}

// mapFieldOf: if v is a map value loaded from a struct field, returns that field and the base.
func mapFieldOf(v ssa.Value) (*types.Var, ssa.Value) {
	if u, ok := v.(*ssa.UnOp); ok {
		if fa, ok := u.X.(*ssa.FieldAddr); ok {
			return fieldOfAddr(fa), fa.X
		}
	}
	if f, ok := v.(*ssa.Field); ok {
		st := f.X.Type().Underlying().(*types.Struct)
		return st.Field(f.Field), f.X
	}
	return nil, nil
}

// ---------------------------------------------------------------- IMMUT

func containsStr(xs []string, x string) bool {
	for _, y := range xs {
		if y == x {
			return true
		}
	}
	return false
}

func ruleImmut(w *World, r *Run, rule string, fs []fieldRef) {
	for _, f := range fs {
		fv := w.structField(f.pkg, f.typ, f.field)
		key := f.pkg + "." + f.typ + "." + f.field + " | written only by its constructor"
		if fv == nil {
			r.Undecided(rule, key, "", "field not found")
			continue
		}
		bad := 0
		n := 0
		for _, fn := range w.prodFns() {
			for _, b := range fn.Blocks {
				for _, in := range b.Instrs {
					switch x := in.(type) {
					case *ssa.Store:
						if fa, ok := x.Addr.(*ssa.FieldAddr); ok && fieldOfAddr(fa) == fv {
							n++
							if !baseIsLocalAlloc(fa.X) {
								bad++
								r.Fail(rule, key, w.pos(x.Pos()), "field "+f.typ+"."+f.field+" is written in "+short(fn.String())+" on a value that function did not construct")
							}
						}
					case *ssa.MapUpdate:
						if mf, base := mapFieldOf(x.Map); mf == fv {
							n++
							if !baseIsLocalAlloc(base) {
								bad++
								r.Fail(rule, key, w.pos(x.Pos()), "map "+f.typ+"."+f.field+" is updated in "+short(fn.String())+" outside construction")
							}
						}
					case *ssa.Call:
						if bi, ok := x.Call.Value.(*ssa.Builtin); ok && bi.Name() == "delete" {
							if mf, base := mapFieldOf(x.Call.Args[0]); mf == fv && !baseIsLocalAlloc(base) {
								bad++
								r.Fail(rule, key, w.pos(x.Pos()), "map "+f.typ+"."+f.field+" has an entry deleted in "+short(fn.String()))
							}
						}
					}
				}
			}
		}
		if bad == 0 {
			r.Pass(rule, key, "", "")
		}
		_ = n
	}
}

// immutable configuration/handle types: every field is written only by the function constructing the value.
// Exceptions are listed with a reason.
var immutTypes = [][2]string{
	{pWitness, "Witness"}, {pSQL, "writer"}, {pSQL, "reader"}, {pSQL, "sqlLogPersistence"}, {pInmem, "readWriter"},
	{pBastion, "addHandler"}, {pRest, "Distributor"}, {pIHTTP, "Server"}, {pConfig, "Log"},
}

var immutExceptions = map[string]string{
	pInmem + ".readWriter.toStore": "scratch copy of the value handed to Set; never read back by another request (checked: only Set touches it)",
}

func immutCoreFields(w *World, r *Run, rule string, only ...string) []fieldRef {
	var out []fieldRef
	for _, tn := range immutTypes {
		if len(only) > 0 && !containsStr(only, tn[1]) {
			continue
		}
		o := w.lookup(tn[0], tn[1])
		if o == nil {
			r.Info(rule, tn[0]+"."+tn[1], "", "type no longer present (renamed?): its fields are not covered by the immutability rule")
			continue
		}
		st, ok := o.Type().Underlying().(*types.Struct)
		if !ok {
			continue
		}
		for i := 0; i < st.NumFields(); i++ {
			f := st.Field(i)
			if _, exc := immutExceptions[tn[0]+"."+tn[1]+"."+f.Name()]; exc {
				continue
			}
			out = append(out, fieldRef{tn[0], tn[1], f.Name()})
		}
	}
	if len(out) < 10 && len(only) == 0 || len(out) == 0 {
		r.Undecided(rule, "immutable configuration types", "", fmt.Sprintf("only %d fields found", len(out)))
	}
	return out
}

// ---------------------------------------------------------------- SOLE-WRITER

var sqlMutating = map[string]bool{"INSERT": true, "UPDATE": true, "DELETE": true, "REPLACE": true, "DROP": true, "ALTER": true, "TRUNCATE": true, "VACUUM": true, "ATTACH": true, "PRAGMA": true}

func isSQLExec(name string) (isExec bool, onTx bool) {
	switch name {
	case "(*database/sql.DB).Exec", "(*database/sql.DB).ExecContext", "(*database/sql.Conn).ExecContext", "(*database/sql.Stmt).Exec", "(*database/sql.Stmt).ExecContext",
		"(*database/sql.DB).Prepare", "(*database/sql.DB).PrepareContext":
		return true, false
	case "(*database/sql.Tx).Exec", "(*database/sql.Tx).ExecContext", "(*database/sql.Tx).Prepare", "(*database/sql.Tx).PrepareContext":
		return true, true
	}
	return false, false
}

func isSQLQuery(name string) bool {
	switch name {
	case "(*database/sql.DB).Query", "(*database/sql.DB).QueryContext", "(*database/sql.DB).QueryRow", "(*database/sql.DB).QueryRowContext",
		"(*database/sql.Tx).Query", "(*database/sql.Tx).QueryContext", "(*database/sql.Tx).QueryRow", "(*database/sql.Tx).QueryRowContext":
		return true
	}
	return false
}

func constString(v ssa.Value) (string, bool) {
	if c, ok := v.(*ssa.Const); ok && c.Value != nil && c.Value.Kind() == constant.String {
		return constant.StringVal(c.Value), true
	}
	return "", false
}

func ruleSoleWriter(w *World, r *Run, rule string) {
	updFn := w.fn(fnUpdate)
	if updFn == nil {
		r.Undecided(rule, fnUpdate, "", "anchor not found")
		return
	}
	ckField := w.structField(pInmem, "inMemoryPersistence", "checkpoints")
	if ckField == nil {
		r.Undecided(rule, pInmem+".inMemoryPersistence.checkpoints", "", "field not found")
	}
	nWrite, nSet, nMap, nExec := 0, 0, 0, 0
	implNames := map[string]string{
		fnSQLSet: "Set", fnMemSet: "Set", fnSQLWriteOps: "WriteOps", fnMemWriteOps: "WriteOps", fnMemExpect: "expectAndWrite",
	}
	// write entry points must not escape as function values (a call through a value would bypass the who-may-call rule)
	writeEntry := map[string]bool{cSet: true, cWriteOps: true, fnSQLSet: true, fnMemSet: true, fnSQLWriteOps: true, fnMemWriteOps: true}
	for _, fn := range w.prodFns() {
		for _, b := range fn.Blocks {
			for _, in := range b.Instrs {
				mc, ok := in.(*ssa.MakeClosure)
				if !ok {
					continue
				}
				f := mc.Fn.(*ssa.Function)
				if !strings.HasSuffix(f.Name(), "$bound") {
					continue
				}
				if obj, ok := f.Object().(*types.Func); ok && writeEntry[obj.FullName()] {
					r.Fail(rule, short(obj.FullName())+" | not taken as a method value", w.pos(in.Pos()), "a write entry point is turned into a function value in "+short(fn.String())+": calls through it are invisible to the sole-writer rule")
				}
			}
		}
	}
	for _, fn := range w.prodFns() {
		host := outermost(fn)
		for _, b := range fn.Blocks {
			for _, in := range b.Instrs {
				var cc *ssa.CallCommon
				switch x := in.(type) {
				case *ssa.Call:
					cc = &x.Call
				case *ssa.Defer:
					cc = &x.Call
				case *ssa.Go:
					cc = &x.Call
				case *ssa.MapUpdate:
					if mf, base := mapFieldOf(x.Map); mf != nil && mf == ckField {
						nMap++
						key := "in-memory checkpoints map | updated only by the compare-and-set"
						ok := w.onlyReachableFrom(fn, w.rootsOf(fnMemExpect)) || baseIsLocalAlloc(base)
						r.Check(ok, rule, key, w.pos(x.Pos()), "the in-memory checkpoint map is written in "+short(fn.String())+", outside expectAndWrite")
					}
					continue
				default:
					continue
				}
				name := ""
				if cc.IsInvoke() {
					name = cc.Method.FullName()
				} else if sc := cc.StaticCallee(); sc != nil {
					name = funcName(sc)
				} else if bi, ok := cc.Value.(*ssa.Builtin); ok && bi.Name() == "delete" {
					if mf, _ := mapFieldOf(cc.Args[0]); mf != nil && mf == ckField {
						r.Fail(rule, "in-memory checkpoints map | no deletion", w.pos(in.Pos()), "an entry of the in-memory checkpoint map is deleted in "+short(fn.String()))
					}
					continue
				}
				switch name {
				case cWriteOps, cSet:
					if name == cSet {
						nSet++
					} else {
						nWrite++
					}
					key := short(name) + " | invoked only from Update"
					r.Check(w.onlyReachableFrom(fn, map[*ssa.Function]bool{updFn: true}), rule, key, w.pos(in.Pos()), short(name)+" is invoked from "+short(fn.String())+", which is reachable from outside Update; only Update (and helpers private to it) may open a write operation or store a checkpoint")
				}
				if what, ok := implNames[name]; ok && pkgPathOf(fn) != pkgPathOf(w.fn(name)) {
					r.Fail(rule, short(name)+" | not called directly from outside its package", w.pos(in.Pos()), "storage implementation method "+what+" is called directly from "+short(fn.String()))
				}
				if isExec, onTx := isSQLExec(name); isExec {
					nExec++
					key := "SQL exec in " + short(funcName(host))
					args := cc.Args
					if !cc.IsInvoke() && cc.StaticCallee() != nil && cc.StaticCallee().Signature.Recv() != nil {
						args = args[1:]
					}
					var text string
					okc := false
					for _, a0 := range args {
						if t, ok := constString(a0); ok {
							text, okc = t, true
							break
						}
					}
					if !okc {
						r.Undecided(rule, key, w.pos(in.Pos()), "SQL statement text is not a constant; cannot classify")
						continue
					}
					st := parseSQL(text)
					switch {
					case st.err != "":
						r.Undecided(rule, key, w.pos(in.Pos()), "SQL tokenizer: "+st.err)
					case sqlMutating[st.verb]:
						ok := onTx && w.onlyReachableFrom(fn, w.rootsOf(fnSQLSet))
						r.Check(ok, rule, key+" | mutating statement only in writer.Set on the transaction", w.pos(in.Pos()), fmt.Sprintf("mutating SQL statement (%s) executed in %s (on transaction: %v); only writer.Set may mutate, and only inside the transaction", st.verb, short(fn.String()), onTx))
					case st.verb == "CREATE":
						ok := st.ifNotExists && w.onlyReachableFrom(fn, w.rootsOf(fnSQLInit))
						r.Check(ok, rule, key+" | idempotent DDL only in Init", w.pos(in.Pos()), "CREATE statement outside Init or without IF NOT EXISTS")
					default:
						r.Undecided(rule, key, w.pos(in.Pos()), "unclassified SQL verb "+st.verb)
					}
				}
			}
		}
	}
	if nWrite == 0 || nSet == 0 || nMap == 0 || nExec < 2 {
		r.Undecided(rule, "sole-writer anchors", "", fmt.Sprintf("vacuity floor: WriteOps sites=%d Set sites=%d map updates=%d SQL exec sites=%d", nWrite, nSet, nMap, nExec))
	}
	r.sites += nWrite + nSet + nMap + nExec
}

// ---------------------------------------------------------------- SQL tokenizer (constant statements of this repository)

type sqlStmt struct {
	verb        string
	orReplace   bool
	onConflict  bool
	ifNotExists bool
	table       string
	cols        []string // INSERT column list / SELECT projection / CREATE columns
	pk          string   // CREATE: primary key column
	whereCol    string
	wherePH     bool
	values      int // number of placeholders in VALUES
	multi       bool
	err         string
}

func sqlTokens(s string) []string {
	var toks []string
	i := 0
	for i < len(s) {
		c := s[i]
		switch {
		case c == ' ' || c == '\t' || c == '\n' || c == '\r':
			i++
		case c == '(' || c == ')' || c == ',' || c == ';' || c == '=' || c == '?' || c == '*':
			toks = append(toks, string(c))
			i++
		case c == '\'' || c == '"' || c == '`':
			j := i + 1
			for j < len(s) && s[j] != c {
				j++
			}
			toks = append(toks, s[i:min(j+1, len(s))])
			i = j + 1
		case c == '-' && i+1 < len(s) && s[i+1] == '-':
			for i < len(s) && s[i] != '\n' {
				i++
			}
		default:
			j := i
			for j < len(s) && !strings.ContainsRune(" \t\n\r(),;=?*'\"`", rune(s[j])) {
				j++
			}
			toks = append(toks, s[i:j])
			i = j
		}
	}
	return toks
}

func parseSQL(text string) sqlStmt {
	t := sqlTokens(text)
	st := sqlStmt{}
	if len(t) == 0 {
		st.err = "empty statement"
		return st
	}
	up := func(i int) string {
		if i < len(t) {
			return strings.ToUpper(t[i])
		}
		return ""
	}
	// more than one statement?
	for i, tk := range t {
		if tk == ";" && i != len(t)-1 {
			st.multi = true
		}
	}
	st.verb = up(0)
	i := 1
	list := func() []string {
		var out []string
		if i < len(t) && t[i] == "(" {
			i++
			depth := 1
			first := true
			for i < len(t) && depth > 0 {
				switch t[i] {
				case "(":
					depth++
				case ")":
					depth--
				case ",":
					first = true
				default:
					if first && depth == 1 {
						out = append(out, t[i])
						first = false
					}
				}
				i++
			}
		}
		return out
	}
	switch st.verb {
	case "INSERT", "REPLACE":
		if up(i) == "OR" {
			if up(i+1) == "REPLACE" {
				st.orReplace = true
			}
			i += 2
		}
		if st.verb == "REPLACE" {
			st.orReplace = true
		}
		if up(i) != "INTO" {
			st.err = "expected INTO"
			return st
		}
		i++
		st.table = t[i]
		i++
		st.cols = list()
		if up(i) != "VALUES" {
			st.err = "expected VALUES"
			return st
		}
		i++
		vals := list()
		for _, v := range vals {
			if v == "?" {
				st.values++
			} else {
				st.err = "non-placeholder value " + v
			}
		}
		for ; i < len(t); i++ {
			if up(i) == "ON" && up(i+1) == "CONFLICT" {
				st.onConflict = true
			}
		}
	case "SELECT":
		for i < len(t) && up(i) != "FROM" {
			if t[i] != "," {
				st.cols = append(st.cols, t[i])
			}
			i++
		}
		i++
		if i < len(t) {
			st.table = t[i]
			i++
		}
		if up(i) == "WHERE" {
			if i+3 < len(t) && t[i+2] == "=" {
				st.whereCol = t[i+1]
				st.wherePH = t[i+3] == "?"
				i += 4
			} else {
				st.err = "WHERE clause shape not understood"
			}
		}
		for ; i < len(t); i++ {
			if t[i] != ";" {
				st.err = "trailing tokens after SELECT: " + t[i]
			}
		}
	case "CREATE":
		if up(i) != "TABLE" {
			st.err = "only CREATE TABLE is understood"
			return st
		}
		i++
		if up(i) == "IF" && up(i+1) == "NOT" && up(i+2) == "EXISTS" {
			st.ifNotExists = true
			i += 3
		}
		st.table = t[i]
		i++
		// column definitions
		if i < len(t) && t[i] == "(" {
			i++
			var def []string
			flush := func() {
				if len(def) > 0 {
					st.cols = append(st.cols, def[0])
					for k := 0; k+1 < len(def); k++ {
						if strings.ToUpper(def[k]) == "PRIMARY" && strings.ToUpper(def[k+1]) == "KEY" {
							st.pk = def[0]
						}
					}
				}
				def = nil
			}
			depth := 1
			for i < len(t) && depth > 0 {
				switch t[i] {
				case "(":
					depth++
				case ")":
					depth--
					if depth == 0 {
						flush()
					}
				case ",":
					if depth == 1 {
						flush()
					}
				default:
					def = append(def, t[i])
				}
				i++
			}
		}
	default:
		// other verbs are only classified
	}
	return st
}

type sqlSite struct {
	fn   *ssa.Function
	name string // callee
	text string
	st   sqlStmt
	pos  string
}

// sqlSites lists every constant SQL statement passed to database/sql in production code.
func sqlSites(w *World) []sqlSite {
	var out []sqlSite
	for _, fn := range w.prodFns() {
		for _, b := range fn.Blocks {
			for _, in := range b.Instrs {
				call, ok := in.(*ssa.Call)
				if !ok {
					continue
				}
				var name string
				args := call.Call.Args
				if sc := call.Call.StaticCallee(); sc != nil {
					name = funcName(sc)
					if sc.Signature.Recv() != nil && len(args) > 0 {
						args = args[1:]
					}
				} else {
					// interface method (a local query interface satisfied by *sql.DB/*sql.Tx) or a function value
					name = "dyn"
				}
				isE, _ := isSQLExec(name)
				if !(isE || isSQLQuery(name) || name == "dyn") {
					continue
				}
				for _, a0 := range args {
					if t, ok := constString(a0); ok {
						if name == "dyn" {
							up := strings.ToUpper(strings.TrimSpace(t))
							if !(strings.HasPrefix(up, "SELECT ") || strings.HasPrefix(up, "INSERT ") || strings.HasPrefix(up, "UPDATE ") || strings.HasPrefix(up, "DELETE ")) {
								break
							}
						}
						out = append(out, sqlSite{fn, name, t, parseSQL(t), w.pos(call.Pos())})
						break
					}
				}
			}
		}
	}
	return out
}

// ---------------------------------------------------------------- C03.c STORAGE-REFUSAL, C06.a/b, C05.e

func ruleStorageRefusal(w *World, r *Run, rule string) {
	ruleCloseIsRollback(w, r, rule)
	// SQL: Set can only succeed through Commit
	ruleCommitBeforeAck(w, r, rule)
	// in-memory: update only on the nil-returning paths of the compare-and-set
	if sums, _, ok := explore(w, r, rule, fnMemExpect, 4, 1); ok {
		nUpd := 0
		for _, s := range sums {
			ups := eventsOfKind(s, "mapupdate", "mapdelete")
			if len(ups) == 0 {
				continue
			}
			nUpd++
			good := len(s.Rets) == 1 && s.Rets[0].Kind == "nil"
			r.Check(good, rule, fnMemExpect+" | map written only when nil is returned", w.pos(ups[0].Pos), "the in-memory map is written on a path that reports an error (a refused write would still change state)")
		}
		if nUpd == 0 {
			r.Undecided(rule, fnMemExpect, "", "no path updates the map")
		}
	}
	// read-side and handle-opening methods perform no mutation
	for _, name := range []string{fnSQLWriteOps, fnSQLReadOps, fnSQLLogs, fnSQLWGet, fnSQLRGet, fnMemWriteOps, fnMemReadOps, fnMemLogs, fnMemGet, fnMemClose} {
		sums, _, ok := explore(w, r, rule, name, 4, 1)
		if !ok {
			continue
		}
		clean := true
		for _, s := range sums {
			for _, ev := range s.Events {
				isE, _ := isSQLExec(ev.Callee)
				if ev.Kind == "mapupdate" || ev.Kind == "mapdelete" || (ev.Kind == "call" && (isE || ev.Callee == "(*database/sql.Tx).Commit")) {
					clean = false
					r.Fail(rule, name+" | performs no mutation", w.pos(ev.Pos), short(name)+" mutates storage ("+ev.Kind+" "+short(ev.Callee)+")")
				}
			}
		}
		if clean {
			r.Pass(rule, name+" | performs no mutation", w.pos(w.fn(name).Pos()), "")
		}
	}
}

// ruleCloseIsRollback: SQL Close == Rollback (and only Rollback) on the handle's transaction, on every path.
func ruleCloseIsRollback(w *World, r *Run, rule string) {
	if sums, _, ok := explore(w, r, rule, fnSQLClose, 4, 1); ok {
		fn := w.fn(fnSQLClose)
		tx := mk("field", "tx", 0, nil, recvParam(fn))
		for _, s := range sums {
			rb := calls(s, "(*database/sql.Tx).Rollback")
			good := len(rb) == 1 && rb[0].Recv == tx && len(calls(s, "(*database/sql.Tx).Commit")) == 0
			for _, ev := range s.Events {
				if isE, _ := isSQLExec(ev.Callee); ev.Kind == "call" && isE {
					good = false
				}
			}
			r.Check(good, rule, fnSQLClose+" | Close is Rollback on the handle's transaction, on every path", w.pos(s.RetPos), "writer.Close must roll back (and only roll back) the transaction begun by WriteOps on every path: a Close that commits makes refusals write, a Close that sometimes does nothing leaves the transaction (and the single connection) pinned")
		}
	}
}

// C06.a (SQL half): a possibly-nil return of writer.Set is exactly Commit's result after a successful Exec.
func ruleCommitBeforeAck(w *World, r *Run, rule string) {
	sums, _, ok := explore(w, r, rule, fnSQLSet, 4, 1)
	if !ok {
		return
	}
	fn := w.fn(fnSQLSet)
	tx := mk("field", "tx", 0, nil, recvParam(fn))
	nCommit := 0
	for _, s := range sums {
		if len(s.Rets) != 1 {
			r.Fail(rule, fnSQLSet+" | return shape", w.pos(s.RetPos), "unexpected return arity")
			continue
		}
		ret := s.Rets[0]
		key := fnSQLSet + " | nil only through Commit after a successful Exec"
		if neverNil(ret) {
			// definitely an error: must not have committed
			c := calls(s, "(*database/sql.Tx).Commit")
			if len(c) > 0 && !failed(s, c[0]) && !wraps(ret, c[0].Res) {
				r.Fail(rule, key, w.pos(s.RetPos), "an error is reported although the transaction was committed")
			} else {
				r.Pass(rule, key, w.pos(s.RetPos), "")
			}
			continue
		}
		commits := calls(s, "(*database/sql.Tx).Commit")
		var execs []Event
		for _, ev := range s.Events {
			if isE, _ := isSQLExec(ev.Callee); ev.Kind == "call" && isE {
				execs = append(execs, ev)
			}
		}
		good := len(commits) == 1 && commits[0].Recv == tx && len(execs) == 1 && execs[0].Recv == tx && execs[0].Seq < commits[0].Seq && okBefore(s, execs[0], commits[0].Seq)
		if good {
			// returned value is Commit's result, or nil under the fact that Commit succeeded
			cres := commits[0].Res
			good = ret == cres || (ret.Kind == "nil" && okBefore(s, commits[0], 0))
		}
		if good {
			nCommit++
		}
		r.Check(good, rule, key, w.pos(s.RetPos), "writer.Set can report success without having executed its statement and committed on the handle's transaction (acknowledged update not durable); path: "+pathString(engFor(w, 4, 1), s))
	}
	if nCommit == 0 {
		r.Undecided(rule, fnSQLSet, "", "no committing path recognised")
	}
}

// C06.b ONE-STATEMENT-IN-TX and writer/reader table agreement
func ruleOneStatement(w *World, r *Run, rule string) {
	var create, upsert, sel, list *sqlSite
	sites := sqlSites(w)
	for i := range sites {
		s := &sites[i]
		if s.st.err != "" {
			r.Undecided(rule, "SQL statement in "+short(funcName(outermost(s.fn))), s.pos, "SQL tokenizer: "+s.st.err+": "+s.text)
			continue
		}
		host := funcName(outermost(s.fn))
		switch {
		case s.st.verb == "CREATE":
			create = s
		case (s.st.verb == "INSERT" || s.st.verb == "REPLACE") && (host == fnSQLSet || w.onlyReachableFrom(s.fn, w.rootsOf(fnSQLSet))):
			upsert = s
		case s.st.verb == "SELECT" && s.st.whereCol != "":
			sel = s
		case s.st.verb == "SELECT":
			list = s
		}
	}
	r.sites += len(sites)
	if create == nil || upsert == nil || sel == nil || list == nil {
		r.Undecided(rule, "SQL constants", "", fmt.Sprintf("could not find all four statements (create=%v upsert=%v select-one=%v select-keys=%v)", create != nil, upsert != nil, sel != nil, list != nil))
		return
	}
	key := "writer.Set statement | single upsert keyed by the primary key"
	u := upsert.st
	switch {
	case u.multi:
		r.Fail(rule, key, upsert.pos, "more than one statement in the text executed by Set")
	case !(u.orReplace || u.onConflict):
		r.Fail(rule, key, upsert.pos, "the statement is a plain INSERT: the second update of a log would fail or, without a key, append a row")
	case len(u.cols) != u.values || len(u.cols) < 2:
		r.Fail(rule, key, upsert.pos, "column list and placeholders disagree")
	case create.st.pk == "" || !strings.EqualFold(u.cols[0], create.st.pk):
		r.Fail(rule, key, upsert.pos, fmt.Sprintf("first column written (%s) is not the table's PRIMARY KEY column (%s): REPLACE would not replace", u.cols[0], create.st.pk))
	case !strings.EqualFold(u.table, create.st.table) || !strings.EqualFold(sel.st.table, create.st.table) || !strings.EqualFold(list.st.table, create.st.table):
		r.Fail(rule, key, upsert.pos, "writer, readers and DDL name different tables")
	default:
		r.Pass(rule, key, upsert.pos, "")
	}
	key = "reader/writer column agreement"
	switch {
	case len(sel.st.cols) != 1 || !strings.EqualFold(sel.st.cols[0], u.cols[1]):
		r.Fail(rule, key, sel.pos, fmt.Sprintf("GetLatest projects %v but Set writes the checkpoint into column %s", sel.st.cols, u.cols[1]))
	case !strings.EqualFold(sel.st.whereCol, u.cols[0]) || !sel.st.wherePH:
		r.Fail(rule, key, sel.pos, fmt.Sprintf("GetLatest selects by %s but Set keys rows by %s", sel.st.whereCol, u.cols[0]))
	case len(list.st.cols) != 1 || !strings.EqualFold(list.st.cols[0], u.cols[0]):
		r.Fail(rule, key, list.pos, fmt.Sprintf("Logs() lists column %v, not the key column %s", list.st.cols, u.cols[0]))
	default:
		r.Pass(rule, key, sel.pos, "")
	}
	// binding of arguments: first placeholder <- handle's logID, second <- the checkpoint parameter
	if sums, _, ok := explore(w, r, rule, fnSQLSet, 4, 1); ok {
		fn := w.fn(fnSQLSet)
		recv := recvParam(fn)
		for _, s := range sums {
			for _, ev := range calls(s, "(*database/sql.Tx).Exec", "(*database/sql.Tx).ExecContext") {
				va := ev.Args[len(ev.Args)-1]
				good := va.Kind == "varargs" && len(va.Args) == 2 && va.Args[0] == mk("field", "logID", 0, nil, recv) && va.Args[1] == paramN(fn, 0)
				r.Check(good, rule, fnSQLSet+" | placeholders bound to (handle's log ID, checkpoint bytes)", w.pos(ev.Pos), "Exec arguments are "+short(va.String())+", want (w.logID, c)")
			}
		}
	}
}

// C05.e TXN-SCOPE
func ruleTxnScope(w *World, r *Run, rule string) {
	if sums, _, ok := explore(w, r, rule, fnSQLWGet, 4, 1); ok {
		fn := w.fn(fnSQLWGet)
		tx := mk("field", "tx", 0, nil, recvParam(fn))
		n := 0
		for _, s := range sums {
			for _, ev := range s.Events {
				if ev.Kind == "call" && isSQLQuery(ev.Callee) {
					n++
					r.Check(ev.Recv == tx, rule, fnSQLWGet+" | reads through the handle's transaction", w.pos(ev.Pos), "the write handle reads the previous checkpoint through "+short(fmt.Sprint(ev.Recv))+", not through its own transaction: the read is not isolated from a concurrent writer")
				}
			}
		}
		if n == 0 {
			r.Undecided(rule, fnSQLWGet, "", "no query found")
		}
	}
	if sums, _, ok := explore(w, r, rule, fnSQLWriteOps, 4, 1); ok {
		fn := w.fn(fnSQLWriteOps)
		db := mk("field", "db", 0, nil, recvParam(fn))
		nOK := 0
		for _, s := range sums {
			if len(s.Rets) != 2 {
				continue
			}
			begins := calls(s, "(*database/sql.DB).Begin", "(*database/sql.DB).BeginTx")
			if s.Rets[1].Kind == "nil" {
				h := s.Rets[0]
				good := len(begins) == 1 && begins[0].Recv == db && okBefore(s, begins[0], 0) && h.Kind == "alloc" &&
					memField(s, h, "tx") == res(begins[0], 0) && memField(s, h, "logID") == paramN(fn, 0)
				if good {
					nOK++
				}
				r.Check(good, rule, fnSQLWriteOps+" | handle = {tx: db.Begin(), logID: logID}", w.pos(s.RetPos), "WriteOps does not hand out a handle bound to a freshly begun transaction and to the requested log ID")
			} else {
				// C07.f: failure returns no handle and leaks no transaction
				good := s.Rets[0].Kind == "nil" && (len(begins) == 0 || failed(s, begins[0]))
				r.Check(good, "C07.f", fnSQLWriteOps+" | failure leaks no transaction", w.pos(s.RetPos), "WriteOps returns an error after a transaction was begun without rolling it back (leaked transaction blocks the single connection)")
			}
		}
		if nOK == 0 {
			r.Undecided(rule, fnSQLWriteOps, "", "no successful path recognised")
		}
	}
	if sums, _, ok := explore(w, r, rule, fnSQLRGet, 4, 1); ok {
		fn := w.fn(fnSQLRGet)
		db := mk("field", "db", 0, nil, recvParam(fn))
		for _, s := range sums {
			for _, ev := range s.Events {
				if ev.Kind == "call" && isSQLQuery(ev.Callee) {
					r.Check(ev.Recv == db, rule, fnSQLRGet+" | reads through the pool", w.pos(ev.Pos), "reader does not query its own database handle")
				}
			}
		}
	}
}

func ruleNoLeakedTx(w *World, r *Run, rule string) {
	// evaluated as part of ruleTxnScope (C07.f verdicts are emitted there)
	sub := newRun(r.Prop, r.Tier, r.Seed)
	ruleTxnScope(w, sub, "C05.e")
	for _, v := range sub.verdicts {
		if v.Rule == "C07.f" {
			r.verdicts = append(r.verdicts, v)
			r.evals++
		}
	}
	for f := range sub.funcs {
		r.funcs[f] = true
	}
	n := 0
	for _, v := range r.verdicts {
		if v.Rule == "C07.f" {
			n++
		}
	}
	if n == 0 {
		r.Undecided(rule, fnSQLWriteOps, "", "no failing path of WriteOps found")
	}
}

// C03.d LOGS-FROM-KEYS
func ruleLogsFromKeys(w *World, r *Run, rule string) {
	if sums, _, ok := explore(w, r, rule, fnGetLogs, 4, 1); ok {
		fn := w.fn(fnGetLogs)
		lsp := fieldByType(recvParam(fn), "persistence.LogStatePersistence")
		for _, s := range sums {
			lc := calls(s, cLogs)
			good := len(lc) == 1 && lc[0].Recv == lsp && len(s.Rets) == 2 && s.Rets[0] == res(lc[0], 0) && s.Rets[1] == res(lc[0], 1)
			r.Check(good, rule, fnGetLogs+" | returns the store's key list unchanged", w.pos(s.RetPos), "GetLogs does not return lsp.Logs() unchanged")
		}
	}
	if sums, _, ok := explore(w, r, rule, fnMemLogs, 4, 2); ok {
		ck := mk("field", "checkpoints", 0, nil, recvParam(w.fn(fnMemLogs)))
		for _, s := range sums {
			good := true
			t := s.Rets[0]
			for t.Kind == "append" {
				for _, el := range t.Args[1:] {
					if el.Kind != "varargs" {
						good = false
						continue
					}
					for _, x := range el.Args {
						if !(x.Kind == "rangekey" && x.Args[0].Kind == "rangeiter" && x.Args[0].Args[0] == ck) {
							good = false
						}
					}
				}
				t = t.Args[0]
			}
			if !(t.Kind == "alloc" || t.Kind == "nil" || t.Kind == "zero") {
				good = false
			}
			r.Check(good, rule, fnMemLogs+" | list built from the map's keys only", w.pos(s.RetPos), "the in-memory log list contains something other than keys of the checkpoint map: "+short(s.Rets[0].String()))
		}
	}
	// SQL: the list query projects the key column (checked with the tokenizer in C06.b/C12.b); here: every element appended comes from Scan
	if sums, _, ok := explore(w, r, rule, fnSQLLogs, 4, 2); ok {
		for _, s := range sums {
			if len(s.Rets) != 2 || s.Rets[1].Kind != "nil" {
				continue
			}
			good := true
			anySub(s.Rets[0], func(t *Term) bool {
				if t.Kind == "append" {
					for _, el := range t.Args[1:] {
						if el.Kind == "varargs" {
							for _, x := range el.Args {
								if !(x.Kind == "out" && x.Args[0].Kind == "call" && x.Args[0].Name == "(*database/sql.Rows).Scan") {
									good = false
								}
							}
						}
					}
				}
				return false
			})
			r.Check(good, rule, fnSQLLogs+" | list built from scanned rows only", w.pos(s.RetPos), "the SQL log list contains an element that does not come from rows.Scan: "+short(s.Rets[0].String()))
		}
	}
}

// C04.d READ-VERBATIM
func ruleReadVerbatim(w *World, r *Run, rule string) {
	sums, _, ok := explore(w, r, rule, fnGetCheckpoint, 4, 1)
	if !ok {
		return
	}
	fn := w.fn(fnGetCheckpoint)
	lsp := fieldByType(recvParam(fn), "persistence.LogStatePersistence")
	logID := paramN(fn, 0)
	nOK := 0
	for _, s := range sums {
		if len(s.Rets) != 2 {
			continue
		}
		ro := calls(s, cReadOps)
		gl := calls(s, cGetLatest)
		if s.Rets[1].Kind == "nil" {
			good := len(ro) == 1 && ro[0].Recv == lsp && len(ro[0].Args) == 1 && ro[0].Args[0] == logID && okBefore(s, ro[0], 0) &&
				len(gl) == 1 && gl[0].Recv == res(ro[0], 0) && okBefore(s, gl[0], 0) && s.Rets[0] == res(gl[0], 0)
			if good {
				nOK++
			}
			r.Check(good, rule, fnGetCheckpoint+" | returns ReadOps(logID).GetLatest() unchanged", w.pos(s.RetPos), "GetCheckpoint's success value is "+short(s.Rets[0].String())+", not the bytes read from the store for the requested log ID")
		} else {
			// errors are passed through so that NotFound survives to the HTTP layer / adapter
			if len(gl) == 1 && failed(s, gl[0]) {
				r.Check(s.Rets[1] == errRes(gl[0]) && s.Rets[0].Kind == "nil", rule, fnGetCheckpoint+" | store error passed through", w.pos(s.RetPos), "GetLatest's error is not returned as is (a NotFound status would be lost)")
			}
		}
		for _, ev := range s.Events {
			if ev.Kind == "call" && (ev.Callee == cWriteOps || ev.Callee == cSet) {
				r.Fail(rule, fnGetCheckpoint+" | read-only", w.pos(ev.Pos), "GetCheckpoint opens a write operation")
			}
		}
	}
	if nOK == 0 {
		r.Undecided(rule, fnGetCheckpoint, "", "no success path recognised")
	}
}

// ---------------------------------------------------------------- C07.c (storage layer), C07.d, C07.e

// ruleStorageErrDiscipline: in the SQL layer no success return without a nil-fact for each fallible call on the path.
func ruleStorageErrDiscipline(w *World, r *Run, rule string) {
	fallible := map[string]bool{
		"(*database/sql.Tx).Exec": true, "(*database/sql.Tx).Commit": true, "(*database/sql.DB).Begin": true, "(*database/sql.Row).Err": true,
		"(*database/sql.Row).Scan": true, "(*database/sql.Rows).Scan": true, "(*database/sql.Rows).Err": true, "(*database/sql.DB).Query": true, "(*database/sql.DB).Exec": true,
		"(*database/sql.Tx).ExecContext": true, "(*database/sql.DB).BeginTx": true,
	}
	n := 0
	for _, name := range []string{fnSQLSet, fnSQLWGet, fnSQLRGet, fnSQLWriteOps, fnSQLLogs, fnSQLInit} {
		sums, _, ok := explore(w, r, rule, name, 4, 2)
		if !ok {
			continue
		}
		for _, s := range sums {
			if len(s.Rets) == 0 {
				continue
			}
			last := s.Rets[len(s.Rets)-1]
			for _, ev := range s.Events {
				if ev.Kind != "call" || !fallible[ev.Callee] || ev.AtExit {
					continue
				}
				n++
				key := name + " | error of " + short(ev.Callee) + " not dropped"
				er := errRes(ev)
				k, isNil, _ := nilFact(s, er)
				switch {
				case last == er: // returned as is
					r.Pass(rule, key, w.pos(ev.Pos), "")
				case last.Kind == "nil":
					r.Check(k && isNil, rule, key, w.pos(ev.Pos), "success is returned although the error of "+short(ev.Callee)+" was never checked")
				case k && !isNil:
					r.Check(neverNil(last) || wraps(last, er), rule, key, w.pos(ev.Pos), "failure of "+short(ev.Callee)+" does not lead to a non-nil error")
				default:
					r.Pass(rule, key, w.pos(ev.Pos), "")
				}
			}
		}
	}
	if n < 6 {
		r.Undecided(rule, "SQL error discipline", "", fmt.Sprintf("vacuity floor: only %d fallible SQL calls seen", n))
	}
}

// C07.d NOTFOUND-EXACT
func ruleNotFoundExact(w *World, r *Run, rule string) {
	nf := codesConst(w, "NotFound")
	isNotFoundCtor := func(t *Term) (bool, bool) { // (is status ctor, is NotFound)
		if t.Kind == "call" && (t.Name == "google.golang.org/grpc/status.Error" || t.Name == "google.golang.org/grpc/status.Errorf") && len(t.Args) > 2 {
			return true, t.Args[2].Kind == "const" && t.Args[2].Name == nf
		}
		return false, false
	}
	for _, name := range []string{fnSQLWGet, fnSQLRGet} {
		sums, _, ok := explore(w, r, rule, name, 4, 1)
		if !ok {
			continue
		}
		nNF := 0
		for _, s := range sums {
			if len(s.Rets) != 2 || s.Rets[1].Kind == "nil" {
				continue
			}
			key := name + " | NotFound only from sql.ErrNoRows"
			isSt, isNF := isNotFoundCtor(s.Rets[1])
			scans := calls(s, "(*database/sql.Row).Scan")
			noRows := false
			for _, sc := range scans {
				g := mk("global", "database/sql.ErrNoRows", 0, nil)
				if k, v, _ := eqFact(s, sc.Res, g); k && v {
					noRows = true
				}
				for _, ie := range calls(s, cErrorsIs) {
					if len(ie.Args) == 2 && ie.Args[0] == sc.Res && ie.Args[1] == g {
						if k, v, _ := boolFact(s, ie.Res); k && v {
							noRows = true
						}
					}
				}
			}
			switch {
			case isSt && isNF:
				nNF++
				r.Check(noRows, rule, key, w.pos(s.RetPos), "a NotFound status is produced on a path that did not establish Scan's error to be sql.ErrNoRows: any read failure would then look like 'no previous checkpoint' and trigger trust-on-first-use; path: "+pathString(engFor(w, 4, 1), s))
			case isSt:
				r.Pass(rule, key, w.pos(s.RetPos), "")
			default:
				// a raw error: must not be dropped for the no-rows case
				r.Check(!noRows, rule, name+" | no-rows reported as NotFound", w.pos(s.RetPos), "sql.ErrNoRows is returned raw instead of a NotFound status (first use would never be possible)")
			}
		}
		if nNF == 0 {
			r.Fail(rule, name+" | NotFound path exists", "", "no path reports NotFound for an absent row (first use impossible)")
		}
	}
	if sums, _, ok := explore(w, r, rule, fnMemGet, 4, 1); ok {
		fn := w.fn(fnMemGet)
		read := mk("field", "read", 0, nil, recvParam(fn))
		for _, s := range sums {
			if len(s.Rets) != 2 {
				continue
			}
			key := fnMemGet + " | NotFound iff no snapshot"
			k, isNil, _ := nilFact(s, read)
			if s.Rets[1].Kind == "nil" {
				want := mk("field", "rawChkpt", 0, nil, read)
				r.Check(k && !isNil && s.Rets[0] == want, rule, key, w.pos(s.RetPos), "in-memory GetLatest returns "+short(s.Rets[0].String())+", want the snapshot's bytes under read != nil")
			} else {
				_, isNF := isNotFoundCtor(s.Rets[1])
				r.Check(k && isNil && isNF, rule, key, w.pos(s.RetPos), "in-memory GetLatest reports an error other than NotFound, or NotFound while a snapshot exists")
			}
		}
	}
}

// C07.e ADAPTER
func ruleAdapter(w *World, r *Run, rule string) {
	name := "(" + pOmni + ".witnessAdapter).GetLatestCheckpoint"
	sums, _, ok := exploreOpaque(w, r, rule, name, 4, 1, fnGetCheckpoint, fnUpdate)
	if !ok {
		return
	}
	notExist := mk("global", "os.ErrNotExist", 0, nil)
	nMap := 0
	for _, s := range sums {
		gc := calls(s, fnGetCheckpoint)
		if len(gc) != 1 || len(s.Rets) != 2 {
			r.Undecided(rule, name, w.pos(s.RetPos), "adapter does not call GetCheckpoint exactly once")
			continue
		}
		e := errRes(gc[0])
		key := name + " | os.ErrNotExist only under NotFound"
		k, isNil, _ := nilFact(s, e)
		kn, isNF, _ := notFoundFact(w, s, e)
		switch {
		case s.Rets[1] == notExist || (s.Rets[1].Kind == "global" && s.Rets[1].Name == "os.ErrNotExist"):
			nMap++
			// an affirmative NotFound status implies a non-nil error (status.Code(nil) is OK)
			r.Check(kn && isNF && s.Rets[0].Kind == "nil" && !(k && isNil), rule, key, w.pos(s.RetPos), "the adapter reports 'no checkpoint yet' on a path that did not establish a NotFound status: a storage failure would make the feeder start from scratch")
		case k && !isNil:
			r.Check(s.Rets[1] == e, rule, name+" | other errors passed through", w.pos(s.RetPos), "a failing read is not reported with its original error")
		case k && isNil:
			r.Check(s.Rets[0] == res(gc[0], 0) && (s.Rets[1] == e || s.Rets[1].Kind == "nil"), rule, name+" | success passes the bytes through", w.pos(s.RetPos), "adapter alters the checkpoint bytes")
		case s.Rets[0] == res(gc[0], 0) && s.Rets[1] == e:
			// both results handed on unchanged (after the NotFound test said no)
			r.Pass(rule, name+" | results passed through", w.pos(s.RetPos), "")
		default:
			r.Fail(rule, name+" | error checked", w.pos(s.RetPos), "adapter returns without examining GetCheckpoint's error")
		}
	}
	if nMap == 0 {
		r.Fail(rule, name+" | NotFound mapped", "", "no path maps NotFound to os.ErrNotExist: the feeder could never make its first submission")
	}
	// adapter Update passes through unchanged
	un := "(" + pOmni + ".witnessAdapter).Update"
	if sums, _, ok := exploreOpaque(w, r, rule, un, 4, 1, fnGetCheckpoint, fnUpdate); ok {
		fn := w.fn(un)
		for _, s := range sums {
			uc := calls(s, fnUpdate)
			good := len(uc) == 1 && len(uc[0].Args) == 5 && len(s.Rets) == 2 && s.Rets[0] == res(uc[0], 0) && s.Rets[1] == res(uc[0], 1)
			if good {
				for i := 0; i < 5; i++ {
					if uc[0].Args[i] != paramN(fn, i) {
						good = false
					}
				}
			}
			r.Check(good, rule, un+" | passes arguments and results through", w.pos(s.RetPos), "adapter Update alters arguments or results")
		}
	}
}

// ---------------------------------------------------------------- C05.b LOCKSET, C05.c CAS, C05.d SNAPSHOT-PAIRING

func ruleLockset(w *World, r *Run, rule string) {
	ck := w.structField(pInmem, "inMemoryPersistence", "checkpoints")
	if ck == nil {
		r.Undecided(rule, "inMemoryPersistence.checkpoints", "", "field not found")
		return
	}
	// functions of the package that touch the map directly
	touch := map[*ssa.Function]bool{}
	var pkgFns []*ssa.Function
	for _, fn := range w.prodFns() {
		if pkgPathOf(fn) != pInmem {
			continue
		}
		pkgFns = append(pkgFns, fn)
		for _, b := range fn.Blocks {
			for _, in := range b.Instrs {
				if fa, ok := in.(*ssa.FieldAddr); ok && fieldOfAddr(fa) == ck && !baseIsLocalAlloc(fa.X) {
					touch[fn] = true
				}
			}
		}
	}
	// static callers inside the module
	hasStaticCaller := map[*ssa.Function]bool{}
	for _, fn := range w.prodFns() {
		for _, b := range fn.Blocks {
			for _, in := range b.Instrs {
				if c, ok := in.(ssa.CallInstruction); ok {
					if sc := c.Common().StaticCallee(); sc != nil && sc != fn {
						if _, isClosure := c.Common().Value.(*ssa.MakeClosure); !isClosure {
							hasStaticCaller[sc] = true
						}
					}
				}
			}
		}
	}
	nAccess := 0
	for _, fn := range pkgFns {
		if fn.Synthetic != "" || (hasStaticCaller[fn] && fn.Parent() == nil && !ast_IsExported(fn.Name())) {
			continue // analysed through inlining in its callers
		}
		sums, _, ok := exploreFn(w, r, rule, fn, 4, 2)
		if !ok {
			continue
		}
		for _, s := range sums {
			held := "" // "", R, W
			var mu *Term
			for _, ev := range s.Events {
				switch {
				case ev.Kind == "call" && strings.HasPrefix(ev.Callee, "(*sync.RWMutex)."):
					op := strings.TrimPrefix(ev.Callee, "(*sync.RWMutex).")
					if !(ev.Recv != nil && ev.Recv.Kind == "faddr" && ev.Recv.Name == "mu") {
						continue
					}
					switch op {
					case "Lock":
						if held != "" {
							r.Fail(rule, funcNameOrSSA(fn)+" | no re-entrant locking", w.pos(ev.Pos), "Lock while the mutex is already held (self-deadlock)")
						}
						held, mu = "W", ev.Recv
					case "RLock":
						if held != "" {
							r.Fail(rule, funcNameOrSSA(fn)+" | no re-entrant locking", w.pos(ev.Pos), "RLock while the mutex is already held")
						}
						held, mu = "R", ev.Recv
					case "Unlock":
						r.Check(held == "W" && ev.Recv == mu, rule, funcNameOrSSA(fn)+" | Unlock pairs with Lock", w.pos(ev.Pos), "Unlock without a matching Lock on this path")
						held = ""
					case "RUnlock":
						r.Check(held == "R" && ev.Recv == mu, rule, funcNameOrSSA(fn)+" | RUnlock pairs with RLock", w.pos(ev.Pos), "RUnlock without a matching RLock on this path")
						held = ""
					}
				case (ev.Kind == "mapread" || ev.Kind == "mapupdate" || ev.Kind == "mapdelete") && ev.Recv != nil && ev.Recv.Kind == "field" && ev.Recv.Name == "checkpoints":
					nAccess++
					key := funcNameOrSSA(fn) + " | " + ev.Kind + " of the checkpoint map under the lock"
					sameBase := mu != nil && mu.Args[0] == ev.Recv.Args[0]
					if ev.Kind == "mapread" {
						r.Check(held != "" && sameBase, rule, key, w.pos(ev.Pos), "the checkpoint map is read without holding its mutex (data race with a concurrent writer)")
					} else {
						r.Check(held == "W" && sameBase, rule, key, w.pos(ev.Pos), "the checkpoint map is written while holding "+map[string]string{"": "no lock", "R": "only the read lock"}[held]+" (concurrent writers race; lost updates)")
					}
				}
			}
			if held != "" {
				r.Fail(rule, funcNameOrSSA(fn)+" | lock released on every exit", w.pos(s.RetPos), "path returns with the mutex still held")
			}
		}
	}
	if nAccess < 3 {
		r.Undecided(rule, "lockset", "", fmt.Sprintf("vacuity floor: only %d accesses to the checkpoint map seen", nAccess))
	}
}

func ast_IsExported(n string) bool { return n != "" && n[0] >= 'A' && n[0] <= 'Z' }

var snapshotEq = map[string]bool{"reflect.DeepEqual": true, "bytes.Equal": true}

func ruleCompareAndSet(w *World, r *Run, rule string) {
	sums, e, ok := explore(w, r, rule, fnMemExpect, 4, 1)
	if !ok {
		return
	}
	var expected *Term // the caller's snapshot pointer, learned from the found/equal path
	type upd struct {
		s  Summary
		ev Event
	}
	var ups []upd
	for _, s := range sums {
		for _, ev := range eventsOfKind(s, "mapupdate") {
			ups = append(ups, upd{s, ev})
		}
	}
	if len(ups) == 0 {
		r.Undecided(rule, fnMemExpect, "", "no map update found")
		return
	}
	// pass 1: learn the expected-old term from equality facts
	for _, u := range ups {
		for _, ce := range u.s.Events {
			if ce.Kind == "call" && snapshotEq[ce.Callee] && len(ce.Args) == 2 {
				for _, a0 := range ce.Args {
					if p := pointerParamIn(a0); p != nil {
						expected = p
					}
				}
			}
		}
	}
	for _, u := range ups {
		s, ev := u.s, u.ev
		key := fnMemExpect + " | map written only when the caller's snapshot equals the current value"
		// lookup inside the critical section with the same key
		var lk *Event
		lockSeq := 0
		for _, x := range s.Events {
			x := x
			if x.Kind == "call" && x.Callee == "(*sync.RWMutex).Lock" {
				lockSeq = x.Seq
			}
			if x.Kind == "mapread" && x.Recv == ev.Recv && len(x.Args) == 1 && x.Args[0] == ev.Args[0] && x.Seq < ev.Seq {
				lk = &x
			}
		}
		if lk == nil || lockSeq == 0 || lk.Seq < lockSeq {
			r.Fail(rule, key, w.pos(ev.Pos), "the map is written without re-reading the current value for the same key inside the same critical section")
			continue
		}
		okT := mk("lookup", "ok", 0, nil, ev.Recv, ev.Args[0])
		valT := mk("lookup", "val", 0, nil, ev.Recv, ev.Args[0])
		kf, found, _ := boolFact(s, okT)
		if !kf {
			r.Fail(rule, key, w.pos(ev.Pos), "the write does not depend on whether a current value exists")
			continue
		}
		if found {
			eq := false
			var exp *Term
			for _, ce := range calls(s, "reflect.DeepEqual", "bytes.Equal") {
				if len(ce.Args) != 2 || ce.Seq > ev.Seq {
					continue
				}
				if k, v, _ := boolFact(s, ce.Res); k && v {
					for i := 0; i < 2; i++ {
						if mentions(ce.Args[i], valT) && !mentions(ce.Args[1-i], valT) {
							exp = pointerParamIn(ce.Args[1-i])
							eq = exp != nil
						}
					}
				}
			}
			r.Check(eq && exp == expected, rule, key, w.pos(ev.Pos), "a current value exists but the write is not guarded by equality with the caller's snapshot (an update verified against a superseded state would be stored: lost update / regression); path: "+pathString(e, s))
		} else {
			good := false
			if expected != nil {
				if k, isNil, _ := nilFact(s, expected); k && isNil {
					good = true
				}
			}
			r.Check(good, rule, key, w.pos(ev.Pos), "no current value exists but the caller expected one (or the expectation is not tested): the write must be refused; path: "+pathString(e, s))
		}
	}
	// conflicting cases must return errors: paths where snapshot != current do not write (covered above by construction), and every non-writing path returns non-nil
	for _, s := range sums {
		if len(eventsOfKind(s, "mapupdate")) == 0 {
			r.Check(len(s.Rets) == 1 && s.Rets[0].Kind != "nil", rule, fnMemExpect+" | conflict reported as error", w.pos(s.RetPos), "a path that does not write reports success (lost accepted update)")
		}
	}
}

// pointerParamIn finds a pointer-typed parameter that t dereferences (deref(p) or a field read through p).
func pointerParamIn(t *Term) *Term {
	var out *Term
	anySub(t, func(x *Term) bool {
		if x.Kind == "param" && x.Typ != nil {
			if pt, ok := x.Typ.Underlying().(*types.Pointer); ok {
				// the snapshot pointer, not the store itself (the receiver owns a mutex)
				if st, ok := pt.Elem().Underlying().(*types.Struct); ok {
					for i := 0; i < st.NumFields(); i++ {
						if strings.Contains(st.Field(i).Type().String(), "sync.") {
							return false
						}
					}
				}
				out = x
			}
		}
		return false
	})
	return out
}

func ruleSnapshotPairing(w *World, r *Run, rule string) {
	// readWriter.Set passes rw.read as expected-old and stores exactly c
	if sums, _, ok := explore(w, r, rule, fnMemSet, 4, 1); ok {
		fn := w.fn(fnMemSet)
		recv := recvParam(fn)
		read := mk("field", "read", 0, nil, recv)
		write := mk("field", "write", 0, nil, recv)
		for _, s := range sums {
			var wc []Event
			for _, ev := range s.Events {
				if ev.Kind == "call" && ev.Callee == "dyn" && ev.Recv == write {
					wc = append(wc, ev)
				}
			}
			good := len(wc) == 1 && len(wc[0].Args) == 2 && wc[0].Args[0] == read && len(s.Rets) == 1 && s.Rets[0] == wc[0].Res
			if good {
				nv := wc[0].Args[1]
				good = nv.Kind == "structval" && len(nv.Args) == 1 && nv.Args[0].Name == "rawChkpt" && nv.Args[0].Args[0] == paramN(fn, 0)
			}
			r.Check(good, rule, fnMemSet+" | write(expected = the snapshot read at WriteOps, new = the bytes given)", w.pos(s.RetPos), "Set does not hand the handle's own snapshot and the given bytes to the compare-and-set, or drops its verdict")
		}
	}
	// WriteOps: snapshot taken under the lock for the requested log; write closure bound to the same log ID
	if sums, _, ok := explore(w, r, rule, fnMemWriteOps, 4, 1); ok {
		fn := w.fn(fnMemWriteOps)
		recv := recvParam(fn)
		logID := paramN(fn, 0)
		ck := mk("field", "checkpoints", 0, nil, recv)
		for _, s := range sums {
			if len(s.Rets) != 2 || s.Rets[0].Kind != "alloc" {
				r.Fail(rule, fnMemWriteOps+" | handle shape", w.pos(s.RetPos), "WriteOps does not return a freshly built handle")
				continue
			}
			h := s.Rets[0]
			rd, wr := memField(s, h, "read"), memField(s, h, "write")
			okT := mk("lookup", "ok", 0, nil, ck, logID)
			k, found, _ := boolFact(s, okT)
			key := fnMemWriteOps + " | snapshot = current value of the requested log"
			switch {
			case !k:
				r.Fail(rule, key, w.pos(s.RetPos), "handle built without looking the requested log up")
			case found:
				val := mk("lookup", "val", 0, nil, ck, logID)
				good := rd != nil && rd.Kind == "alloc" && s.Mem[rd.key] == val
				r.Check(good, rule, key, w.pos(s.RetPos), "the handle's snapshot is not a copy of checkpoints[logID]")
			default:
				r.Check(rd == nil || rd.Kind == "nil" || rd.Kind == "zero", rule, key, w.pos(s.RetPos), "log absent but the handle carries a snapshot")
			}
			// closure binding
			good := wr != nil && wr.Kind == "closure"
			if good {
				cfn := w.funcs[wr.Name]
				good = cfn != nil
				if good {
					// the closure must bind the requested logID (by cell) and the same persistence object
					boundLog, boundP := false, false
					for i, fv := range cfn.FreeVars {
						if i >= len(wr.Args) {
							break
						}
						b := wr.Args[i]
						if fv.Name() == "logID" || typeStr(fv.Type()) == "*string" {
							if b.Kind == "alloc" && s.Mem[b.key] == logID {
								boundLog = true
							}
						}
						if b.Kind == "alloc" && s.Mem[b.key] == recv {
							boundP = true
						}
					}
					good = boundLog && boundP
				}
			}
			r.Check(good, rule, fnMemWriteOps+" | write closure bound to the same store and log ID", w.pos(s.RetPos), "the handle's write function is not bound to this store and the requested log ID")
		}
	}
	// the closure itself: updates the key it was bound to, with the expected/new it was given
	if fn := w.fn(fnMemWriteOps); fn != nil {
		for _, cl := range fn.AnonFuncs {
			sums, _, ok := exploreFn(w, r, rule, cl, 4, 1)
			if !ok {
				continue
			}
			var logFV *Term
			for _, fv := range cl.FreeVars {
				if typeStr(fv.Type()) == "*string" {
					logFV = mk("deref", "", 0, nil, mk("freevar", fv.Name(), 0, fv.Type()))
				}
			}
			for _, s := range sums {
				for _, ev := range eventsOfKind(s, "mapupdate") {
					good := logFV != nil && ev.Args[0] == logFV && len(cl.Params) == 2 && ev.Args[1] == mk("param", cl.Params[1].Name(), 0, cl.Params[1].Type())
					r.Check(good, rule, cl.String()+" | writes (bound log ID -> the new state given)", w.pos(ev.Pos), "the write closure stores "+short(ev.Args[1].String())+" under "+short(ev.Args[0].String()))
				}
			}
		}
	}
}

// C05.f GLOBALS
func ruleGlobals(w *World, r *Run, rule string, pkgs []string) {
	inPkgs := map[string]bool{}
	for _, p := range pkgs {
		inPkgs[p] = true
	}
	n := 0
	for _, fn := range w.prodFns() {
		for _, b := range fn.Blocks {
			for _, in := range b.Instrs {
				st, ok := in.(*ssa.Store)
				if !ok {
					continue
				}
				g, ok := st.Addr.(*ssa.Global)
				if !ok || !inPkgs[g.Pkg.Pkg.Path()] || strings.HasPrefix(g.Name(), "init$") {
					continue
				}
				n++
				key := g.Pkg.Pkg.Path() + "." + g.Name() + " | assigned only at package init or inside sync.Once.Do"
				okInit := fn.Name() == "init" && fn.Synthetic != ""
				inOnce := w.inOnce(fn)
				r.Check(okInit || inOnce, rule, key, w.pos(st.Pos()), "package-level variable "+g.Name()+" is assigned in "+short(fn.String())+" (shared mutable state across requests/logs)")
			}
		}
	}
	if n == 0 {
		r.Undecided(rule, "globals", "", "no global assignments found (vacuous)")
	}
}

// C05.g NO-INPLACE-MUTATION: no store through a []byte that flows to Set or comes from GetLatest (Update and both stores).
func ruleNoInplace(w *World, r *Run, a *updAnalysis, rule string) {
	if !a.guard(r, rule) {
		return
	}
	bad := 0
	for _, v := range a.paths {
		for _, ev := range v.s.Events {
			if ev.Kind == "store" && ev.Recv != nil && ev.Recv.Kind == "indexaddr" {
				base := ev.Recv.Args[0]
				if (v.stored != nil && mentions(base, v.stored)) || mentions(base, a.pNext) || (base.Kind == "call" && base.Name == cSign) {
					bad++
					r.Fail(rule, a.key(v, "in-place write"), w.pos(ev.Pos), "bytes of a checkpoint are modified in place")
				}
			}
			if ev.Kind == "call" && ev.Callee == "builtin:copy" {
				bad++
				r.Fail(rule, a.key(v, "copy into checkpoint bytes"), w.pos(ev.Pos), "copy() used in Update")
			}
		}
	}
	if bad == 0 {
		r.Pass(rule, fnUpdate+" | no in-place mutation of checkpoint bytes", "", "")
	}
}

// C12.b STORAGE-KEYED
func ruleStorageKeyed(w *World, r *Run, rule string) {
	// SQL: statements bind the handle's logID to the key column
	for _, name := range []string{fnSQLWGet, fnSQLRGet} {
		sums, _, ok := explore(w, r, rule, name, 4, 1)
		if !ok {
			continue
		}
		fn := w.fn(name)
		lid := mk("field", "logID", 0, nil, recvParam(fn))
		n := 0
		for _, s := range sums {
			for _, ev := range s.Events {
				if ev.Kind == "call" && isSQLQuery(ev.Callee) {
					n++
					va := ev.Args[len(ev.Args)-1]
					good := va.Kind == "varargs" && len(va.Args) == 1 && va.Args[0] == lid
					r.Check(good, rule, name+" | query bound to the handle's log ID", w.pos(ev.Pos), "query arguments are "+short(va.String())+", want exactly the handle's log ID")
				}
			}
		}
		if n == 0 {
			r.Undecided(rule, name, "", "no query seen")
		}
	}
	if sums, _, ok := explore(w, r, rule, fnSQLReadOps, 4, 1); ok {
		fn := w.fn(fnSQLReadOps)
		for _, s := range sums {
			h := s.Rets[0]
			good := h.Kind == "alloc" && memField(s, h, "logID") == paramN(fn, 0) && memField(s, h, "db") == mk("field", "db", 0, nil, recvParam(fn))
			r.Check(good, rule, fnSQLReadOps+" | reader bound to the requested log ID", w.pos(s.RetPos), "ReadOps builds a reader for a different log or database")
		}
	}
	// in-memory: ReadOps snapshot is checkpoints[logID]
	if sums, _, ok := explore(w, r, rule, fnMemReadOps, 4, 1); ok {
		fn := w.fn(fnMemReadOps)
		ck := mk("field", "checkpoints", 0, nil, recvParam(fn))
		logID := paramN(fn, 0)
		for _, s := range sums {
			h := s.Rets[0]
			rd := memField(s, h, "read")
			k, found, _ := boolFact(s, mk("lookup", "ok", 0, nil, ck, logID))
			good := k
			if k && found {
				good = rd != nil && rd.Kind == "alloc" && s.Mem[rd.key] == mk("lookup", "val", 0, nil, ck, logID)
			} else if k {
				good = rd == nil || rd.Kind == "nil" || rd.Kind == "zero"
			}
			r.Check(good, rule, fnMemReadOps+" | snapshot of the requested log", w.pos(s.RetPos), "ReadOps hands out the state of a different log")
		}
	}
}

package main

import (
	"fmt"
	"go/types"
	"strings"
)

// Term is an uninterpreted, hash-consed symbolic value.
type Term struct {
	Kind string // param freevar const nil global gaddr field faddr call lookup binop unop len alloc cell varargs closure unknown range conv index slice zero tuple typeassert append
	Name string
	Args []*Term
	Idx  int
	Typ  types.Type
	key  string
}

var interned = map[string]*Term{}

var typeKeys = map[types.Type]string{}

// typeKey: types.TypeString is expensive and parameters are interned over and over.
func typeKey(t types.Type) string {
	if k, ok := typeKeys[t]; ok {
		return k
	}
	k := types.TypeString(t, nil)
	typeKeys[t] = k
	return k
}

func mk(kind, name string, idx int, typ types.Type, args ...*Term) *Term {
	// x.F read through a copy of *p and through p itself are the same place: one canonical form, field F (p)
	if kind == "field" && len(args) == 1 && args[0] != nil && args[0].Kind == "deref" && args[0].Name == "" && args[0].Idx == 0 && len(args[0].Args) == 1 && args[0].Args[0] != nil && args[0].Args[0].Kind == "call" {
		args = []*Term{args[0].Args[0]}
	}
	var sb strings.Builder
	sb.WriteString(kind)
	sb.WriteByte(':')
	sb.WriteString(name)
	if kind == "const" {
		// constants of different kinds must not be identified ("2" as float64 vs int)
		sb.WriteByte('~')
		sb.WriteByte(constClass(name, typ))
	}
	if (kind == "param" || kind == "freevar") && typ != nil {
		// parameters of different functions may share a name: keep them apart by type
		sb.WriteByte('~')
		sb.WriteString(typeKey(typ))
	}
	if idx != 0 {
		fmt.Fprintf(&sb, "#%d", idx)
	}
	if len(args) > 0 {
		sb.WriteByte('(')
		for i, a := range args {
			if i > 0 {
				sb.WriteByte(',')
			}
			if a == nil {
				sb.WriteString("<nil>")
			} else {
				sb.WriteString(a.key)
			}
		}
		sb.WriteByte(')')
	}
	k := sb.String()
	if t, ok := interned[k]; ok {
		if t.Typ == nil && typ != nil {
			t.Typ = typ // a rule may have built the term before the engine saw its type
		}
		return t
	}
	t := &Term{Kind: kind, Name: name, Args: args, Idx: idx, Typ: typ, key: k}
	interned[k] = t
	return t
}

func (t *Term) String() string {
	if t == nil {
		return "<nil>"
	}
	switch t.Kind {
	case "param":
		return t.Name
	case "freevar":
		return "fv." + t.Name
	case "const":
		return t.Name
	case "nil":
		return "nil"
	case "global":
		return t.Name
	case "gaddr":
		return "&" + t.Name
	case "field":
		return t.Args[0].String() + "." + t.Name
	case "faddr":
		return "&" + t.Args[0].String() + "." + t.Name
	case "call":
		s := t.Name + "@" + fmt.Sprint(t.Args[0])
		if t.Idx > 0 {
			s += fmt.Sprintf("#%d", t.Idx-1)
		}
		return s
	case "site":
		return t.Name
	case "lookup":
		return fmt.Sprintf("%s[%s].%s", t.Args[0], t.Args[1], t.Name)
	case "binop":
		return fmt.Sprintf("(%s %s %s)", t.Args[0], t.Name, t.Args[1])
	case "unop":
		return fmt.Sprintf("%s%s", t.Name, t.Args[0])
	case "len":
		return fmt.Sprintf("len(%s)", t.Args[0])
	case "varargs":
		var ss []string
		for _, a := range t.Args {
			ss = append(ss, a.String())
		}
		return "[" + strings.Join(ss, ", ") + "]"
	case "conv":
		return fmt.Sprintf("%s(%s)", t.Name, t.Args[0])
	case "extract":
		return fmt.Sprintf("%s#%d", t.Args[0], t.Idx-1)
	}
	var ss []string
	for _, a := range t.Args {
		ss = append(ss, a.String())
	}
	s := t.Kind + ":" + t.Name
	if t.Idx != 0 {
		s += fmt.Sprintf("#%d", t.Idx)
	}
	if len(ss) > 0 {
		s += "(" + strings.Join(ss, ", ") + ")"
	}
	return s
}

func isConst(t *Term) bool { return t != nil && (t.Kind == "const" || t.Kind == "nil") }

// subterms reports whether pred holds for t or any of its sub-terms.
func anySub(t *Term, pred func(*Term) bool) bool {
	if t == nil {
		return false
	}
	if pred(t) {
		return true
	}
	for _, a := range t.Args {
		if anySub(a, pred) {
			return true
		}
	}
	return false
}

// mentions reports whether needle occurs inside t.
func mentions(t, needle *Term) bool {
	return anySub(t, func(x *Term) bool { return x == needle })
}

func constClass(name string, typ types.Type) byte {
	if typ != nil {
		if b, ok := typ.Underlying().(*types.Basic); ok {
			switch {
			case b.Info()&types.IsInteger != 0:
				return 'i'
			case b.Info()&types.IsFloat != 0, b.Info()&types.IsComplex != 0:
				return 'f'
			case b.Info()&types.IsString != 0:
				return 's'
			case b.Info()&types.IsBoolean != 0:
				return 'b'
			}
		}
		return 'o'
	}
	switch {
	case name == "true" || name == "false":
		return 'b'
	case strings.HasPrefix(name, "\""):
		return 's'
	case strings.ContainsAny(name, "./"):
		return 'f'
	}
	return 'i'
}

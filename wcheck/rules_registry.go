package main

// The feeder registry decided by evaluation: ParseFeeder and FeedFunc are run symbolically on each concrete candidate value
// (every short string constant of the package; every constant of the Feeder enum), so that the result does not depend on how
// the registry is written (map literal, switch, array indexed by the enum, name constants).

import (
	"go/constant"
	"go/types"
	"regexp"
	"sort"
	"strconv"

	"golang.org/x/tools/go/ssa"
)

type feederReg struct {
	consts  map[string]string // enum value -> constant name
	noneVal string
	byName  map[string]string // yaml name -> enum value
	impl    map[string]*Term  // enum value -> function FeedFunc returns for it (nil: it panics)
	err     string
}

var feederRegCache = map[*World]*feederReg{}

var feederNameRE = regexp.MustCompile(`^[a-z0-9_-]{1,32}$`)

func feederRegistry(w *World) *feederReg {
	if fr, ok := feederRegCache[w]; ok {
		return fr
	}
	fr := &feederReg{consts: map[string]string{}, byName: map[string]string{}, impl: map[string]*Term{}}
	feederRegCache[w] = fr
	ft := w.lookup(pOmni, "Feeder")
	pf, ff := w.fn(fnParseFeeder), w.fn(fnFeedFunc)
	if ft == nil || pf == nil || ff == nil || w.pkg(pOmni) == nil {
		fr.err = "omniwitness.Feeder, ParseFeeder or FeedFunc not found"
		return fr
	}
	scope := w.pkg(pOmni).Types.Scope()
	for _, n := range scope.Names() {
		if c, ok := scope.Lookup(n).(*types.Const); ok && types.Identical(c.Type(), ft.Type()) {
			fr.consts[c.Val().ExactString()] = n
			if n == "None" {
				fr.noneVal = c.Val().ExactString()
			}
		}
	}
	// candidate names: every short lower-case string constant in the package's code and initialisers
	cands := map[string]bool{}
	for _, fn := range w.modFns {
		if pkgPathOf(fn) != pOmni || isCanary(fn) {
			continue
		}
		for _, b := range fn.Blocks {
			for _, in := range b.Instrs {
				for _, op := range in.Operands(nil) {
					if c, ok := (*op).(*ssa.Const); ok && c.Value != nil && c.Value.Kind() == constant.String {
						if s := constant.StringVal(c.Value); feederNameRE.MatchString(s) {
							cands[s] = true
						}
					}
				}
			}
		}
	}
	for _, n := range scope.Names() {
		if c, ok := scope.Lookup(n).(*types.Const); ok && c.Val().Kind() == constant.String {
			if s := constant.StringVal(c.Val()); feederNameRE.MatchString(s) {
				cands[s] = true
			}
		}
	}
	var names []string
	for c := range cands {
		names = append(names, c)
	}
	sort.Strings(names)
	if len(pf.Params) != 1 {
		fr.err = "ParseFeeder does not take a single name"
		return fr
	}
	pTerm := mk("param", pf.Params[0].Name(), 0, pf.Params[0].Type())
	for _, name := range names {
		e := w.engine(4, 16) // evaluation on a constant: loops over literal tables are decided, the bound only caps them
		e.bind = map[string]*Term{pTerm.key: mk("const", strconv.Quote(name), 0, pf.Params[0].Type())}
		var val string
		n := 0
		for _, s := range e.Explore(pf) {
			if s.Panic || s.Trunc != "" || len(s.Rets) != 2 {
				continue
			}
			n++
			if s.Rets[1].Kind == "nil" && s.Rets[0].Kind == "const" {
				val = s.Rets[0].Name
			} else {
				val = ""
			}
		}
		if n == 1 && val != "" {
			if _, known := fr.consts[val]; known {
				fr.byName[name] = val
			}
		}
	}
	// implementations: FeedFunc evaluated on each enum constant
	recv := recvParam(ff)
	if recv == nil {
		fr.err = "FeedFunc has no receiver"
		return fr
	}
	for v := range fr.consts {
		e := w.engine(4, 16) // evaluation on a constant: loops over literal tables are decided, the bound only caps them
		e.bind = map[string]*Term{recv.key: mk("const", v, 0, recv.Typ)}
		var got *Term
		n := 0
		for _, s := range e.Explore(ff) {
			if s.Trunc != "" {
				continue
			}
			n++
			if !s.Panic && len(s.Rets) == 1 {
				got = s.Rets[0]
			}
		}
		if n == 1 && got != nil && (got.Kind == "func" || got.Kind == "closure") {
			fr.impl[v] = got
		}
	}
	return fr
}

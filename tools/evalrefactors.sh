#!/bin/bash
# runs all checks on behaviour-preserving refactorings: any alarm is a false alarm to investigate
for d in ${1:-/tmp/mut/rfout}/RF*/[0-9]*; do
  [ -f $d/patch.diff ] || continue
  id=$(basename $(dirname $d)); n=$(basename $d)
  if ! git -C /repo diff --quiet; then echo "/repo dirty"; exit 2; fi
  if ! git -C /repo apply --check $d/patch.diff 2>/dev/null; then echo "$id/$n: PATCH DOES NOT APPLY"; continue; fi
  git -C /repo apply $d/patch.diff
  tmp=$(mktemp -d)
  out=$(bin/wcheck -prop all -tier quick -evdir $tmp 2>&1)
  git -C /repo checkout -- . ; git -C /repo clean -fdq
  rm -rf $tmp
  rules=$(echo "$out" | grep -E ": rule " | sed -E 's/.*: rule ([A-Za-z0-9.]+) (violation|undecided).*/\1:\2/' | sort | uniq -c | tr '\n' ' ')
  if [ -z "$rules" ]; then echo "$id/$n: silent"; else echo "$id/$n: ALARM $rules"; fi
done

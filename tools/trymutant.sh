#!/bin/bash
# usage: tools/trymutant.sh <patch.diff> [props...]   — applies a scratch change to /repo, runs the checks with evidence
# redirected to a temp dir (the committed evidence is not touched), and undoes the change straight afterwards.
set -u
patch=$(readlink -f "$1"); shift
props=${*:-all}
cd /verif
if ! git -C /repo diff --quiet; then echo "/repo has uncommitted changes; refusing"; exit 2; fi
tmp=$(mktemp -d)
trap 'git -C /repo reset -q --hard HEAD; git -C /repo clean -fdq; rm -rf "$tmp"' EXIT
# patches may have been written against an earlier HEAD of /repo: fall back to reduced context, then to a 3-way merge
git -C /repo apply "$patch" 2>/dev/null || git -C /repo apply -C1 "$patch" 2>/dev/null || git -C /repo apply --3way "$patch" 2>/dev/null
if git -C /repo diff --quiet && git -C /repo diff --cached --quiet; then echo "patch does not apply"; exit 2; fi
if git -C /repo diff --name-only --diff-filter=U | grep -q .; then echo "patch conflicts with a later commit of /repo"; exit 2; fi
for p in $props; do
  bin/wcheck -prop "$p" -tier quick -evdir "$tmp" 2>&1 | grep -E "violation|undecided|VIOLATION|KNOWN" | cut -c1-${CUT:-260}
done

#!/usr/bin/env python3
"""Prints the DESIGN.md table rows for one round of seeded changes: seeded_table.py r5"""
import json, glob, sys, os
rnd = sys.argv[1]
print('| id | change | own rules that fire | other properties alarmed |\n|---|---|---|---|')
for d in sorted(glob.glob('/verif/seeded/C*-%s-*' % rnd)):
    m = json.load(open(d + '/meta.json'))
    c = m.get('checks', {})
    own = ', '.join(c.get('own_property_rules_fired', [])) or '—'
    oth = ', '.join(p for p in c.get('failing_properties', []) if p != m['property']) or '—'
    summ = (m.get('summary') or '').replace('\n', ' ').replace('|', '/')
    if len(summ) > 210:
        summ = summ[:210] + '…'
    print('| `%s` | %s | %s | %s |' % (os.path.basename(d), summ, own, oth))

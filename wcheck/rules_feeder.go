package main

// C13: the feeder only asks the witness for a justified step.
// FeedOnce is explored with submitToWitness inlined and backoff.Retry modelled as one synchronous run of its
// function argument, so the rules see real bindings (FeedOnce's own ctx and opts) however the retry body is
// packaged (closure, method value, named function).

import (
	"fmt"
	"go/types"
)

const (
	fnFeedOnce = pFeeder + ".FeedOnce"
	fnSubmit   = pFeeder + ".submitToWitness"
	fnRun      = pFeeder + ".Run"
	cRetry     = "github.com/cenkalti/backoff/v4.Retry"
	cWithCtx   = "github.com/cenkalti/backoff/v4.WithContext"
	cPermanent = "github.com/cenkalti/backoff/v4.Permanent"
)

func ruleFeeder(w *World, r *Run) {
	fn := w.fn(fnFeedOnce)
	if fn == nil {
		r.Undecided("C13.a", fnFeedOnce, "", "anchor not found")
		return
	}
	e := w.engine(8, 1)
	e.hof[cRetry] = 0
	sums := e.Explore(fn)
	r.Analysed(fnFeedOnce+" (retry body inlined)", len(sums))
	for _, s := range sums {
		if s.Trunc != "" {
			r.Undecided("C13.a", fnFeedOnce, "", "path enumeration truncated: "+s.Trunc)
			return
		}
	}
	ctx, opts := paramN(fn, 0), paramN(fn, 1)
	of := func(n string) *Term { return mk("field", n, 0, nil, opts) }
	wit, logID, origin, sigv := of("Witness"), of("LogID"), of("LogOrigin"), of("LogSigVerifier")
	notExist := mk("global", "os.ErrNotExist", 0, nil)
	zeroI := mk("const", "0", 0, types.Typ[types.Int])
	nUpd, nAhead, nOK, nSub, nFirst := 0, 0, 0, 0, 0
	for _, s := range sums {
		// the checkpoint fetched in this cycle
		var fc *Event
		for i := range s.Events {
			ev := s.Events[i]
			if ev.Kind == "call" && ev.Callee == "dyn" && ev.Recv == of("FetchCheckpoint") {
				fc = &s.Events[i]
			}
		}
		success := len(s.Rets) == 2 && s.Rets[1].Kind == "nil"
		rt := calls(s, cRetry)
		if fc == nil || len(rt) == 0 {
			// nothing was submitted on this path
			r.Check(!success && len(calls(s, cFeederUpdate)) == 0, "C13.e", fnFeedOnce+" | success only after a submission", w.pos(s.RetPos), "FeedOnce reports success (or updates the witness) without going through the retrying submission")
			continue
		}
		nSub++
		cpRaw := res(*fc, 0)
		// ---- C13.a VERIFY-BEFORE-SUBMIT
		var pSub *Event
		for _, pe := range calls(s, cParse) {
			pe := pe
			if pe.Seq < rt[0].Seq && len(pe.Args) == 4 && pe.Args[0] == cpRaw && okBefore(s, pe, rt[0].Seq) {
				pSub = &pe
			}
		}
		good := pSub != nil && pSub.Args[1] == origin && pSub.Args[2] == sigv && (pSub.Args[3].Kind == "nil" || len(pSub.Args[3].Args) == 0) && okBefore(s, *fc, rt[0].Seq)
		r.Check(good, "C13.a", fnFeedOnce+" | submits only bytes that verified under the log's key and origin", w.pos(rt[0].Pos), "the retrying submission starts on a path where the fetched bytes were not successfully parsed under opts.LogOrigin/opts.LogSigVerifier; path: "+pathString(e, s))
		if pSub == nil {
			continue
		}
		subT := mk("deref", "", 0, nil, res(*pSub, 0))
		subSize := mk("field", "Size", 0, nil, subT)
		subHash := mk("field", "Hash", 0, nil, subT)
		// ---- C13.d RETRY-TO-CONTEXT
		wc := calls(s, cWithCtx)
		good = len(rt) == 1 && len(wc) == 1 && len(wc[0].Args) == 2 && wc[0].Args[1] == ctx && rt[0].Args[1] == wc[0].Res
		r.Check(good, "C13.d", fnFeedOnce+" | retry bound to the caller's context", w.pos(rt[0].Pos), "backoff.Retry is not driven by backoff.WithContext(…, ctx) of the caller's context: the feeder would not stop when its context ends")
		// the value one attempt returned
		var opRet *Term
		for _, ev := range s.Events {
			if ev.Kind == "hofret" && ev.Callee == cRetry && len(ev.Args) == 1 {
				opRet = ev.Args[0]
			}
		}
		if opRet == nil {
			r.Undecided("C13.b", fnFeedOnce+" | retry body", w.pos(rt[0].Pos), "the function handed to backoff.Retry could not be resolved and inlined")
			continue
		}
		var after []Event // events of the attempt
		for _, ev := range s.Events {
			if ev.Seq > rt[0].Seq {
				after = append(after, ev)
			}
		}
		att := Summary{Events: after, Facts: s.Facts, Rets: s.Rets}
		gl := calls(att, cFeederGetLatest)
		// the feed's context has ended (ctx.Err() found non-nil on the path): the attempt may stop where it is, for good
		ctxEnded := false
		for _, ce := range calls(s, "(context.Context).Err") {
			if ce.Recv == ctx {
				if k, isNil, _ := nilFact(s, ce.Res); k && !isNil {
					ctxEnded = true
				}
			}
		}
		if ctxEnded && len(calls(att, cFeederUpdate)) == 0 {
			r.Pass("C13.c", fnFeedOnce+" | an attempt cut short by the end of its context submits nothing", w.pos(rt[0].Pos), "")
			continue
		}
		if len(gl) != 1 || gl[0].Recv != wit || len(gl[0].Args) != 2 || gl[0].Args[0] != ctx || gl[0].Args[1] != logID {
			r.Fail("C13.b", fnFeedOnce+" | each attempt first asks the witness for its latest checkpoint of this log", w.pos(rt[0].Pos), "attempt does not start with Witness.GetLatestCheckpoint(ctx, opts.LogID)")
			continue
		}
		g := gl[0]
		latestRaw := res(g, 0)
		var pc *Event
		for _, pe := range calls(att, cParse) {
			pe := pe
			if len(pe.Args) == 4 && pe.Args[0] == latestRaw {
				pc = &pe
			}
		}
		var latest *Term
		hasLatest := false
		if pc != nil && okBefore(s, *pc, 0) {
			hasLatest = true
			latest = mk("deref", "", 0, nil, res(*pc, 0))
			okp := pc.Args[1] == origin && pc.Args[2] == sigv && (pc.Args[3].Kind == "nil" || len(pc.Args[3].Args) == 0)
			r.Check(okp, "C13.b", fnFeedOnce+" | witness's latest verified under the log's origin and key", w.pos(pc.Pos), "the witness's checkpoint is parsed with "+short(fmt.Sprint(pc.Args[1:])))
		}
		upds := calls(att, cFeederUpdate)
		if len(upds) == 0 {
			switch {
			case opRet.Kind == "call" && opRet.Name == cPermanent:
				nAhead++
				ahead := hasLatest && implies(s.Facts, "<", subSize, mk("field", "Size", 0, nil, latest), true)
				r.Check(ahead, "C13.c", fnFeedOnce+" | permanent error only when the witness is ahead", w.pos(g.Pos), "a permanent (non-retried) error is returned on a path that did not establish witness size > log size; path: "+pathString(e, s))
			case opRet.Kind == "nil":
				r.Fail("C13.e", fnFeedOnce+" | attempt succeeds only after Update", w.pos(g.Pos), "an attempt reports success without having submitted anything; path: "+pathString(e, s))
			default:
				r.Check(neverNil(opRet), "C13.d", fnFeedOnce+" | transient failure is a plain retryable error", w.pos(g.Pos), "failure path of the attempt returns "+short(opRet.String()))
			}
			r.Check(!success, "C13.e", fnFeedOnce+" | no success without Update", w.pos(s.RetPos), "FeedOnce succeeds although no Update was made")
			continue
		}
		if len(upds) != 1 {
			r.Fail("C13.b", fnFeedOnce+" | one Update per attempt", w.pos(s.RetPos), "more than one Update in a single attempt")
			continue
		}
		nUpd++
		if !hasLatest {
			nFirst++
		}
		u := upds[0]
		// ---- C13.f: proceeding without a latest checkpoint only on nil error or 'does not exist'
		kE, eNil, _ := nilFact(s, res(g, 1))
		proceedOK := kE && eNil
		for _, ie := range calls(att, cErrorsIs) {
			if len(ie.Args) == 2 && ie.Args[0] == res(g, 1) && ie.Args[1] == notExist {
				if k, v, _ := boolFact(s, ie.Res); k && v {
					proceedOK = true
				}
			}
		}
		if k, v, _ := eqFact(s, res(g, 1), notExist); k && v {
			proceedOK = true
		}
		r.Check(proceedOK, "C13.f", fnFeedOnce+" | proceeds without a latest checkpoint only on 'does not exist'", w.pos(u.Pos), "Update is reached although GetLatestCheckpoint failed with something other than os.ErrNotExist (a transient witness failure would be treated as first use); path: "+pathString(e, s))
		if !hasLatest {
			ln := mk("len", "", 0, types.Typ[types.Int], latestRaw)
			emp := implies(s.Facts, "<", zeroI, ln, false)
			r.Check(emp, "C13.b", fnFeedOnce+" | latest ignored only when empty", w.pos(u.Pos), "Update is reached with a non-empty latest checkpoint that was not parsed/verified")
		}
		// ---- C13.b ANCHORED-ARGS
		keyU := fnFeedOnce + " | Update(ctx, log ID, size of the witness's latest, fetched checkpoint, proof from latest to it)"
		if len(u.Args) != 5 || u.Recv != wit {
			r.Fail("C13.b", keyU, w.pos(u.Pos), "unexpected Update call shape")
			continue
		}
		var wantOld *Term
		if hasLatest {
			wantOld = mk("field", "Size", 0, nil, latest)
		}
		oldOK := (hasLatest && u.Args[2] == wantOld) || (!hasLatest && (u.Args[2].Kind == "zero" || (u.Args[2].Kind == "const" && u.Args[2].Name == "0")))
		argsOK := u.Args[0] == ctx && u.Args[1] == logID && oldOK && u.Args[3] == cpRaw
		if !argsOK {
			r.Fail("C13.b", keyU, w.pos(u.Pos), "Update is called with ("+short(fmt.Sprint(u.Args))+"): old size must be the size of the latest checkpoint the witness reported in this attempt (0 if none) and the checkpoint must be the bytes fetched and verified in this cycle; path: "+pathString(e, s))
			continue
		}
		proof := u.Args[4]
		var fp *Event
		for i := range after {
			ev := after[i]
			if ev.Kind == "call" && ev.Callee == "dyn" && ev.Recv == of("FetchProof") {
				fp = &after[i]
			}
		}
		switch {
		case fp != nil && proof == res(*fp, 0):
			fromOK := len(fp.Args) == 3 && fp.Args[0] == ctx && fp.Args[2] == subT && ((hasLatest && fp.Args[1] == latest) || (!hasLatest && (fp.Args[1].Kind == "zero" || fp.Args[1].Kind == "structval")))
			r.Check(fromOK && okBefore(s, *fp, u.Seq), "C13.b", fnFeedOnce+" | proof requested from exactly the witness's latest to the submitted checkpoint", w.pos(fp.Pos), "FetchProof is called with ("+short(fmt.Sprint(fp.Args))+") or its error is unchecked")
		case (proof.Kind == "varargs" && len(proof.Args) == 0) || proof.Kind == "nil" || proof.Kind == "alloc":
			eqSize := hasLatest && implies(s.Facts, "==", mk("field", "Size", 0, nil, latest), subSize, true)
			eqRoot := false
			for _, be := range calls(att, cBytesEq) {
				if k, v, _ := boolFact(s, be.Res); k && v && len(be.Args) == 2 && hasLatest {
					lh := mk("field", "Hash", 0, nil, latest)
					if (be.Args[0] == lh && be.Args[1] == subHash) || (be.Args[1] == lh && be.Args[0] == subHash) {
						eqRoot = true
					}
				}
			}
			r.Check(eqSize && eqRoot, "C13.b", fnFeedOnce+" | empty proof only for an identical checkpoint", w.pos(u.Pos), "an empty proof is submitted on a path that did not establish equal sizes and equal roots; path: "+pathString(e, s))
		default:
			r.Fail("C13.b", fnFeedOnce+" | proof provenance", w.pos(u.Pos), "proof argument "+short(proof.String())+" is neither FetchProof's result nor the empty proof")
		}
		// ---- C13.c NEVER-WHEN-AHEAD
		if hasLatest {
			notAhead := implies(s.Facts, "<", subSize, mk("field", "Size", 0, nil, latest), false)
			r.Check(notAhead, "C13.c", fnFeedOnce+" | never submits when the witness is ahead", w.pos(u.Pos), "Update is reachable although the witness's size may exceed the submitted size; path: "+pathString(e, s))
		}
		// ---- C13.d/e: attempt result and FeedOnce's result
		if opRet.Kind == "nil" {
			r.Check(okBefore(s, u, 0), "C13.e", fnFeedOnce+" | attempt succeeds only when Update was accepted", w.pos(u.Pos), "an attempt reports success without Update's error being nil")
		} else {
			r.Check(neverNil(opRet) && failed(s, u) && !(opRet.Kind == "call" && opRet.Name == cPermanent), "C13.d", fnFeedOnce+" | failed Update is retried", w.pos(u.Pos), "a failed Update is reported as "+short(opRet.String()))
		}
		if success {
			nOK++
			r.Check(s.Rets[0] == res(u, 0) && okBefore(s, u, 0), "C13.e", fnFeedOnce+" | returns the cosigned checkpoint the witness returned", w.pos(s.RetPos), "FeedOnce's success value is "+short(s.Rets[0].String())+", not what Update returned")
		}
	}
	// a witness that holds nothing for the log yet (os.ErrNotExist, no bytes) can be fed: some attempt reaches Update without a
	// parsed latest checkpoint. Without such a path the first checkpoint of a log is never submitted.
	if nUpd > 0 {
		r.Check(nFirst > 0, "C13.b", fnFeedOnce+" | a witness holding nothing for the log can be fed", "", "no attempt reaches Update on a path where the witness reported no checkpoint: the empty answer is parsed (and refused) like a checkpoint, so a log the witness has never seen is never submitted")
	}
	if nSub == 0 || nUpd < 2 || nAhead < 1 || nOK < 1 {
		r.Undecided("C13.b", fnFeedOnce+" | anchors", "", fmt.Sprintf("vacuity floor: %d submitting paths, %d update paths, %d ahead paths, %d success paths", nSub, nUpd, nAhead, nOK))
	}
}

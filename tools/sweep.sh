#!/bin/bash
# usage: tools/sweep.sh <jobs> <mode: mut|rf> <dir>...   — evaluates every <dir>/*/<n>/patch.diff in parallel, each in its own
# scratch worktree of /repo HEAD (bin/wcheck -repo), never touching /repo's working tree. One line per patch on stdout.
# mut: own property + all properties (a mutant must be reported by its own property); rf: all properties (must be silent).
jobs=$1; mode=$2; shift 2
one() {
  mode=$1; d=$2
  id=$(basename $(dirname $d)); n=$(basename $d); camp=$(basename $(dirname $(dirname $d)))
  wt=$(mktemp -d /tmp/sweepwt.XXXXXX); rmdir $wt
  git -C /repo worktree add -q --detach $wt HEAD 2>/dev/null || { echo "$camp/$id/$n: WORKTREE FAILED"; return; }
  tmp=$(mktemp -d)
  ok=1
  git -C $wt apply $d/patch.diff 2>/dev/null || git -C $wt apply -C1 $d/patch.diff 2>/dev/null || git -C $wt apply --3way $d/patch.diff 2>/dev/null || ok=0
  if [ $ok = 1 ] && git -C $wt diff --name-only --diff-filter=U | grep -q .; then ok=0; fi
  if [ $ok = 0 ]; then echo "$camp/$id/$n: PATCH DOES NOT APPLY"
  else
    out=$(/verif/bin/wcheck -repo $wt -prop all -tier quick -evdir $tmp 2>&1)
    rules=$(echo "$out" | grep -E ": rule " | sed -E 's/.*: rule ([A-Za-z0-9.]+) (violation|undecided).*/\1:\2/' | sort | uniq -c | tr '\n' ' ')
    props=$(echo "$out" | grep -E "^VIOLATION" | sed -E 's/VIOLATION property=(C[0-9]+).*/\1/' | tr '\n' ' ')
    if [ $mode = rf ]; then
      if [ -z "$rules" ] && [ -z "$props" ]; then echo "$camp/$id/$n: silent"; else echo "$camp/$id/$n: ALARM $rules [$props]"; fi
    else
      own=$(echo "$rules" | tr ' ' '\n' | grep -E "^$id\." | tr '\n' ' ')
      case " $props " in *" $id "*) v=detected;; *) v=MISSED;; esac
      echo "$camp/$id/$n: $v own=[${own}] failing_props=[${props}]"
    fi
  fi
  git -C /repo worktree remove --force $wt 2>/dev/null; rm -rf $tmp $wt
}
export -f one
for dir in "$@"; do ls -d $dir/*/[0-9]* 2>/dev/null; done | while read d; do [ -f $d/patch.diff ] && echo $d; done | xargs -P $jobs -I{} bash -c "one $mode {}"
git -C /repo worktree prune

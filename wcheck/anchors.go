package main

// Anchors by role. The rules name a handful of unexported functions (the bastion connection loop, the certificate helper,
// the body writer of cmd/feedbastion, the in-process adapter, the proof codec). When a function is renamed or moved, the
// name no longer resolves; each such anchor therefore also has a *role*: a description in terms of types, interfaces and
// callees from which the function is found again. A function found by role is registered under the anchor's canonical
// name, and the engine reports calls to it under that name (nameAlias), so every rule keeps working unchanged.

import (
	"fmt"
	"go/types"
	"os"
	"strings"

	"golang.org/x/tools/go/ssa"
)

// nameAlias: actual function name -> canonical anchor name (filled by resolveAnchors).
var nameAlias = map[string]string{}

func callsNamed(fn *ssa.Function, names ...string) bool {
	for _, b := range fn.Blocks {
		for _, in := range b.Instrs {
			c, ok := in.(ssa.CallInstruction)
			if !ok {
				continue
			}
			n := ssaCallName(c.Common())
			for _, want := range names {
				if n == want {
					return true
				}
			}
		}
	}
	for _, a := range fn.AnonFuncs {
		if callsNamed(a, names...) {
			return true
		}
	}
	return false
}

// reachesCallee: fn calls one of the named functions, directly or through module functions it calls statically (a helper on
// the way from a feeder's FeedLog to feeder.Run must be followed, not summarised).
func reachesCallee(fn *ssa.Function, depth int, names ...string) bool {
	if depth > 4 {
		return false
	}
	hit := false
	var walk func(f *ssa.Function)
	walk = func(f *ssa.Function) {
		for _, b := range f.Blocks {
			for _, in := range b.Instrs {
				c, ok := in.(ssa.CallInstruction)
				if !ok || hit {
					continue
				}
				n := ssaCallName(c.Common())
				for _, want := range names {
					if n == want {
						hit = true
					}
				}
				if sc := c.Common().StaticCallee(); sc != nil && !hit && sc != fn && sc.Parent() == nil && strings.HasPrefix(pkgPathOf(sc), modPath) && pkgPathOf(sc) == pkgPathOf(fn) {
					if reachesCallee(sc, depth+1, names...) {
						hit = true
					}
				}
			}
		}
		for _, a := range f.AnonFuncs {
			walk(a)
		}
	}
	walk(fn)
	return hit
}

// returnsFunc: the function's result is a function value (a constructor of fetch functions: followed, not summarised).
func returnsFunc(fn *ssa.Function) bool {
	rs := fn.Signature.Results()
	for i := 0; i < rs.Len(); i++ {
		if _, ok := rs.At(i).Type().Underlying().(*types.Signature); ok {
			return true
		}
	}
	return false
}

func resolveAnchors(w *World) {
	nameAlias = map[string]string{}
	defer func() {
		if os.Getenv("WCHECK_DEBUG_ANCHORS") != "" {
			fmt.Fprintf(os.Stderr, "anchors by role: %v\n", nameAlias)
		}
	}()
	reg := func(anchor string, fn *ssa.Function) {
		if fn == nil || w.byName[anchor] != nil {
			return
		}
		w.byName[anchor] = fn
		nameAlias[funcNameOrSSA(fn)] = anchor
	}
	prod := w.prodFns()
	topLevel := func(pred func(fn *ssa.Function) bool) *ssa.Function {
		var hit *ssa.Function
		for _, fn := range prod {
			if fn.Parent() != nil || fn.Synthetic != "" || !pred(fn) {
				continue
			}
			if hit != nil {
				return nil // ambiguous
			}
			hit = fn
		}
		return hit
	}
	// the bastion connection loop: the function of the bastion package that serves an HTTP/2 connection
	if w.byName[fnConnect] == nil {
		// … as FeedBastion starts it: when the loop and the single connection attempt are separate functions, the loop is the
		// one FeedBastion calls, among the package's functions from which ServeConn is reached
		if fb := w.byName[fnFeedBastion]; fb != nil {
			reach := map[*ssa.Function]bool{}
			var reaches func(fn *ssa.Function, depth int) bool
			reaches = func(fn *ssa.Function, depth int) bool {
				if v, ok := reach[fn]; ok {
					return v
				}
				reach[fn] = false
				if depth > 6 || !strings.HasPrefix(pkgPathOf(fn), pBastion) {
					return false
				}
				hit := false
				var walk func(f *ssa.Function)
				walk = func(f *ssa.Function) {
					for _, b := range f.Blocks {
						for _, in := range b.Instrs {
							c, ok := in.(ssa.CallInstruction)
							if !ok {
								continue
							}
							if ssaCallName(c.Common()) == "(*golang.org/x/net/http2.Server).ServeConn" {
								hit = true
							}
							if sc := c.Common().StaticCallee(); sc != nil && sc.Parent() == nil && sc != fn && reaches(sc, depth+1) {
								hit = true
							}
						}
					}
					for _, a := range f.AnonFuncs {
						walk(a)
					}
				}
				walk(fn)
				reach[fn] = hit
				return hit
			}
			var cands []*ssa.Function
			seen := map[*ssa.Function]bool{}
			var scan func(f *ssa.Function)
			scan = func(f *ssa.Function) {
				for _, b := range f.Blocks {
					for _, in := range b.Instrs {
						if c, ok := in.(ssa.CallInstruction); ok {
							if sc := c.Common().StaticCallee(); sc != nil && sc.Parent() == nil && !seen[sc] && reaches(sc, 0) {
								seen[sc] = true
								cands = append(cands, sc)
							}
						}
					}
				}
				for _, a := range f.AnonFuncs {
					scan(a)
				}
			}
			scan(fb)
			if len(cands) == 1 {
				reg(fnConnect, cands[0])
			}
		}
	}
	if w.byName[fnConnect] == nil {
		reg(fnConnect, topLevel(func(fn *ssa.Function) bool {
			return strings.HasPrefix(pkgPathOf(fn), pBastion) && callsNamed(fn, "(*golang.org/x/net/http2.Server).ServeConn")
		}))
	}
	// its certificate helper: returns (tls.Certificate, error)
	certName := pBastion + ".selfSignedCertificate"
	if w.byName[certName] == nil {
		reg(certName, topLevel(func(fn *ssa.Function) bool {
			return strings.HasPrefix(pkgPathOf(fn), pBastion) && fn.Signature.Results().Len() == 2 && callsNamed(fn, "crypto/x509.CreateCertificate")
		}))
	}
	// the proof codec: Marshal / Unmarshal of a type named Proof anywhere in the module
	for anchor, suffix := range map[string]string{fnMarshal: ".Proof).Marshal", fnUnmarshal: ".Proof).Unmarshal"} {
		if w.byName[anchor] == nil {
			reg(anchor, topLevel(func(fn *ssa.Function) bool { return strings.HasSuffix(funcName(fn), suffix) }))
		}
	}
	// the serverless feeder's fetcher constructor: the function serverless.FeedLog calls that takes the parsed log URL and
	// returns the fetch function (it branches on the URL's scheme)
	nf := modPath + "/internal/feeder/serverless.newFetcher"
	if w.byName[nf] == nil {
		if fl := w.byName[modPath+"/internal/feeder/serverless.FeedLog"]; fl != nil {
			var hit *ssa.Function
			n := 0
			seen := map[*ssa.Function]bool{}
			for _, b := range fl.Blocks {
				for _, in := range b.Instrs {
					c, ok := in.(ssa.CallInstruction)
					if !ok {
						continue
					}
					sc := c.Common().StaticCallee()
					if sc == nil || seen[sc] || !strings.HasPrefix(pkgPathOf(sc), modPath) || sc.Signature.Results().Len() == 0 {
						continue
					}
					seen[sc] = true
					hasURL := false
					for _, p := range sc.Params {
						if strings.HasSuffix(p.Type().String(), "net/url.URL") {
							hasURL = true
						}
					}
					if _, isFunc := sc.Signature.Results().At(0).Type().Underlying().(*types.Signature); hasURL && isFunc {
						hit = sc
						n++
					}
				}
			}
			if n == 1 {
				reg(nf, hit)
			}
		}
	}
	// the tile readers handed to tlog (sumdb and pixel feeders): the type of the package that has a ReadTiles method
	for _, pk := range []string{"sumdb", "pixelbt"} {
		pp := modPath + "/internal/feeder/" + pk
		if w.byName["("+pp+".tileReader).ReadTiles"] != nil {
			continue
		}
		var recvName string
		n := 0
		for _, fn := range prod {
			if pkgPathOf(fn) == pp && fn.Parent() == nil && fn.Synthetic == "" && fn.Signature.Recv() != nil && fn.Name() == "ReadTiles" {
				rt := fn.Signature.Recv().Type()
				if p, ok := rt.(*types.Pointer); ok {
					rt = p.Elem()
				}
				if nt, ok := rt.(*types.Named); ok {
					recvName = nt.Obj().Name()
					n++
				}
			}
		}
		if n != 1 {
			continue
		}
		for _, fn := range prod {
			if pkgPathOf(fn) != pp || fn.Parent() != nil || fn.Synthetic != "" || fn.Signature.Recv() == nil {
				continue
			}
			rt := fn.Signature.Recv().Type()
			if p, ok := rt.(*types.Pointer); ok {
				rt = p.Elem()
			}
			if nt, ok := rt.(*types.Named); ok && nt.Obj().Name() == recvName {
				reg("("+pp+".tileReader)."+fn.Name(), fn)
			}
		}
	}
	// the request-body writer: the implementation of feeder.Witness.Update in cmd/feedbastion
	if w.byName[fnBCUpdate] == nil {
		if m := ifaceMethod(w, pFeeder, "Witness", "Update"); m != nil {
			var hit *ssa.Function
			n := 0
			for _, f := range w.implementations(m) {
				if w.isProd(f) && f.Synthetic == "" && strings.HasSuffix(pkgPathOf(f), "/cmd/feedbastion") {
					hit = f
					n++
				}
			}
			if n == 1 {
				reg(fnBCUpdate, hit)
			}
		}
	}
}

package main

// Rules over the bastion add-checkpoint endpoint: C10.a-e, C09.b, C11 (parseBody side), C19.d/e/f pieces.

import (
	"fmt"
	"go/types"
	"sort"
	"strings"

	"golang.org/x/tools/go/ssa"
)

const (
	fnServeHTTP    = "(*" + pBastion + ".addHandler).ServeHTTP"
	fnHandleUpdate = "(*" + pBastion + ".addHandler).handleUpdate"
	fnParseBody    = pBastion + ".parseBody"
	fnFeedBastion  = pBastion + ".FeedBastion"
	fnConnect      = pBastion + ".connectAndServe"
	cFeederUpdate  = "(" + pFeeder + ".Witness).Update"
	cFeederGetLatest = "(" + pFeeder + ".Witness).GetLatestCheckpoint"
	cWriteHeader   = "(net/http.ResponseWriter).WriteHeader"
	cRWWrite       = "(net/http.ResponseWriter).Write"
	cAllow         = "(*golang.org/x/time/rate.Limiter).Allow"
)

// outcome classes of Update, taken from its real path summaries
type updOutcome struct {
	err   string // "nil" | sentinel global | "other-error"
	bytes string // nil stored cosigned ...
}

func updateOutcomes(a *updAnalysis) []updOutcome {
	seen := map[updOutcome]bool{}
	var out []updOutcome
	for _, v := range a.paths {
		o := updOutcome{v.outcome, v.bytes}
		if v.outcome == "accepted" {
			o.err = "nil"
		}
		if !seen[o] {
			seen[o] = true
			out = append(out, o)
		}
	}
	sort.Slice(out, func(i, j int) bool { return out[i].err+out[i].bytes < out[j].err+out[j].bytes })
	return out
}

type huPath struct {
	s       Summary
	status  string // effective status constant
	ct      *Term
	body    *Term
	errRet  *Term
}

// handleUpdateTable composes handleUpdate's paths with an Update outcome class and returns the matching paths.
func matchHandleUpdate(w *World, r *Run, rule string, sums []Summary, upd Event, o updOutcome) ([]Summary, bool) {
	trusted, uerr := res(upd, 0), res(upd, 1)
	var out []Summary
	for _, s := range sums {
		ok := true
		for _, f := range s.Facts {
			t := f.T
			switch {
			case t.Kind == "binop" && t.Name == "==" && (t.Args[0] == trusted || t.Args[1] == trusted) && (t.Args[0].Kind == "nil" || t.Args[1].Kind == "nil"):
				if f.Pos != (o.bytes == "nil") {
					ok = false
				}
			case t.Kind == "binop" && t.Name == "==" && (t.Args[0] == uerr || t.Args[1] == uerr):
				other := t.Args[0]
				if other == uerr {
					other = t.Args[1]
				}
				switch other.Kind {
				case "nil":
					if f.Pos != (o.err == "nil") {
						ok = false
					}
				case "global":
					if f.Pos != (o.err == other.Name) {
						ok = false
					}
				default:
					r.Undecided(rule, fnHandleUpdate+" | comparison of the update error", w.pos(f.At), "update error compared with "+short(other.String()))
					return nil, false
				}
			case t.Kind == "call" && t.Name == cErrorsIs && len(t.Args) == 4 && t.Args[2] == uerr && t.Args[3].Kind == "global":
				if f.Pos != (o.err == t.Args[3].Name) {
					ok = false
				}
			case t.Kind == "binop" && t.Name == "==" && (t.Args[0].Kind == "nil" || t.Args[1].Kind == "nil"):
				// error of another call (ParseCheckpoint of the trusted bytes): fault arm unless nil
				other := t.Args[0]
				if other.Kind == "nil" {
					other = t.Args[1]
				}
				if other.Kind == "call" && other.Name == cParse {
					if !f.Pos {
						ok = false // the witness's own cosigned checkpoint opens under its verifier (trusted)
					}
				} else {
					r.Undecided(rule, fnHandleUpdate+" | unrecognised predicate", w.pos(f.At), "branch on "+short(t.String()))
					return nil, false
				}
			default:
				r.Undecided(rule, fnHandleUpdate+" | unrecognised predicate", w.pos(f.At), "branch on "+short(t.String()))
				return nil, false
			}
		}
		if ok {
			out = append(out, s)
		}
	}
	return out, true
}

func constInt(t *Term) (string, bool) {
	if t != nil && t.Kind == "const" {
		return t.Name, true
	}
	return "", false
}

var wantStatus = map[string]string{
	"nil": "200",
	pWitness + ".ErrUnknownLog":        "404",
	pWitness + ".ErrNoValidSignature":  "403",
	pWitness + ".ErrOldSizeInvalid":    "400",
	pWitness + ".ErrCheckpointStale":   "409",
	pWitness + ".ErrRootMismatch":      "409",
	pWitness + ".ErrInvalidProof":      "422",
	"other-error":                      "500",
}

// C10.a STATUS-TABLE (composition of Update's outcome classes with handleUpdate's paths)
func ruleStatusTable(w *World, r *Run, a *updAnalysis, rule string) {
	if !a.guard(r, rule) {
		return
	}
	sums, e, ok := explore(w, r, rule, fnHandleUpdate, 4, 1)
	if !ok {
		return
	}
	fn := w.fn(fnHandleUpdate)
	var upd *Event
	for _, s := range sums {
		for _, ev := range calls(s, cFeederUpdate) {
			ev := ev
			upd = &ev
		}
	}
	if upd == nil {
		r.Undecided(rule, fnHandleUpdate, w.pos(fn.Pos()), "no call of the witness's Update found")
		return
	}
	origin := paramN(fn, 2)
	recv := recvParam(fn)
	for _, o := range updateOutcomes(a) {
		key := fmt.Sprintf("%s | Update outcome (%s, %s bytes)", fnHandleUpdate, shortGlobal(o.err), o.bytes)
		want, known := wantStatus[o.err]
		if !known {
			want = "500"
		}
		ms, ok := matchHandleUpdate(w, r, rule, sums, *upd, o)
		if !ok {
			return
		}
		if len(ms) != 1 {
			r.Fail(rule, key, w.pos(fn.Pos()), fmt.Sprintf("%d paths of handleUpdate answer this outcome, want exactly one", len(ms)))
			continue
		}
		s := ms[0]
		if len(s.Rets) != 4 {
			r.Fail(rule, key, w.pos(s.RetPos), "unexpected return arity")
			continue
		}
		status, isConst := constInt(s.Rets[0])
		if s.Rets[3].Kind != "nil" {
			status, isConst = "500", true // ServeHTTP answers 500 when handleUpdate returns an error (checked in C10.c)
		}
		if !isConst {
			r.Undecided(rule, key, w.pos(s.RetPos), "status is not a constant: "+short(s.Rets[0].String()))
			continue
		}
		if status != want {
			r.Fail(rule, key, w.pos(s.RetPos), fmt.Sprintf("the endpoint answers %s when the witness's verdict is (%s, %s bytes); the protocol says %s; path: %s", status, shortGlobal(o.err), o.bytes, want, pathString(e, s)))
			continue
		}
		// stale: content type and body = "%d\n" of the size of the checkpoint parsed from the trusted bytes
		if o.err == pWitness+".ErrCheckpointStale" {
			ct, _ := constInt(s.Rets[2])
			var pc *Event
			for _, pe := range calls(s, cParse) {
				pe := pe
				if len(pe.Args) == 4 && pe.Args[0] == res(*upd, 0) && pe.Args[1] == origin && okBefore(s, pe, 0) {
					pc = &pe
				}
			}
			good := ct == "\"text/x.tlog.size\"" && pc != nil
			if good {
				size := sizeOf(res(*pc, 0))
				body := s.Rets[1]
				good = false
				for _, sp := range calls(s, "fmt.Sprintf", "fmt.Appendf") {
					if mentions(body, sp.Res) {
						var fmtArg, va *Term
						for _, x := range sp.Args {
							if x != nil && x.Kind == "const" && strings.HasPrefix(x.Name, "\"") {
								fmtArg = x
							}
							if x != nil && x.Kind == "varargs" {
								va = x
							}
						}
						if fmtArg != nil && fmtArg.Name == "\"%d\\n\"" && va != nil && len(va.Args) == 1 && va.Args[0] == size {
							good = true
						}
					}
				}
				for _, sp := range calls(s, "strconv.FormatUint") {
					if mentions(body, sp.Res) && len(sp.Args) == 2 && sp.Args[0] == size {
						good = true
					}
				}
			}
			if !good {
				r.Fail(rule, key+" | size body", w.pos(s.RetPos), "409 for a stale old size must carry Content-Type text/x.tlog.size and the decimal size of the witness's current checkpoint followed by a newline")
				continue
			}
		} else if o.err != "nil" && s.Rets[3].Kind == "nil" {
			ct, _ := constInt(s.Rets[2])
			if ct == "\"text/x.tlog.size\"" {
				r.Fail(rule, key+" | content type", w.pos(s.RetPos), "text/x.tlog.size content type on a verdict other than stale old size")
				continue
			}
		}
		if o.err == "nil" && o.bytes != "cosigned" {
			r.Fail("C10.d", fnHandleUpdate+" | 200 carries a cosignature made over the submitted text", w.pos(s.RetPos), "the witness can report acceptance while returning "+o.bytes+" bytes (not the cosignature it just made over the submitted note): the endpoint's 200 body would be a signature line that does not verify over the submitted checkpoint")
			continue
		}
		if o.err == "nil" {
			// C10.d BODY-PROVENANCE
			var pc *Event
			for _, pe := range calls(s, cParse) {
				pe := pe
				if len(pe.Args) == 4 && pe.Args[0] == res(*upd, 0) && pe.Args[1] == origin && pe.Args[2] == fieldByType(recv, "note.Verifier") && okBefore(s, pe, 0) {
					pc = &pe
				}
			}
			good := pc != nil
			if good {
				sigs := mk("field", "Sigs", 0, nil, res(*pc, 2))
				good = anySub(s.Rets[1], func(t *Term) bool { return t.Kind == "field" && t.Name == "Base64" && mentions(t, sigs) }) &&
					anySub(s.Rets[1], func(t *Term) bool { return t.Kind == "field" && t.Name == "Name" && mentions(t, sigs) })
				// nothing else of the note but verified signatures
				if anySub(s.Rets[1], func(t *Term) bool { return t.Kind == "field" && t.Name == "UnverifiedSigs" }) {
					good = false
				}
			}
			if !good {
				r.Fail("C10.d", fnHandleUpdate+" | 200 body = signature line(s) verified under the witness's own verifier", w.pos(s.RetPos), "the 200 body is not built from the signatures that note.Open verified under the witness verifier on the bytes Update returned: "+short(s.Rets[1].String()))
				continue
			}
			r.Pass("C10.d", fnHandleUpdate+" | 200 body = signature line(s) verified under the witness's own verifier", w.pos(s.RetPos), "")
		}
		r.Pass(rule, key, w.pos(s.RetPos), "")
		r.Sample(map[string]string{"update_outcome": shortGlobal(o.err) + "/" + o.bytes, "status": status, "return_at": w.pos(s.RetPos)})
	}
	// Update is called with handleUpdate's own parameters, unmodified
	wantArgs := []*Term{paramN(fn, 0), paramN(fn, 1), paramN(fn, 3), paramN(fn, 4), paramN(fn, 5)}
	good := len(upd.Args) == 5 && upd.Recv == fieldByType(recv, "feeder.Witness")
	if good {
		for i := range wantArgs {
			if upd.Args[i] != wantArgs[i] {
				good = false
			}
		}
	}
	r.Check(good, "C10.e", fnHandleUpdate+" | Update(ctx, logID, oldSize, checkpoint, proof) passed through", w.pos(upd.Pos), "handleUpdate alters the arguments it hands to the witness: "+short(fmt.Sprint(upd.Args)))
}

// C09.b SENTINEL-EXHAUSTIVE
func ruleSentinelExhaustive(w *World, r *Run, a *updAnalysis, rule string) {
	if !a.guard(r, rule) {
		return
	}
	sums, _, ok := explore(w, r, rule, fnHandleUpdate, 4, 1)
	if !ok {
		return
	}
	var upd *Event
	for _, s := range sums {
		for _, ev := range calls(s, cFeederUpdate) {
			ev := ev
			upd = &ev
		}
	}
	if upd == nil {
		r.Undecided(rule, fnHandleUpdate, "", "no call of Update found")
		return
	}
	uerr := res(*upd, 1)
	sentinels := map[string]bool{}
	for _, v := range a.paths {
		if len(v.s.Rets) == 2 && v.s.Rets[1].Kind == "global" {
			sentinels[v.s.Rets[1].Name] = true
		}
		// a wrapped sentinel would need errors.Is on the caller side
		if len(v.s.Rets) == 2 && v.s.Rets[1].Kind == "call" && v.s.Rets[1].Name == cErrorf {
			for _, x := range v.s.Rets[1].Args[2:] {
				if x != nil && anySub(x, func(t *Term) bool { return t.Kind == "global" && strings.HasPrefix(t.Name, pWitness+".Err") }) {
					r.Fail(rule, fnUpdate+" | sentinels returned by identity", w.pos(v.s.RetPos), "Update wraps a sentinel error; callers compare by identity")
				}
			}
		}
	}
	var names []string
	for n := range sentinels {
		names = append(names, n)
	}
	sort.Strings(names)
	if len(names) < 4 {
		r.Undecided(rule, fnUpdate+" | sentinels", "", fmt.Sprintf("only %d sentinel outcomes found", len(names)))
	}
	for _, n := range names {
		handled := false
		for _, s := range sums {
			g := mk("global", n, 0, nil)
			if k, v, _ := eqFact(s, uerr, g); k && v && len(s.Rets) == 4 && s.Rets[3].Kind == "nil" {
				handled = true
			}
			for _, ie := range calls(s, cErrorsIs) {
				if len(ie.Args) == 2 && ie.Args[0] == uerr && ie.Args[1].Kind == "global" && ie.Args[1].Name == n {
					if k, v, _ := boolFact(s, ie.Res); k && v && s.Rets[3].Kind == "nil" {
						handled = true
					}
				}
			}
		}
		r.Check(handled, rule, fnHandleUpdate+" | case for "+shortGlobal(n), w.pos(w.fn(fnHandleUpdate).Pos()), "Update can return "+shortGlobal(n)+" but the endpoint has no case for it (it would answer 500)")
	}
}

// C10.b RATE-LIMIT-FIRST, C10.c EXACTLY-ONE-STATUS, C10.e PRE-CHECKS over ServeHTTP
func ruleServeHTTP(w *World, r *Run, ruleB, ruleC, ruleE string) {
	sums, e, ok := exploreOpaque(w, r, ruleC, fnServeHTTP, 4, 1, fnParseBody, fnHandleUpdate)
	if !ok {
		return
	}
	fn := w.fn(fnServeHTTP)
	recv := recvParam(fn)
	rw := paramN(fn, 0)
	req := paramN(fn, 1)
	limiter := fieldByType(recv, "*rate.Limiter")
	allowed := map[string]bool{"200": true, "400": true, "403": true, "404": true, "409": true, "422": true, "429": true, "500": true}
	// statuses handleUpdate can hand over with a nil error
	huStatuses := map[string]bool{}
	if hs, _, ok := explore(w, r, ruleC, fnHandleUpdate, 4, 1); ok {
		for _, s := range hs {
			if len(s.Rets) == 4 && s.Rets[3].Kind == "nil" {
				if c, ok := constInt(s.Rets[0]); ok {
					huStatuses[c] = true
				} else {
					r.Undecided(ruleC, fnHandleUpdate+" | constant status", w.pos(s.RetPos), "non-constant status "+short(s.Rets[0].String()))
				}
			}
		}
	}
	n429, nPre := 0, 0
	for _, s := range sums {
		if s.Panic {
			r.Fail(ruleC, fnServeHTTP+" | no panic", w.pos(s.RetPos), "explicit panic on a request path")
			continue
		}
		al := calls(s, cAllow)
		pb := calls(s, fnParseBody)
		hu := calls(s, fnHandleUpdate)
		whs := calls(s, cWriteHeader, "net/http.Error")
		writes := calls(s, cRWWrite)
		// ---- C10.c
		key := fnServeHTTP + " | exactly one documented status on every path"
		switch {
		case len(whs) != 1:
			r.Fail(ruleC, key, w.pos(s.RetPos), fmt.Sprintf("%d status writes on this path (a path without WriteHeader answers an implicit 200; two are a superfluous WriteHeader); path: %s", len(whs), pathString(e, s)))
		default:
			wh := whs[0]
			arg := wh.Args[len(wh.Args)-1]
			good := wh.Recv == rw || (wh.Callee == "net/http.Error" && wh.Args[0] == rw)
			if c, ok := constInt(arg); ok {
				good = good && allowed[c]
			} else if len(hu) == 1 && arg == res(hu[0], 0) {
				// status chosen by handleUpdate: only on its err == nil arm
				good = good && okBefore(s, hu[0], wh.Seq)
				for c := range huStatuses {
					if !allowed[c] {
						good = false
					}
				}
			} else {
				good = false
			}
			for _, wr := range writes {
				if wr.Seq < wh.Seq {
					good = false
				}
			}
			r.Check(good, ruleC, key, w.pos(wh.Pos), "status written is "+short(arg.String())+": not one of the documented codes, written to something other than the response, or preceded by a body write")
		}
		if len(hu) == 1 && failed(s, hu[0]) {
			c := ""
			if len(whs) == 1 {
				c, _ = constInt(whs[0].Args[len(whs[0].Args)-1])
			}
			r.Check(c == "500", ruleC, fnServeHTTP+" | handleUpdate error answered 500", w.pos(s.RetPos), "an internal error of handleUpdate is answered "+c)
		}
		// body written is the body handleUpdate produced
		for _, wr := range writes {
			r.Check(len(hu) == 1 && wr.Args[0] == res(hu[0], 1), ruleC, fnServeHTTP+" | body = handleUpdate's body", w.pos(wr.Pos), "response body is not the one computed for the verdict")
		}
		// content type header value comes from handleUpdate
		for _, hd := range calls(s, "(net/http.Header).Add", "(net/http.Header).Set") {
			if len(hd.Args) == 2 {
				if k, _ := constInt(hd.Args[0]); k == "\"Content-Type\"" {
					r.Check(len(hu) == 1 && hd.Args[1] == res(hu[0], 2), ruleC, fnServeHTTP+" | content type = handleUpdate's", w.pos(hd.Pos), "Content-Type is not the one computed for the verdict")
				}
			}
		}
		// ---- C10.b
		keyB := fnServeHTTP + " | limiter consulted before the body is read"
		if len(al) != 1 || al[0].Recv != limiter {
			r.Fail(ruleB, keyB, w.pos(s.RetPos), "path does not consult the configured rate limiter exactly once")
			continue
		}
		k, allowedNow, _ := boolFact(s, al[0].Res)
		if !k {
			r.Fail(ruleB, keyB, w.pos(al[0].Pos), "limiter verdict ignored")
			continue
		}
		if !allowedNow {
			n429++
			c := ""
			if len(whs) == 1 {
				c, _ = constInt(whs[0].Args[len(whs[0].Args)-1])
			}
			clean := len(pb) == 0 && len(hu) == 0 && len(calls(s, cFeederUpdate)) == 0
			for _, ev := range s.Events {
				if ev.Kind == "call" && !ev.AtExit && ev.Recv != nil && mentions(ev.Recv, mk("field", "Body", 0, nil, req)) {
					clean = false
				}
				for _, x := range ev.Args {
					if ev.Kind == "call" && !ev.AtExit && x != nil && mentions(x, mk("field", "Body", 0, nil, req)) {
						clean = false
					}
				}
			}
			r.Check(c == "429" && clean, ruleB, fnServeHTTP+" | over-rate request answered 429 without being processed", w.pos(s.RetPos), "a request over the configured rate is answered "+c+" or is parsed/processed before being pushed back")
			continue
		}
		for _, x := range append(append([]Event(nil), pb...), hu...) {
			r.Check(al[0].Seq < x.Seq, ruleB, keyB, w.pos(x.Pos), short(x.Callee)+" runs before the rate limiter was consulted")
		}
		// ---- C10.e PRE-CHECKS
		if len(pb) != 1 || pb[0].Args[0] != mk("field", "Body", 0, nil, req) {
			r.Fail(ruleE, fnServeHTTP+" | body parsed once from the request", w.pos(s.RetPos), "request body is not parsed exactly once from r.Body")
			continue
		}
		status := ""
		if len(whs) == 1 {
			status, _ = constInt(whs[0].Args[len(whs[0].Args)-1])
		}
		if failed(s, pb[0]) {
			nPre++
			r.Check(status == "400" && len(hu) == 0, ruleE, fnServeHTTP+" | malformed body answered 400 without reaching the witness", w.pos(s.RetPos), "a body that does not parse is answered "+status+" or still handed to the witness")
			continue
		}
		if !okBefore(s, pb[0], 0) {
			r.Fail(ruleE, fnServeHTTP+" | parse error checked", w.pos(pb[0].Pos), "parseBody's error is not examined")
			continue
		}
		if len(hu) == 0 {
			// a pre-check refused: which one?
			nPre++
			lk := eventsOfKind(s, "mapread")
			if len(lk) == 1 && lk[0].Recv == fieldByType(recv, "map[string]config.Log") {
				k, found, _ := boolFact(s, mk("lookup", "ok", 0, nil, lk[0].Recv, lk[0].Args[0]))
				r.Check(k && !found && status == "404", ruleE, fnServeHTTP+" | unknown origin answered 404", w.pos(s.RetPos), "an origin that is not configured is answered "+status)
			} else {
				r.Check(status == "400", ruleE, fnServeHTTP+" | checkpoint without a first line answered 400", w.pos(s.RetPos), "a checkpoint that cannot be split into origin line and rest is answered "+status)
			}
			continue
		}
		// handleUpdate reached: its arguments
		h := hu[0]
		lk := eventsOfKind(s, "mapread")
		good := len(h.Args) == 6 && len(lk) == 1
		var idc []Event
		if good {
			idc = calls(s, cLogID)
			good = len(idc) == 1 && lk[0].Args[0] == idc[0].Res && h.Args[1] == idc[0].Res
		}
		if good {
			// the origin line is the first element of SplitN(string(cp), "\n", 2) under len == 2
			sp := calls(s, "strings.SplitN", "strings.Cut")
			good = len(sp) == 1 && mentions(sp[0].Args[0], res(pb[0], 2)) && mentions(idc[0].Args[0], sp[0].Res)
			if good && sp[0].Callee == "strings.SplitN" {
				nl, _ := constInt(sp[0].Args[1])
				good = nl == "\"\\n\""
			}
		}
		if good {
			entry := mk("lookup", "val", 0, nil, lk[0].Recv, idc[0].Res)
			good = h.Args[2] == mk("field", "Origin", 0, nil, entry) && h.Args[3] == res(pb[0], 0) && h.Args[4] == res(pb[0], 2) && h.Args[5] == res(pb[0], 1)
			if k, found, _ := boolFact(s, mk("lookup", "ok", 0, nil, lk[0].Recv, idc[0].Res)); !(k && found) {
				good = false
			}
		}
		r.Check(good, ruleE, fnServeHTTP+" | witness asked with (ID(first line), configured origin, parsed old size, checkpoint, proof)", w.pos(h.Pos), "handleUpdate is not called with the log ID of the checkpoint's first line, that log's configured origin and parseBody's results unmodified: "+short(fmt.Sprint(h.Args)))
	}
	if n429 == 0 {
		r.Fail(ruleB, fnServeHTTP+" | push-back path exists", "", "no path answers 429 when the limiter refuses")
	}
	if nPre < 3 {
		r.Undecided(ruleE, fnServeHTTP+" | pre-checks", "", fmt.Sprintf("only %d pre-check refusals found (expected: malformed body, no first line, unknown origin)", nPre))
	}
}

// ---------------------------------------------------------------- C11: parseBody

// C11.b REFUSAL-IS-TOTAL (parseBody half) and C11.d ORDER-PRESERVING
func ruleParseBodyTotal(w *World, r *Run, ruleB, ruleD string) {
	ruleE := "C11.e"
	if !strings.HasPrefix(ruleD, "C11") {
		ruleE = ruleD
	}
	sums, e, ok := explore(w, r, ruleB, fnParseBody, 4, 2)
	if !ok {
		return
	}
	nOK := 0
	for _, s := range sums {
		if len(s.Rets) != 4 {
			continue
		}
		er := s.Rets[3]
		k, isNil, _ := nilFact(s, er)
		definitelyNil := er.Kind == "nil" || (k && isNil)
		definitelyErr := neverNil(er) || (k && !isNil)
		// blank separator consumed: a ReadLine whose line has length 0
		sep := false
		for _, rl := range calls(s, "(*bufio.Reader).ReadLine", "(*bufio.Reader).ReadString", "(*bufio.Reader).ReadBytes") {
			ln := mk("len", "", 0, types.Typ[types.Int], res(rl, 0))
			if kk, v, _ := eqConstFact(s, ln, "0"); kk && v {
				sep = true
			}
		}
		switch {
		case definitelyNil:
			key := fnParseBody + " | success only after the blank separator"
			r.Check(sep, ruleB, key, w.pos(s.RetPos), "parseBody can return a nil error without having consumed the blank line that separates the proof from the checkpoint (a body is 'partly understood'); path: "+pathString(e, s))
			if sep {
				nOK++
				// ---- C11.d: checkpoint = unmodified remainder of the same reader; proof elements appended in read order
				ra := calls(s, "io.ReadAll")
				nr := calls(s, "bufio.NewReader")
				good := len(ra) == 1 && len(nr) == 1 && ra[0].Args[0] == nr[0].Res && s.Rets[2] == res(ra[0], 0) && okBefore(s, ra[0], 0)
				r.Check(good, ruleD, fnParseBody+" | checkpoint = unmodified remainder of the body", w.pos(s.RetPos), "the checkpoint returned is not exactly what remains of the reader after the blank line: "+short(s.Rets[2].String()))
				// proof list
				dec := calls(s, "(*encoding/base64.Encoding).DecodeString")
				pt := s.Rets[1]
				var elems []*Term
				for pt.Kind == "append" {
					var el []*Term
					for _, x := range pt.Args[1:] {
						if x.Kind == "varargs" {
							el = append(el, x.Args...)
						} else {
							el = append(el, x)
						}
					}
					elems = append(el, elems...)
					pt = pt.Args[0]
				}
				good = len(elems) == len(dec) && (pt.Kind == "alloc" || pt.Kind == "nil" || pt.Kind == "zero" || pt.Kind == "varargs" && len(pt.Args) == 0)
				for i := range elems {
					if i < len(dec) && elems[i] != res(dec[i], 0) {
						good = false
					}
				}
				r.Check(good, ruleD, fnParseBody+" | one proof hash per decoded line, in read order", w.pos(s.RetPos), fmt.Sprintf("proof list %s does not consist of the %d decoded lines in order", short(s.Rets[1].String()), len(dec)))
				// each decode is of a whole line read from the body (no partial line), however it travelled
				for _, d := range dec {
					okLine := false
					for _, rl := range calls(s, "(*bufio.Reader).ReadLine", "(*bufio.Reader).ReadString", "(*bufio.Reader).ReadBytes") {
						if mentions(d.Args[0], res(rl, 0)) {
							okLine = true
						}
					}
					if anySub(d.Args[0], func(t *Term) bool { return t.Kind == "slice" && (t.Args[1] != nil || t.Args[2] != nil) }) {
						okLine = false
					}
					r.Check(okLine, ruleD, fnParseBody+" | proof line decoded whole", w.pos(d.Pos), "base64 decoding is applied to "+short(d.Args[0].String())+", not to a whole line read from the body")
				}
				// size result derives from the first line
				r.Check(s.Rets[0].Kind != "const" && s.Rets[0].Kind != "zero", ruleD, fnParseBody+" | old size comes from the size line", w.pos(s.RetPos), "old size result is the constant "+short(s.Rets[0].String()))
			}
		case definitelyErr:
			key := fnParseBody + " | refusal returns nothing else"
			zero := func(t *Term) bool { return t.Kind == "nil" || t.Kind == "zero" || (t.Kind == "const" && t.Name == "0") }
			r.Check(zero(s.Rets[0]) && zero(s.Rets[1]) && zero(s.Rets[2]), ruleB, key, w.pos(s.RetPos), "an error return of parseBody also hands back partial results")
		default:
			r.Fail(ruleB, fnParseBody+" | error result decided on every path", w.pos(s.RetPos), "parseBody returns an error value that may be nil without the path having established the request to be well-formed; path: "+pathString(e, s))
		}
	}
	if nOK == 0 {
		r.Undecided(ruleB, fnParseBody, "", "no success path recognised")
	}
	// C11.e RETAINED-BUFFER (ownership): bufio.Reader.ReadLine returns a view into the reader's buffer that is only
	// valid until the next read; it may be measured, converted (copied) or passed on, never retained.
	nRL := 0
	for _, s := range sums {
		for _, rl := range calls(s, "(*bufio.Reader).ReadLine") {
			nRL++
			line := res(rl, 0)
			retained := ""
			for _, ret := range s.Rets {
				if rawMention(ret, line) {
					retained = "returned"
				}
			}
			for _, ev := range s.Events {
				if ev.Kind == "store" && rawMention(ev.Args[0], line) {
					retained = "stored"
				}
			}
			for _, f := range s.Facts {
				_ = f
			}
			// appended raw into a slice that lives on
			for _, ev := range s.Events {
				for _, a0 := range ev.Args {
					if a0 != nil && anySub(a0, func(t *Term) bool {
						if t.Kind != "append" {
							return false
						}
						for _, el := range t.Args[1:] {
							if el == line || (el.Kind == "varargs" && containsTerm(el.Args, line)) {
								return true
							}
						}
						return false
					}) {
						retained = "appended to a slice"
					}
				}
			}
			for _, ret := range s.Rets {
				if anySub(ret, func(t *Term) bool {
					if t.Kind != "append" {
						return false
					}
					for _, el := range t.Args[1:] {
						if el == line || (el.Kind == "varargs" && containsTerm(el.Args, line)) {
							return true
						}
					}
					return false
				}) {
					retained = "appended to the result"
				}
			}
			r.Check(retained == "", ruleE, fnParseBody+" | ReadLine's buffer view is not retained across reads", w.pos(rl.Pos), "the slice returned by bufio.Reader.ReadLine is "+retained+" without being copied; it is overwritten by the next read, so bodies larger than the buffer (or delivered in several chunks) parse to different bytes than were written")
		}
	}
	if nRL == 0 {
		r.Info(ruleE, fnParseBody+" | ReadLine", "", "parseBody no longer uses ReadLine")
	}
}

func containsTerm(ts []*Term, x *Term) bool {
	for _, t := range ts {
		if t == x {
			return true
		}
	}
	return false
}

// rawMention: x occurs in t other than under a copying conversion (string(x)) or len(x).
func rawMention(t, x *Term) bool {
	if t == nil {
		return false
	}
	if t == x {
		return true
	}
	if t.Kind == "conv" || t.Kind == "len" || t.Kind == "call" {
		return false
	}
	for _, a := range t.Args {
		if rawMention(a, x) {
			return true
		}
	}
	return false
}

// C11.c STRICT-INTEGER: no fmt.Sscan* family in functions reachable from the endpoint.
func ruleStrictInteger(w *World, r *Run, rule string) {
	roots := []*ssa.Function{w.fn(fnServeHTTP)}
	if roots[0] == nil {
		r.Undecided(rule, fnServeHTTP, "", "anchor not found")
		return
	}
	reach := reachableModule(w, roots)
	n := 0
	bad := 0
	for fn := range reach {
		n++
		for _, b := range fn.Blocks {
			for _, in := range b.Instrs {
				c, ok := in.(ssa.CallInstruction)
				if !ok {
					continue
				}
				sc := c.Common().StaticCallee()
				if sc == nil {
					continue
				}
				name := funcName(sc)
				if strings.HasPrefix(name, "fmt.Sscan") || strings.HasPrefix(name, "fmt.Fscan") || strings.HasPrefix(name, "fmt.Scan") {
					bad++
					r.Fail(rule, funcNameOrSSA(fn)+" | protocol integers parsed by a whole-string parser", w.pos(in.Pos()), name+" matches a prefix of its input: \"old 10xyz\" parses as 10, \"old 0x10\" as 0, \"old 5 6\" as 5; the size line must be refused unless it is exactly 'old <decimal>'")
				}
			}
		}
	}
	if bad == 0 {
		// positive side: the size line is parsed by strconv.ParseUint on the remainder after the required prefix
		good := false
		if sums, _, ok := explore(w, r, rule, fnParseBody, 4, 1); ok {
			for _, s := range sums {
				for _, pu := range calls(s, "strconv.ParseUint") {
					if len(pu.Args) == 3 {
						b10, _ := constInt(pu.Args[1])
						b64, _ := constInt(pu.Args[2])
						if b10 == "10" && b64 == "64" {
							good = true
						}
					}
				}
			}
		}
		r.Check(good, rule, fnParseBody+" | protocol integers parsed by a whole-string parser", w.pos(w.fn(fnParseBody).Pos()), "old size is not parsed with strconv.ParseUint(…, 10, 64) on the whole remainder of the line")
	}
	r.extra["functions_reachable_from_endpoint"] = n
}

// reachableModule: module functions reachable from roots through static calls, closures and
// (conservatively) every module implementation of invoked interface methods.
func reachableModule(w *World, roots []*ssa.Function) map[*ssa.Function]bool {
	seen := map[*ssa.Function]bool{}
	var work []*ssa.Function
	push := func(f *ssa.Function) {
		if f != nil && f.Blocks != nil && !seen[f] && strings.HasPrefix(pkgPathOf(f), modPath) {
			seen[f] = true
			work = append(work, f)
		}
	}
	for _, r := range roots {
		push(r)
	}
	for len(work) > 0 {
		fn := work[len(work)-1]
		work = work[:len(work)-1]
		for _, a := range fn.AnonFuncs {
			push(a)
		}
		for _, b := range fn.Blocks {
			for _, in := range b.Instrs {
				for _, op := range in.Operands(nil) {
					if f, ok := (*op).(*ssa.Function); ok {
						push(f)
					}
					if mc, ok := (*op).(*ssa.MakeClosure); ok {
						push(mc.Fn.(*ssa.Function))
					}
				}
				c, ok := in.(ssa.CallInstruction)
				if !ok {
					continue
				}
				cc := c.Common()
				if sc := cc.StaticCallee(); sc != nil {
					push(sc)
					continue
				}
				if cc.IsInvoke() {
					for _, m := range w.implementations(cc.Method) {
						push(m)
					}
				}
			}
		}
	}
	return seen
}

// implementations returns module methods implementing the interface method m.
func (w *World) implementations(m *types.Func) []*ssa.Function {
	var out []*ssa.Function
	recv := m.Type().(*types.Signature).Recv()
	if recv == nil {
		return nil
	}
	iface, ok := recv.Type().Underlying().(*types.Interface)
	if !ok {
		return nil
	}
	for _, p := range w.pkgs {
		scope := p.Types.Scope()
		for _, n := range scope.Names() {
			tn, ok := scope.Lookup(n).(*types.TypeName)
			if !ok {
				continue
			}
			for _, t := range []types.Type{tn.Type(), types.NewPointer(tn.Type())} {
				if _, isI := t.Underlying().(*types.Interface); isI {
					continue
				}
				if types.Implements(t, iface) {
					if f := w.prog.LookupMethod(t, m.Pkg(), m.Name()); f != nil {
						out = append(out, f)
					}
				}
			}
		}
	}
	return out
}

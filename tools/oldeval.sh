#!/bin/bash
# usage: oldeval.sh <base> <patch>: alarm rules on base vs base+patch
base=$1; patch=$2
wt=$(mktemp -d /tmp/oldwt.XXXX); rmdir $wt
git -C /repo worktree add -q --detach $wt $base || exit 2
tmp=$(mktemp -d)
a=$(/verif/bin/wcheck -repo $wt -prop all -tier quick -evdir $tmp 2>&1 | grep -E ": rule " | sed -E 's/.*: rule ([A-Za-z0-9.]+) (violation|undecided).*/\1:\2/' | sort -u | tr '\n' ' ')
if git -C $wt apply "$patch" 2>/dev/null; then
  b=$(/verif/bin/wcheck -repo $wt -prop all -tier quick -evdir $tmp 2>&1 | grep -E ": rule " | sed -E 's/.*: rule ([A-Za-z0-9.]+) (violation|undecided).*/\1:\2/' | sort -u | tr '\n' ' ')
  new=$(comm -13 <(echo $a | tr ' ' '\n' | sort -u) <(echo $b | tr ' ' '\n' | sort -u) | tr '\n' ' ')
  echo "$patch on $base: base=[$a] new-with-patch=[$new]"
else
  echo "$patch does not apply to $base"
fi
git -C /repo worktree remove --force $wt; rm -rf $tmp

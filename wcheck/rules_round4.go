package main

// Rules added after the fourth mutant round (each a necessary condition of the property it is wired into, see props.go).

import (
	"fmt"
	"go/token"
	"go/types"
	"strings"

	"golang.org/x/tools/go/ssa"
)

// ruleNewKeepsConfig: witness.New hands the configured values to the witness as they are: on every success path the
// Witness it returns holds exactly Opts.KnownLogs, Opts.Signers and Opts.Persistence; the configured log map is never
// written or deleted from; and the module declares no note.Verifier / note.Signer of its own (verification and signing
// are done by the keys' own implementations, never by a wrapper).
func ruleNewKeepsConfig(w *World, r *Run, rule string) {
	fn := w.fn(fnWitnessNew)
	if fn == nil || len(fn.Params) < 1 || (len(fn.Params) > 1 && !(len(fn.Params) == 2 && fn.Signature.Variadic() && w.variadicUnused(fn))) {
		r.Undecided(rule, fnWitnessNew, "", "anchor not found")
		return
	}
	e := w.engine(4, 2)
	e.opaque[cInit] = true
	sums := e.Explore(fn)
	r.Analysed(fnWitnessNew, len(sums))
	wo := mk("param", fn.Params[0].Name(), 0, fn.Params[0].Type())
	optF := func(typ string) *Term { return fieldByType(wo, typ) }
	nOK := 0
	for _, s := range sums {
		if s.Trunc != "" {
			r.Undecided(rule, fnWitnessNew, "", "path enumeration truncated: "+s.Trunc)
			return
		}
		for _, ev := range eventsOfKind(s, "mapupdate", "mapdelete") {
			if ev.Recv != nil && mentions(ev.Recv, wo) {
				if ev.Kind == "mapupdate" && hasherOnlyWriteBack(w, fn, ev.Pos) {
					continue // the entry read under this key is written back with nothing but its hash strategy filled in: same logs, same keys, same origins
				}
				r.Fail(rule, fnWitnessNew+" | the configured log map is not modified", w.pos(ev.Pos), "witness.New "+ev.Kind+"s an entry of the map it was configured with (the witness map and the list the feeders, the endpoint and the distributor were given no longer describe the same logs)")
			}
		}
		if len(s.Rets) != 2 || s.Rets[1].Kind != "nil" {
			continue
		}
		nOK++
		wv := s.Rets[0]
		var sv *Term
		if wv.Kind == "alloc" {
			if x, ok := s.Mem[wv.key]; ok && x.Kind == "structval" {
				sv = x
			} else if et := elemType(wv.Typ); et != nil {
				if st, ok := et.Underlying().(*types.Struct); ok {
					var fvs []*Term
					for i := 0; i < st.NumFields(); i++ {
						if cv, ok := s.Mem[mk("faddr", st.Field(i).Name(), 0, nil, wv).key]; ok {
							fvs = append(fvs, mk("fieldval", st.Field(i).Name(), 0, st.Field(i).Type(), cv))
						}
					}
					sv = mk("structval", typeStr(et), 0, et, fvs...)
				}
			}
		}
		good := sv != nil
		why := "witness.New does not return a freshly built Witness"
		if good {
			var logs, signers, lsp *Term
			for _, f := range sv.Args {
				if len(f.Args) != 1 || f.Args[0] == nil {
					continue
				}
				switch typeStr(f.Args[0].Typ) {
				case "map[string]witness.LogInfo":
					logs = f.Args[0]
				case "[]note.Signer":
					signers = f.Args[0]
				case "persistence.LogStatePersistence", "witness.LogStatePersistence":
					lsp = f.Args[0]
				}
			}
			switch {
			case logs != optF("map[string]witness.LogInfo") && faithfulMapCopy(s, logs, optF("map[string]witness.LogInfo")):
				// a private copy with every entry taken over as it is
			case logs != optF("map[string]witness.LogInfo"):
				good, why = false, "the witness's log map is "+short(fmt.Sprint(logs))+", not the configured map as it is (re-keyed, wrapped or copied entries change which verifier and origin a log ID stands for)"
			case signers != optF("[]note.Signer"):
				good, why = false, "the witness's signers are "+short(fmt.Sprint(signers))+", not the configured ones"
			case lsp != nil && lsp != optF("witness.LogStatePersistence") && lsp != optF("persistence.LogStatePersistence"):
				good, why = false, "the witness's store is not the one it was configured with"
			}
		}
		r.Check(good, rule, fnWitnessNew+" | the witness holds exactly the configured logs, signers and store", w.pos(s.RetPos), why)
	}
	if nOK == 0 {
		r.Undecided(rule, fnWitnessNew, "", "no success path")
	}
	// no verifier or signer implemented in the module
	for _, im := range []struct{ pkg, iface, meth string }{{"golang.org/x/mod/sumdb/note", "Verifier", "Verify"}, {"golang.org/x/mod/sumdb/note", "Signer", "Sign"}} {
		m := ifaceMethod(w, im.pkg, im.iface, im.meth)
		if m == nil {
			r.Undecided(rule, im.pkg+"."+im.iface, "", "interface not found")
			continue
		}
		clean := true
		for _, f := range w.implementations(m) {
			if w.isProd(f) && f.Synthetic == "" && strings.HasPrefix(pkgPathOf(f), modPath) && !strings.Contains(pkgPathOf(f), "/cmd/") {
				clean = false
				r.Fail(rule, "module | no "+im.iface+" implemented outside the key libraries", w.pos(f.Pos()), short(f.String())+" implements note."+im.iface+": a checkpoint could be accepted or cosigned by code that is not the configured key's own implementation")
			}
		}
		if clean {
			r.Pass(rule, "module | no "+im.iface+" implemented outside the key libraries", "", "")
		}
	}
}

// ruleRefusalErrorCarriesNoCosignature (C03.b): on the compositions Update ∘ store no error returned for a refused update is
// built from the output of note.Sign (an error text reaches logs, HTTP bodies and callers).
func ruleRefusalErrorCarriesNoCosignature(w *World, r *Run, rule string) {
	n := 0
	for _, store := range []string{"inmemory", "sql"} {
		c, ok := compose(w, r, rule, fnUpdate, store)
		if !ok {
			continue
		}
		clean := true
		for _, s := range c.sums {
			if len(s.Rets) != 2 || s.Rets[1].Kind == "nil" {
				continue
			}
			n++
			// the cosigned bytes formatted into the error text: reached through fmt.Errorf/Sprintf arguments, struct values,
			// conversions and the contents of allocations — not through the arguments of other calls (an error *about* them)
			var leak func(t *Term, depth int) bool
			leak = func(t *Term, depth int) bool {
				if t == nil || depth > 8 {
					return false
				}
				switch t.Kind {
				case "call":
					if t.Name == cSign && t.Idx == 1 {
						return true
					}
					if t.Name == "fmt.Errorf" || t.Name == "fmt.Sprintf" || t.Name == "fmt.Sprint" || t.Name == "errors.Join" {
						for _, a := range t.Args[2:] {
							if leak(a, depth+1) {
								return true
							}
						}
					}
					return false
				case "alloc":
					if v, ok := s.Mem[t.key]; ok {
						return leak(v, depth+1)
					}
					return false
				}
				for _, a := range t.Args {
					if leak(a, depth+1) {
						return true
					}
				}
				return false
			}
			bad := leak(s.Rets[1], 0)
			if bad {
				clean = false
				r.Fail(rule, fnUpdate+" ∘ "+store+" | the error of a refused update carries no cosignature", w.pos(s.RetPos), "the error returned for a refused update is built from the freshly cosigned checkpoint ("+short(s.Rets[1].String())+"): a witness signature over a checkpoint that was not accepted leaves the witness through logs and error bodies")
			}
		}
		if clean {
			r.Pass(rule, fnUpdate+" ∘ "+store+" | the error of a refused update carries no cosignature", "", "")
		}
	}
	if n == 0 {
		r.Undecided(rule, fnUpdate+" ∘ store", "", "no refusal path on the compositions")
	}
}

// ruleEndpointErrorBodies (C03.e / C10.c): a response that is not 200 and not the stale-size answer carries no text derived
// from the witness's error or from the bytes it returned.
func ruleEndpointErrorBodies(w *World, r *Run, rule string) {
	a := analyseUpdate(w, r)
	if !a.guard(r, rule) {
		return
	}
	clean := true
	n := 0
	for _, o := range updateOutcomes(a) {
		ep, ok := endpointUnder(w, r, rule, o)
		if !ok {
			return
		}
		trusted, uerr := ep.eng.stub[cFeederUpdate][0], ep.eng.stub[cFeederUpdate][1]
		for _, s := range ep.sums {
			st, isConst := statusOf(s)
			if !isConst || st == "200" {
				continue
			}
			n++
			for _, ev := range append(calls(s, cRWWrite), calls(s, "net/http.Error")...) {
				for _, x := range ev.Args {
					if x == nil {
						continue
					}
					if (uerr.Kind != "nil" && mentions(x, uerr)) || (trusted.Kind == "stubval" && rawMention(x, trusted)) {
						clean = false
						r.Fail(rule, fnServeHTTP+" | refusals and faults are answered without text from the witness", w.pos(ev.Pos), "a "+st+" answer carries "+short(x.String())+": the witness's error text (which can quote checkpoints and cosignatures) or its bytes reach the client on a request that was not accepted")
					}
				}
			}
		}
	}
	if clean {
		r.Check(n > 0, rule, fnServeHTTP+" | refusals and faults are answered without text from the witness", "", "no non-200 path explored")
	}
}

// ruleStoredBytesNotRecycled (C04.g / C05.g): on Update ∘ inmemory nothing is appended or copied into the backing array of a
// value that is (or was) held in the checkpoint map: slices handed out by earlier reads alias it.
func ruleStoredBytesNotRecycled(w *World, r *Run, rule string) {
	c, ok := compose(w, r, rule, fnUpdate, "inmemory")
	if !ok {
		return
	}
	ck := memMapField(c.preset)
	if ck == nil {
		r.Undecided(rule, "in-memory store | checkpoint map", "", "the store does not hold exactly one map")
		return
	}
	fromMap := func(t *Term) bool {
		return anySub(t, func(x *Term) bool { return x.Kind == "lookup" && x.Name == "val" && x.Args[0] == ck })
	}
	clean := true
	for _, s := range c.sums {
		report := func(pos, what string) {
			clean = false
			r.Fail(rule, fnUpdate+" ∘ inmemory | the bytes of a stored checkpoint are never written through", pos, what+": every slice an earlier read handed out shares that array, so readers see bytes change under them and the compare-and-set compares memory with itself")
		}
		for _, ev := range s.Events {
			switch {
			case ev.Kind == "store" && ev.Recv != nil && ev.Recv.Kind == "indexaddr" && fromMap(ev.Recv.Args[0]):
				report(w.pos(ev.Pos), "an element of a stored checkpoint is assigned")
			case ev.Kind == "call" && ev.Callee == "builtin:copy" && len(ev.Args) > 0 && fromMap(ev.Args[0]):
				report(w.pos(ev.Pos), "copy() into a stored checkpoint")
			}
			for _, a0 := range append(append([]*Term(nil), ev.Args...), ev.Recv) {
				if a0 == nil {
					continue
				}
				anySub(a0, func(x *Term) bool {
					if x.Kind == "append" && len(x.Args) > 0 && x.Args[0].Kind == "slice" && fromMap(x.Args[0]) {
						report(w.pos(ev.Pos), "append onto a reslice of a stored checkpoint ("+short(x.String())+")")
					}
					return false
				})
			}
			for _, b := range ev.Binds {
				anySub(b, func(x *Term) bool {
					if x.Kind == "append" && len(x.Args) > 0 && x.Args[0].Kind == "slice" && fromMap(x.Args[0]) {
						report(w.pos(ev.Pos), "append onto a reslice of a stored checkpoint ("+short(x.String())+")")
					}
					return false
				})
			}
		}
	}
	if clean {
		r.Pass(rule, fnUpdate+" ∘ inmemory | the bytes of a stored checkpoint are never written through", "", "")
	}
}

// ruleFetchUnderCallersContext (C13.h): the fetch functions a feeder hands to feeder.Run/FeedOnce do their network calls
// under the context they are called with (the per-cycle deadline), not under a context captured from FeedLog.
func ruleFetchUnderCallersContext(w *World, r *Run, rule string) {
	n := 0
	for _, fp := range feederPkgs {
		ff, ok := feederFuncs(w, r, rule, fp)
		if !ok {
			continue
		}
		for _, cl := range []*ssa.Function{ff.fetchProof, ff.fetchCheckpoint} {
			if cl == nil {
				continue
			}
			var own *Term
			for _, p := range cl.Params {
				if typeStr(p.Type()) == "context.Context" {
					own = mk("param", p.Name(), 0, p.Type())
				}
			}
			if own == nil {
				continue
			}
			e := w.engine(4, 1)
			for _, s := range e.Explore(cl) {
				if s.Trunc != "" {
					continue
				}
				for _, ev := range s.Events {
					if ev.Kind != "call" {
						continue
					}
					for _, a0 := range ev.Args {
						if a0 == nil || a0.Typ == nil || typeStr(a0.Typ) != "context.Context" {
							continue
						}
						n++
						derived := a0 == own || mentions(a0, own)
						r.Check(derived, rule, funcNameOrSSA(outermost(cl))+" | fetches run under the context the fetch function is called with", w.pos(ev.Pos), short(ev.Callee)+" is given "+short(a0.String())+", not the context of this fetch: the per-cycle deadline does not bound it, a stalled log stalls the feeder beyond its cycle")
					}
				}
			}
		}
	}
	if n == 0 {
		r.Info(rule, "feeder fetch functions", "", "no context-taking call found in the fetch functions")
	}
	// and no closure built in FeedLog captures FeedLog's own (service-lifetime) context: what a fetch function needs it gets
	// as its parameter, per cycle
	for _, fp := range feederPkgs {
		name := modPath + "/internal/feeder/" + fp + ".FeedLog"
		fn := w.fn(name)
		if fn == nil {
			continue
		}
		var ctxP *ssa.Parameter
		for _, p := range fn.Params {
			if typeStr(p.Type()) == "context.Context" {
				ctxP = p
			}
		}
		if ctxP == nil {
			continue
		}
		holds := func(v ssa.Value) bool {
			if v == ssa.Value(ctxP) {
				return true
			}
			if al, ok := v.(*ssa.Alloc); ok && al.Referrers() != nil {
				for _, ref := range *al.Referrers() {
					if st, ok := ref.(*ssa.Store); ok && st.Addr == ssa.Value(al) && st.Val == ssa.Value(ctxP) {
						return true
					}
				}
			}
			return false
		}
		clean := true
		var scan func(f *ssa.Function)
		scan = func(f *ssa.Function) {
			for _, b := range f.Blocks {
				for _, in := range b.Instrs {
					if mc, ok := in.(*ssa.MakeClosure); ok {
						for _, bnd := range mc.Bindings {
							if holds(bnd) {
								clean = false
								r.Fail(rule, name+" | no closure captures FeedLog's own context", w.pos(mc.Pos()), "a closure built in FeedLog captures the service-lifetime context: fetches made through it are not bounded by the per-cycle deadline that feeder.Run sets, so a stalled log stalls the feeder for good")
							}
						}
					}
				}
			}
			for _, af := range f.AnonFuncs {
				scan(af)
			}
		}
		scan(fn)
		if clean {
			r.Pass(rule, name+" | no closure captures FeedLog's own context", "", "")
		}
	}
}

// ruleReadLimitsConstant (C18.f): io.LimitReader / http.MaxBytesReader limits in production code are positive constants (a
// limit taken from a response header such as Content-Length is -1 for chunked bodies: everything reads as empty).
func ruleReadLimitsConstant(w *World, r *Run, rule string) {
	n := 0
	for _, fn := range w.prodFns() {
		for _, b := range fn.Blocks {
			for _, in := range b.Instrs {
				c, ok := in.(ssa.CallInstruction)
				if !ok {
					continue
				}
				sc := c.Common().StaticCallee()
				if sc == nil {
					continue
				}
				name := funcName(sc)
				idx := -1
				switch name {
				case "io.LimitReader":
					idx = 1
				case "net/http.MaxBytesReader":
					idx = 2
				case "net/http.MaxBytesHandler":
					idx = 1
				}
				if idx < 0 || idx >= len(c.Common().Args) {
					continue
				}
				n++
				posConst := func(v ssa.Value) bool {
					k, isConst := v.(*ssa.Const)
					return isConst && k.Value != nil && k.Int64() > 0
				}
				arg := c.Common().Args[idx]
				good := posConst(arg)
				// a helper that takes the limit as a parameter: every caller in the module passes a positive constant
				if p, isParam := arg.(*ssa.Parameter); isParam && !good {
					pi := -1
					for i, fp := range fn.Params {
						if fp == p {
							pi = i
						}
					}
					callers := 0
					good = pi >= 0
					for _, cf := range w.prodFns() {
						for _, cb := range cf.Blocks {
							for _, cin := range cb.Instrs {
								if cc, ok := cin.(ssa.CallInstruction); ok && cc.Common().StaticCallee() == fn && pi < len(cc.Common().Args) {
									callers++
									if !posConst(cc.Common().Args[pi]) {
										good = false
									}
								}
							}
						}
					}
					if callers == 0 {
						good = false
					}
				}
				// or configuration: a value computed from constants, parameters of plain type and fields of the receiver or of
				// configuration structures — nothing a peer sends (no call result, no field of a response or request)
				if !good && configValue(fn, arg, 0) {
					good = true
				}
				// or a field of an options structure whose only production value is one positive constant (devirt.go)
				if u, isLoad := arg.(*ssa.UnOp); !good && isLoad {
					if fa, ok := u.X.(*ssa.FieldAddr); ok {
						if k := w.fieldConstDefault(fa); k != nil && k.Value != nil && k.Int64() > 0 {
							good = true
						}
					}
				}
				r.Check(good, rule, funcNameOrSSA(outermost(fn))+" | read limit is a positive constant", w.pos(in.Pos()), name+" is given a limit that is neither a positive constant nor configuration: a value such as Content-Length is -1 for chunked responses and silently turns every body into an empty one")
			}
		}
	}
	if n == 0 {
		r.Undecided(rule, "read limits", "", "no LimitReader/MaxBytes call found")
	}
}

// ruleNoDerefOfFailedResult (C15.g / C19.j): a pointer result of a call is not dereferenced on a path that established the
// call's error to be non-nil (net/http's Client.Do, Get, … return a nil response with an error: the dereference panics).
func ruleNoDerefOfFailedResult(w *World, r *Run, rule string, roots ...string) {
	n := 0
	for _, root := range roots {
		fn := w.fn(root)
		if fn == nil {
			r.Undecided(rule, root, "", "anchor not found")
			continue
		}
		e := w.engine(5, 1)
		sums := e.Explore(fn)
		r.Analysed(root, len(sums))
		for _, s := range sums {
			if s.Trunc != "" {
				continue
			}
			for _, ev := range s.Events {
				if ev.Kind != "fieldaddr" || ev.Recv == nil || ev.Recv.Kind != "call" || ev.Recv.Idx < 1 {
					continue
				}
				n++
				ct := ev.Recv
				// calls whose pointer results are nil when they fail: net/http (nil response), ParseCheckpoint and note.Open
				// (no checkpoint and — when the note did not even open — no note)
				if !(ct.Idx == 1 && (strings.HasPrefix(ct.Name, "(*net/http.Client).") || strings.HasPrefix(ct.Name, "net/http."))) && ct.Name != cParse && ct.Name != cOpen {
					continue
				}
				// the call's error result
				bad := false
				for _, f := range s.Facts {
					if f.Seq > ev.Seq || f.Pos || f.T.Kind != "binop" || f.T.Name != "==" {
						continue
					}
					x, y := f.T.Args[0], f.T.Args[1]
					if x.Kind == "nil" {
						x, y = y, x
					}
					if y.Kind == "nil" && x.Kind == "call" && x.Name == ct.Name && x.Idx != ct.Idx && isErrorType(x.Typ) && len(x.Args) == len(ct.Args) && x.Args[0] == ct.Args[0] {
						bad = true
					}
				}
				r.Check(!bad, rule, root+" | a result is not dereferenced on the path where its call failed", w.pos(ev.Pos), "the result of "+short(ct.Name)+" is dereferenced (field "+ev.Callee+") on a path where its error is non-nil: the call returns nil results with an error (net/http a nil response; ParseCheckpoint a nil note when the bytes are not a signed note at all), so a failure panics instead of being handled")
			}
		}
	}
	if n == 0 {
		r.Info(rule, "dereferences of call results", "", "none found")
	}
}

// ruleLocksReleased (C19.k): every function of the module that takes a sync mutex releases it on every path that returns.
func ruleLocksReleased(w *World, r *Run, rule string) {
	n := 0
	for _, fn := range w.prodFns() {
		if fn.Parent() != nil {
			continue
		}
		has := false
		for _, b := range fn.Blocks {
			for _, in := range b.Instrs {
				if c, ok := in.(ssa.CallInstruction); ok {
					if sc := c.Common().StaticCallee(); sc != nil {
						if op, isL := isLockOp(funcName(sc)); isL && (op == "Lock" || op == "RLock") {
							has = true
						}
					}
				}
			}
		}
		if !has {
			continue
		}
		e := w.engine(2, 2)
		sums := e.Explore(fn)
		r.Analysed(funcNameOrSSA(fn), len(sums))
		for _, s := range sums {
			if s.Trunc != "" || s.Panic {
				continue
			}
			held := map[*Term]int{}
			for _, ev := range s.Events {
				if ev.Kind != "call" || ev.Recv == nil {
					continue
				}
				if op, isL := isLockOp(ev.Callee); isL {
					switch op {
					case "Lock", "RLock":
						held[ev.Recv]++
					case "Unlock", "RUnlock":
						held[ev.Recv]--
					}
				}
			}
			n++
			leaked := false
			for _, c := range held {
				if c > 0 {
					leaked = true
				}
			}
			r.Check(!leaked, rule, funcNameOrSSA(fn)+" | every lock taken is released on every returning path", w.pos(s.RetPos), "a path returns with a mutex still held: the next caller blocks for ever (requests are never answered)")
		}
	}
	if n == 0 {
		r.Undecided(rule, "lock users", "", "no function taking a mutex found")
	}
}

// ruleLabelArity (C19.l / C20.e): every Inc passes as many label values as the counter was created with label names (the
// monitoring layer rejects or mis-files a mismatched increment).
func ruleLabelArity(w *World, r *Run, rule string) {
	cNew := "(" + pMon + ".MetricFactory).NewCounter"
	n := 0
	for _, pkg := range []string{pWitness, pBastion, pRest, pFeeder} {
		// label counts per counter location, from running the functions that only Once.Do runs
		_, onces := counterBindings(w, newRun("x", "quick", 0), pkg, rule)
		arity := map[string]int{}
		for f := range onces {
			e := w.engine(3, 1)
			for _, s := range e.Explore(f) {
				if s.Panic {
					continue
				}
				for _, ev := range calls(s, cNew) {
					if len(ev.Args) == 3 && ev.Args[2].Kind == "varargs" {
						arity[ev.Res.key] = len(ev.Args[2].Args)
					} else if len(ev.Args) == 3 {
						// no label names at all: the variadic parameter is a nil slice
						if l, ok := knownLen(ev.Args[2]); ok {
							arity[ev.Res.key] = l
						}
					}
				}
				// where each created counter ends up
				for _, st := range eventsOfKind(s, "store") {
					if len(st.Args) != 1 {
						continue
					}
					bindOne := func(loc *Term, v *Term) {
						if a, ok := arity[v.key]; ok && loc != nil {
							arity[loc.key] = a
						}
					}
					var addrVal func(a *Term) *Term
					addrVal = func(a *Term) *Term {
						switch a.Kind {
						case "gaddr":
							return mk("global", a.Name, 0, nil)
						case "faddr":
							if base := addrVal(a.Args[0]); base != nil {
								return mk("field", a.Name, 0, nil, base)
							}
						}
						return nil
					}
					loc := addrVal(st.Recv)
					v := st.Args[0]
					if v.Kind == "alloc" {
						if sv, ok := s.Mem[v.key]; ok {
							v = sv
						}
					}
					if v.Kind == "structval" {
						for _, fv := range v.Args {
							if len(fv.Args) == 1 && loc != nil {
								bindOne(mk("field", fv.Name, 0, nil, loc), fv.Args[0])
							}
						}
					} else {
						bindOne(loc, v)
					}
				}
			}
		}
		if len(arity) == 0 {
			continue
		}
		// every increment in the package
		for _, fn := range w.prodFns() {
			if pkgPathOf(fn) != pkg {
				continue
			}
			for _, b := range fn.Blocks {
				for _, in := range b.Instrs {
					call, ok := in.(*ssa.Call)
					if !ok || !call.Call.IsInvoke() || call.Call.Method.FullName() != cInc {
						continue
					}
					u, ok := call.Call.Value.(*ssa.UnOp)
					if !ok {
						continue
					}
					loc := ssaLoc(u.X)
					if loc == nil {
						continue
					}
					want, known := arity[loc.key]
					if !known {
						continue
					}
					got := -1
					if len(call.Call.Args) == 1 {
						switch x := call.Call.Args[0].(type) {
						case *ssa.Slice:
							if al, ok := x.X.(*ssa.Alloc); ok {
								if at, ok := al.Type().Underlying().(*types.Pointer).Elem().Underlying().(*types.Array); ok {
									got = int(at.Len())
								}
							}
						case *ssa.Const:
							if x.IsNil() {
								got = 0
							}
						}
					}
					if got < 0 {
						continue
					}
					n++
					r.Check(got == want, rule, pkg+" counter "+short(loc.String())+" | increments pass as many label values as the counter has labels", w.pos(in.Pos()), fmt.Sprintf("%s is created with %d label(s) but incremented with %d value(s): the increment is rejected or mis-filed (and an inert counter can be left locked)", short(loc.String()), want, got))
				}
			}
		}
	}
	if n == 0 {
		r.Undecided(rule, "counter increments", "", "no increment through a package-level counter found")
	}
}

// ruleYAMLStrictness (C17.a): if any production decoder of the log configuration rejects unknown fields, every key of every
// shipped entry must be a declared field.
func ruleYAMLStrictness(w *World, r *Run, rule string) {
	strict := ""
	for _, fn := range w.prodFns() {
		for _, b := range fn.Blocks {
			for _, in := range b.Instrs {
				c, ok := in.(ssa.CallInstruction)
				if !ok {
					continue
				}
				sc := c.Common().StaticCallee()
				if sc == nil || funcName(sc) != "(*gopkg.in/yaml.v3.Decoder).KnownFields" {
					continue
				}
				args := c.Common().Args
				if k, ok := args[len(args)-1].(*ssa.Const); ok && k.Value != nil && k.Value.String() == "true" {
					strict = w.pos(in.Pos())
				}
			}
		}
	}
	if strict == "" {
		r.Pass(rule, "configuration decoders | unknown keys tolerated everywhere", "", "")
		return
	}
	c, ok := extractConstraints(w, r, rule)
	if !ok {
		return
	}
	known := map[string]bool{}
	for _, k := range c.yamlKeys {
		known[k] = true
	}
	bad := shippedUnknownKeys(w, known)
	for _, b := range bad {
		r.Fail(rule, "shipped configuration | no key that a strict decoder rejects", b, "a binary decodes the log configuration with KnownFields(true) ("+strict+") but a shipped entry carries a key that is not a field of the configuration struct: that binary refuses to start")
	}
	if len(bad) == 0 {
		r.Pass(rule, "shipped configuration | no key that a strict decoder rejects", "", "")
	}
}

// ruleClientReadsWholeBody: the bundled HTTP client's read mapping (C16.c) under another property's label.
func ruleClientReadsWholeBody(w *World, r *Run, rule string) {
	sub := newRun(r.Prop, r.Tier, r.Seed)
	ruleReadAPI(w, sub)
	n := 0
	for _, v := range sub.verdicts {
		if v.Rule != "C16.c" {
			continue
		}
		n++
		v.Key = rule + strings.TrimPrefix(v.Key, "C16.c")
		v.Rule = rule
		r.verdicts = append(r.verdicts, v)
		r.evals++
	}
	for f := range sub.funcs {
		r.funcs[f] = true
	}
	r.paths += sub.paths
	if n == 0 {
		r.Undecided(rule, fnCGetLatest, "", "the client's rule produced no verdict")
	}
}

// ruleFeederAs: the feeder's per-attempt anchoring rules (C13.b: old size and proof of the same attempt) under another label.
func ruleFeederAs(w *World, r *Run, rule string) {
	sub := newRun(r.Prop, r.Tier, r.Seed)
	ruleFeeder(w, sub)
	n := 0
	for _, v := range sub.verdicts {
		if v.Rule != "C13.b" {
			continue
		}
		n++
		v.Key = rule + strings.TrimPrefix(v.Key, "C13.b")
		v.Rule = rule
		r.verdicts = append(r.verdicts, v)
		r.evals++
	}
	for f := range sub.funcs {
		r.funcs[f] = true
	}
	r.paths += sub.paths
	if n == 0 {
		r.Undecided(rule, fnFeedOnce, "", "the feeder's anchoring rule produced no verdict")
	}
}

// configValue: the SSA value is computed from constants, package variables, parameters that are not network objects, and
// fields reached from those — never from the result of a call.
func configValue(fn *ssa.Function, v ssa.Value, depth int) bool {
	if depth > 8 {
		return false
	}
	switch x := v.(type) {
	case *ssa.Const, *ssa.Global:
		return true
	case *ssa.Parameter:
		ts := typeStr(x.Type())
		return !strings.Contains(ts, "http.Request") && !strings.Contains(ts, "http.Response") && !strings.Contains(ts, "io.Read")
	case *ssa.FreeVar:
		return true
	case *ssa.Convert:
		return configValue(fn, x.X, depth+1)
	case *ssa.ChangeType:
		return configValue(fn, x.X, depth+1)
	case *ssa.UnOp:
		return configValue(fn, x.X, depth+1)
	case *ssa.FieldAddr:
		return configValue(fn, x.X, depth+1)
	case *ssa.Field:
		return configValue(fn, x.X, depth+1)
	case *ssa.BinOp:
		return configValue(fn, x.X, depth+1) && configValue(fn, x.Y, depth+1)
	case *ssa.Phi:
		for _, e := range x.Edges {
			if e != v && !configValue(fn, e, depth+1) {
				return false
			}
		}
		return true
	}
	return false
}

// faithfulMapCopy: dst is a map built in this function (or maps.Clone(src)) that receives, for every iteration over src on
// this path, exactly the iteration's key and value — a copy entry by entry, nothing re-keyed, wrapped or left out.
func faithfulMapCopy(s Summary, dst, src *Term) bool {
	if dst == nil || src == nil {
		return false
	}
	if dst.Kind == "call" && dst.Name == "maps.Clone" && len(dst.Args) == 3 && dst.Args[2] == src {
		return true
	}
	if dst.Kind != "alloc" {
		return false
	}
	copied := map[string]bool{}
	for _, mu := range eventsOfKind(s, "mapupdate") {
		if mu.Recv != dst {
			continue
		}
		k, v := mu.Args[0], mu.Args[1]
		if !(k.Kind == "rangekey" && v.Kind == "rangeelem" && k.Name == v.Name && len(k.Args) == 1 && len(v.Args) == 1 && k.Args[0] == v.Args[0]) {
			return false
		}
		it := k.Args[0]
		if it.Kind != "rangeiter" || len(it.Args) == 0 || it.Args[0] != src {
			return false
		}
		copied[k.Name] = true
	}
	// every iteration over src that the path ran through has its update; and the path does range over src at all (a fresh
	// empty map is not a copy)
	n, ranged := 0, false
	for _, ev := range s.Events {
		if (ev.Kind == "iter" || ev.Kind == "iterdone") && ev.Recv != nil && ev.Recv.Kind == "rangeiter" && len(ev.Recv.Args) > 0 && ev.Recv.Args[0] == src {
			ranged = true
			if ev.Kind == "iter" {
				if !copied[fmt.Sprint(n)] {
					return false
				}
				n++
			}
		}
	}
	return ranged
}

// hasherOnlyWriteBack: the map update at pos (in fn or one of its closures) stores, under the key it was read with, a cell that was
// copied from an entry of the same map (range or lookup) and of which only fields of a hasher interface type were written since.
func hasherOnlyWriteBack(w *World, fn *ssa.Function, pos token.Pos) bool {
	var fns []*ssa.Function
	var add func(f *ssa.Function)
	add = func(f *ssa.Function) {
		fns = append(fns, f)
		for _, a := range f.AnonFuncs {
			add(a)
		}
	}
	add(fn)
	for _, f := range fns {
		for _, b := range f.Blocks {
			for _, in := range b.Instrs {
				mu, ok := in.(*ssa.MapUpdate)
				if !ok || mu.Pos() != pos {
					continue
				}
				ld, ok := mu.Value.(*ssa.UnOp)
				if !ok {
					return false
				}
				cell, ok := ld.X.(*ssa.Alloc)
				if !ok {
					return false
				}
				fromSameMap := false
				for _, ref := range *cell.Referrers() {
					switch x := ref.(type) {
					case *ssa.Store:
						if x.Addr != cell {
							continue
						}
						// value: extract #2 of next(range m)  or  lookup m[k] / extract #0 of m[k],ok
						v := x.Val
						if e, ok := v.(*ssa.Extract); ok {
							switch t := e.Tuple.(type) {
							case *ssa.Next:
								if rg, ok := t.Iter.(*ssa.Range); ok && sameLoad(rg.X, mu.Map) && e.Index == 2 {
									if k, ok := mu.Key.(*ssa.Extract); ok && k.Tuple == t && k.Index == 1 {
										fromSameMap = true
									}
								}
							case *ssa.Lookup:
								if sameLoad(t.X, mu.Map) && sameLoad(t.Index, mu.Key) && e.Index == 0 {
									fromSameMap = true
								}
							}
						} else if lk, ok := v.(*ssa.Lookup); ok && sameLoad(lk.X, mu.Map) && sameLoad(lk.Index, mu.Key) {
							fromSameMap = true
						}
						if !fromSameMap {
							return false
						}
					case *ssa.FieldAddr:
						written := false
						for _, r2 := range *x.Referrers() {
							if st, ok := r2.(*ssa.Store); ok && st.Addr == x {
								written = true
							}
						}
						if written {
							ft := x.X.Type().Underlying().(*types.Pointer).Elem().Underlying().(*types.Struct).Field(x.Field).Type()
							if _, isIface := ft.Underlying().(*types.Interface); !isIface || !strings.HasSuffix(ft.String(), "Hasher") {
								return false
							}
						}
					}
				}
				return fromSameMap
			}
		}
	}
	return false
}

// sameLoad: the same value, or two loads of the same field of the same base / the same cell (go/ssa does no CSE).
func sameLoad(a, b ssa.Value) bool {
	if a == b {
		return true
	}
	ua, ok1 := a.(*ssa.UnOp)
	ub, ok2 := b.(*ssa.UnOp)
	if !ok1 || !ok2 {
		return false
	}
	if ua.X == ub.X {
		return true
	}
	fa, ok1 := ua.X.(*ssa.FieldAddr)
	fb, ok2 := ub.X.(*ssa.FieldAddr)
	return ok1 && ok2 && fa.Field == fb.Field && (fa.X == fb.X || sameLoad(fa.X, fb.X))
}

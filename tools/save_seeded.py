#!/usr/bin/env python3
"""Copies confirmed mutants into /verif/seeded/<id>-<n>/ and records which checks catch them (runs the checks on the patched /repo, then undoes the patch)."""
import json, os, subprocess, sys, shutil, glob, re, tempfile
src = sys.argv[1] if len(sys.argv) > 1 else '/tmp/mut/out'
rnd = sys.argv[2] if len(sys.argv) > 2 else 'round1'
confdir = sys.argv[3] if len(sys.argv) > 3 else '/tmp/mut/confirm'
os.chdir('/verif')
for d in sorted(glob.glob(src + '/C*/[0-9]*')):
    if not os.path.exists(d + '/patch.diff') or not os.path.exists(d + '/meta.json'):
        continue
    pid = os.path.basename(os.path.dirname(d)); n = os.path.basename(d)
    conf = '%s/%s-%s.txt' % (confdir, pid, n)
    ctext = open(conf).read() if os.path.exists(conf) else ''
    if 'confirmed=yes' not in ctext:
        print(pid, n, 'not confirmed; skipped'); continue
    name = '%s-%s' % (pid, n) if rnd == 'round1' else '%s-%s-%s' % (pid, rnd, n)
    dst = '/verif/seeded/' + name
    os.makedirs(dst, exist_ok=True)
    shutil.copy(d + '/patch.diff', dst + '/patch.diff')
    demos = sorted(glob.glob(d + '/demo*.go'))
    for f in demos:
        shutil.copy(f, dst + '/' + os.path.basename(f) + '.txt')  # .txt so that go tooling never picks it up inside /verif
    meta = json.load(open(d + '/meta.json'))
    assert subprocess.run(['git', '-C', '/repo', 'diff', '--quiet']).returncode == 0, '/repo dirty'
    # patches may have been written against an earlier HEAD of /repo (before a later fix: commit)
    if subprocess.run(['git', '-C', '/repo', 'apply', d + '/patch.diff'], capture_output=True).returncode != 0:
        if subprocess.run(['git', '-C', '/repo', 'apply', '-C1', d + '/patch.diff'], capture_output=True).returncode != 0:
            print(name, 'does not apply to the current HEAD of /repo (conflicts with a later fix: commit); detection record left as it was')
            continue
    tmp = tempfile.mkdtemp()
    try:
        out = subprocess.run(['bin/wcheck', '-prop', 'all', '-tier', 'quick', '-evdir', tmp], capture_output=True, text=True).stdout
    finally:
        subprocess.run(['git', '-C', '/repo', 'reset', '-q', '--hard', 'HEAD']); subprocess.run(['git', '-C', '/repo', 'clean', '-fdq'])
        shutil.rmtree(tmp)
    rules = {}
    for ln in out.splitlines():
        m = re.search(r': rule (\S+) (violation|undecided): (.*?)  \[key: (\S+) \|', ln)
        if m:
            rules.setdefault(m.group(1), m.group(3)[:220])
    props = re.findall(r'^VIOLATION property=(C\d+)', out, re.M)
    own = sorted(r for r in rules if r.startswith(pid + '.'))
    newmeta = {
        'property': pid,
        'origin': 'written by an independent sub-agent that saw only the property text (' + rnd + ')',
        'summary': meta.get('summary'),
        'what_it_needs_to_manifest': meta.get('what_it_needs_to_manifest'),
        'files_changed': meta.get('files_changed'),
        'demonstration': {'file': [os.path.basename(f) + '.txt' for f in demos], 'place_in': meta.get('demo_dir'), 'cmd': meta.get('demo_cmd')},
        'confirmed_by_me': {
            'how': 'scratch worktree of /repo HEAD: (a) clean tree + demo: go test of the demo package passes; (b) patch applied: go build ./... and go test -count=1 ./... (unedited suite) pass; (c) patch + demo: the demo fails',
            'result': 'confirmed',
        },
        'agent_ran': meta.get('ran'),
        'checks': {
            'command': 'git -C /repo apply patch.diff; bin/wcheck -prop all -tier quick -evdir <tmp>; git -C /repo checkout -- .',
            'own_property_rules_fired': own,
            'all_rules_fired': rules,
            'failing_properties': props,
            'detected_by_own_property': pid in props,
        },
    }
    json.dump(newmeta, open(dst + '/meta.json', 'w'), indent=1)
    print(name, 'own:', own, 'props:', props)

#!/bin/bash
# usage: tools/tryfa.sh <patch.diff> [props...] — applies the patch in the persistent scratch worktree /tmp/wtfa (reset first) and runs the checks there
wt=/tmp/wtfa
[ -d $wt ] || git -C /repo worktree add -q --detach $wt HEAD
git -C $wt checkout -q --detach $(git -C /repo rev-parse HEAD) 2>/dev/null
git -C $wt checkout -q -- . && git -C $wt clean -fdq
git -C $wt apply "$1" || git -C $wt apply -C1 "$1" || { echo "patch does not apply"; exit 2; }
shift
for p in ${*:-all}; do ${WCHECK:-/verif/bin/wcheck} -repo $wt -prop $p -evdir /tmp/evx 2>&1 | grep -E ": rule |VIOLATION|KNOWN" | sed -E 's/  \[key:.*//' | cut -c1-${CUT:-400}; done

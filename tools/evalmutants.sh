#!/bin/bash
# evaluates every delivered mutant: own-property check and all checks
for d in ${1:-/tmp/mut/out}/C*/[12]; do
  [ -f $d/patch.diff ] || continue
  id=$(basename $(dirname $d)); n=$(basename $d)
  if ! git -C /repo diff --quiet; then echo "/repo dirty"; exit 2; fi
  if ! git -C /repo apply --check $d/patch.diff 2>/dev/null; then echo "$id/$n: PATCH DOES NOT APPLY"; continue; fi
  git -C /repo apply $d/patch.diff
  tmp=$(mktemp -d)
  own=$(bin/wcheck -prop $id -tier quick -evdir $tmp 2>&1 | grep -E ": rule " | sed -E 's/.*: rule ([A-Za-z0-9.]+) (violation|undecided).*/\1:\2/' | sort | uniq -c | tr '\n' ' ')
  all=$(bin/wcheck -prop all -tier quick -evdir $tmp 2>&1 | grep -E "^VIOLATION" | sed -E 's/VIOLATION property=(C[0-9]+).*/\1/' | tr '\n' ' ')
  git -C /repo checkout -- . ; git -C /repo clean -fdq
  rm -rf $tmp
  echo "$id/$n: own=[${own}] failing_props=[${all}]"
done

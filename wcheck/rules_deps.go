package main

// D-rules (thorough tier, informational): contracts of pinned dependencies that the rules rely on are
// discharged structurally from the dependencies' own source. They never change the exit status: the
// dependencies are not the code under test and cannot change offline; a D-rule that no longer holds is
// printed and recorded in the evidence file so that the trusted base is stated honestly.

import (
	"fmt"
	"go/ast"
	"go/constant"
	"go/token"
	"go/types"
	"math/big"
	"strings"

	"golang.org/x/tools/go/ssa"
)

func depFn(w *World, name string) *ssa.Function {
	for _, fn := range w.funcs {
		if fn.Blocks != nil && fn.Synthetic == "" && funcName(fn) == name && fn.Parent() == nil {
			return fn
		}
	}
	return nil
}

func runDRules(w *World, r *Run, which ...string) {
	var res []map[string]any
	note := func(id, what string, ok bool, detail string) {
		res = append(res, map[string]any{"d_rule": id, "contract": what, "discharged": ok, "detail": detail})
		if !ok {
			fmt.Printf("D-RULE-NOT-DISCHARGED %s: %s (%s)\n", id, what, detail)
		}
	}
	for _, id := range which {
		switch id {
		case "D1":
			what := "formats/log.ParseCheckpoint: a non-nil *Checkpoint is returned only after note.Open succeeded, a signature matching the log verifier's key hash and name was found, the body unmarshalled, and cp.Origin == origin; every other return carries a nil checkpoint and a non-nil error"
			fn := depFn(w, cParse)
			if fn == nil {
				note(id, what, false, "source of the dependency not loaded")
				continue
			}
			e := &Engine{prog: w.prog, fset: w.fset, modPrefix: "github.com/transparency-dev/formats/log", maxDepth: 1, loopBound: 2, maxPaths: 20000, funcByName: w.funcs,
				opaque: map[string]bool{"(*github.com/transparency-dev/formats/log.Checkpoint).Unmarshal": true}, hof: map[string]int{}}
			sums := e.Explore(fn)
			ok := len(sums) > 0
			detail := fmt.Sprintf("%d paths", len(sums))
			nOK := 0
			origin := mk("param", fn.Params[1].Name(), 0, fn.Params[1].Type())
			lv := mk("param", fn.Params[2].Name(), 0, fn.Params[2].Type())
			for _, s := range sums {
				if s.Trunc != "" || len(s.Rets) != 4 {
					ok, detail = false, "truncated or malformed path"
					continue
				}
				if s.Rets[0].Kind == "nil" {
					if !neverNil(s.Rets[3]) {
						ok, detail = false, "nil checkpoint returned with a possibly nil error"
					}
					continue
				}
				nOK++
				op := calls(s, cOpen)
				um := calls(s, "(*github.com/transparency-dev/formats/log.Checkpoint).Unmarshal")
				good := len(op) == 1 && okBefore(s, op[0], 0) && len(um) == 1 && okBefore(s, um[0], 0) && s.Rets[3].Kind == "nil" && s.Rets[2] == res0(op[0])
				// signature match facts: s.Hash == logVerifier.KeyHash() and s.Name == logVerifier.Name()
				kh, nm, org := false, false, false
				for _, f := range s.Facts {
					if f.T.Kind != "binop" || f.T.Name != "==" {
						continue
					}
					str := f.T.String()
					if f.Pos && strings.Contains(str, "KeyHash") && strings.Contains(str, ".Hash") && mentions(f.T, lv) {
						kh = true
					}
					if f.Pos && strings.Contains(str, ").Name") && strings.Contains(str, ".Name") && mentions(f.T, lv) {
						nm = true
					}
					if f.Pos && mentions(f.T, origin) && strings.Contains(str, "Origin") {
						org = true
					}
				}
				if !(good && kh && nm && org) {
					ok = false
					detail = fmt.Sprintf("a success path lacks a contract fact (open/unmarshal=%v keyhash=%v name=%v origin=%v)", good, kh, nm, org)
				}
			}
			if nOK == 0 {
				ok, detail = false, "no success path"
			}
			note(id, what, ok, detail)
		case "D2":
			what := "x/mod note.Open: refuses notes with more than 100 signature lines (the limit C08.a guards against)"
			p := w.pkg("golang.org/x/mod/sumdb/note")
			ok, detail := false, "package not loaded"
			if p != nil {
				// the limit is the comparison `numSig > 100` on the counter incremented per signature line in Open
				fd := findFuncDecl(p.Syntax, "", "Open")
				detail = "Open not found"
				if fd != nil {
					detail = "no '> 100' comparison found in Open"
					ast.Inspect(fd, func(n ast.Node) bool {
						be, isB := n.(*ast.BinaryExpr)
						if !isB || be.Op != token.GTR {
							return true
						}
						if bl, isL := be.Y.(*ast.BasicLit); isL && bl.Value == "100" {
							ok, detail = true, "Open rejects when its per-line counter exceeds 100 ("+w.pos(be.Pos())+")"
						}
						return true
					})
				}
			}
			note(id, what, ok, detail)
		case "D3":
			what := "x/mod tlog.Tile.Path: for hash tiles the reference implementation's own path is tile/<H>/<L>/[x<NNN>/]*<NNN>[.p/<W>] with k digit groups exactly for pathBase^(k-1) <= N < pathBase^k and the suffix exactly when W != 1<<H — the layout C18.a/c compare the client's URLs with"
			ok, detail := d3TilePath(w)
			note(id, what, ok, detail)
		}
	}
	r.extra["d_rules"] = res
}

func res0(e Event) *Term { return res(e, 0) }

// d3TilePath runs the path engine on the source of tlog.Tile.Path and parses what it returns with the same
// template parser and the same conditions the C18 rules apply to the client: the layout the rules call "the
// reference" is thereby the one the dependency's source has, not a transcription of it.
func d3TilePath(w *World) (bool, string) {
	tl := w.pkg("golang.org/x/mod/sumdb/tlog")
	if tl == nil {
		return false, "package not loaded"
	}
	ref, _ := tl.Types.Scope().Lookup("pathBase").(*types.Const)
	fn := depFn(w, "(golang.org/x/mod/sumdb/tlog.Tile).Path")
	if ref == nil || fn == nil {
		return false, "pathBase or Tile.Path not found"
	}
	baseI, _ := constant.Int64Val(ref.Val())
	base := big.NewInt(baseI)
	e := &Engine{prog: w.prog, fset: w.fset, modPrefix: "golang.org/x/mod/sumdb/tlog", maxDepth: 1, loopBound: 2, maxPaths: 20000, funcByName: w.funcs, opaque: map[string]bool{}, hof: map[string]int{}}
	sums := e.Explore(fn)
	t := mk("param", fn.Params[0].Name(), 0, fn.Params[0].Type()) // the receiver
	fld := func(f string) *Term { return mk("field", f, 0, nil, t) }
	one := mk("const", "1", 0, types.Typ[types.Int])
	cT := func(x *big.Int) *Term { return mk("const", x.String(), 0, types.Typ[types.Int]) }
	maxGroups, n := 0, 0
	type parsed struct {
		s *Summary
		u tileURL
	}
	var ps []parsed
	for i := range sums {
		s := &sums[i]
		if s.Panic || len(s.Rets) != 1 {
			continue
		}
		if s.Trunc != "" {
			// the path cut by the unrolling bound: its digit-group chain is incomplete
			continue
		}
		pieceCtx = s
		pcs := mergeLits(strPieces(s.Rets[0]))
		// data tiles (L == -1) are addressed as tile/<H>/data/…: not requested by the hash reader, not covered
		if strings.Contains(piecesString(pcs), "data") {
			continue
		}
		u, ok := parseTileURL(pcs, base)
		if !ok {
			return false, "Tile.Path returns " + piecesString(pcs) + ", which " + u.why
		}
		if u.groups > maxGroups {
			maxGroups = u.groups
		}
		ps = append(ps, parsed{s, u})
	}
	for _, p := range ps {
		u, s := p.u, p.s
		n++
		if u.height != fld("H") || u.level != fld("L") || u.off != normInt(fld("N")) {
			return false, fmt.Sprintf("coordinates are (%s, %s, %s), not (t.H, t.L, t.N)", short(u.height.String()), short(u.level.String()), short(u.off.String()))
		}
		facts := normFactsInt(s.Facts, nil, nil)
		lo := new(big.Int).Exp(base, big.NewInt(int64(u.groups-1)), nil)
		hi := new(big.Int).Mul(lo, base)
		if u.groups > 1 && !implies(facts, "<", u.off, cT(lo), false) {
			return false, fmt.Sprintf("%d digit groups on a path that does not imply N >= %s", u.groups, lo)
		}
		if u.groups < maxGroups && !implies(facts, "<", u.off, cT(hi), true) {
			return false, fmt.Sprintf("%d digit group(s) on a path that does not imply N < %s", u.groups, hi)
		}
		// suffix exactly when W != 1<<H
		full := mk("binop", "<<", 0, nil, one, mk("conv", "uint", 0, nil, fld("H")))
		_ = full
		hasNe, hasEq := false, false
		for _, f := range s.Facts {
			if f.T.Kind == "binop" && (f.T.Name == "!=" || f.T.Name == "==") && mentions(f.T, fld("W")) && mentions(f.T, fld("H")) && strings.Contains(f.T.String(), "<<") {
				ne := (f.T.Name == "!=") == f.Pos
				if ne {
					hasNe = true
				} else {
					hasEq = true
				}
			}
		}
		if u.width == nil && !hasEq {
			return false, "a path without the .p/ suffix does not imply W == 1<<H"
		}
		if u.width != nil && (!hasNe || u.width != fld("W")) {
			return false, "a path with the .p/ suffix does not imply W != 1<<H or does not carry t.W"
		}
	}
	if n < 4 || maxGroups < 2 {
		return false, fmt.Sprintf("vacuity floor: %d parsed paths, %d digit groups at most", n, maxGroups)
	}
	return true, fmt.Sprintf("%d paths of Tile.Path parsed with the C18 template parser (pathBase %d, up to %d digit groups checked), all conform", n, baseI, maxGroups)
}

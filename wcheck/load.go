package main

import (
	"fmt"
	"go/ast"
	"go/token"
	"go/types"
	"os"
	"sort"
	"strings"

	"golang.org/x/tools/go/packages"
	"golang.org/x/tools/go/ssa"
	"golang.org/x/tools/go/ssa/ssautil"
)

const modPath = "github.com/transparency-dev/witness"

// World is the loaded, type-checked program plus its SSA form.
type World struct {
	repo    string
	fset    *token.FileSet
	pkgs    []*packages.Package // module packages
	all     map[string]*packages.Package
	prog    *ssa.Program
	spkgs   []*ssa.Package
	funcs   map[string]*ssa.Function // by ssa String()
	byName  map[string]*ssa.Function // by canonical funcName (module functions only)
	modFns  []*ssa.Function          // module functions with bodies, sorted
	overlay map[string][]byte
	loadErr []string
	ginit   map[string]*Term
	// tilePathSlash counts the SumDB tile path templates recognised by C18.a, by whether they start with '/'
	tilePathSlash map[bool]int
}

func loadWorld(repo string, overlay map[string][]byte, withDeps bool) (*World, error) {
	cfg := &packages.Config{
		Mode: packages.NeedName | packages.NeedFiles | packages.NeedCompiledGoFiles | packages.NeedImports | packages.NeedDeps |
			packages.NeedTypes | packages.NeedSyntax | packages.NeedTypesInfo | packages.NeedTypesSizes | packages.NeedModule,
		Dir:     repo,
		Env:     append(os.Environ(), "GOFLAGS=", "GOPROXY=off", "GOSUMDB=off", "GOTOOLCHAIN=local", "GOWORK=off"),
		Overlay: overlay,
	}
	pkgs, err := packages.Load(cfg, "./...")
	if err != nil {
		return nil, fmt.Errorf("packages.Load: %v", err)
	}
	if len(pkgs) == 0 {
		return nil, fmt.Errorf("no packages loaded from %s", repo)
	}
	w := &World{repo: repo, pkgs: pkgs, all: map[string]*packages.Package{}, overlay: overlay}
	curWorld = w
	tp := map[string]*types.Package{}
	packages.Visit(pkgs, nil, func(p *packages.Package) {
		w.all[p.PkgPath] = p
		if p.Types != nil {
			tp[p.PkgPath] = p.Types
		}
	})
	registerTypes(tp)
	for _, p := range pkgs {
		for _, e := range p.Errors {
			w.loadErr = append(w.loadErr, fmt.Sprintf("%s: %s", p.PkgPath, e.Msg))
		}
		for _, f := range p.IgnoredFiles {
			if !strings.HasSuffix(f, "_test.go") {
				w.loadErr = append(w.loadErr, fmt.Sprintf("%s: file %s excluded by build constraints (not analysed)", p.PkgPath, f))
			}
		}
		if p.Types == nil || p.IllTyped {
			w.loadErr = append(w.loadErr, fmt.Sprintf("%s: ill-typed", p.PkgPath))
		}
	}
	if len(w.loadErr) > 0 {
		return w, fmt.Errorf("load errors: %s", strings.Join(w.loadErr, "; "))
	}
	w.fset = pkgs[0].Fset
	if withDeps {
		w.prog, w.spkgs = ssautil.AllPackages(pkgs, ssa.InstantiateGenerics)
	} else {
		w.prog, w.spkgs = ssautil.Packages(pkgs, ssa.InstantiateGenerics)
	}
	w.prog.Build()
	w.funcs = map[string]*ssa.Function{}
	w.byName = map[string]*ssa.Function{}
	for fn := range ssautil.AllFunctions(w.prog) {
		w.funcs[fn.String()] = fn
		if fn.Blocks != nil && strings.HasPrefix(pkgPathOf(fn), modPath) {
			w.modFns = append(w.modFns, fn)
			if fn.Synthetic == "" || fn.Parent() != nil {
				w.byName[funcNameOrSSA(fn)] = fn
			}
		}
	}
	// anonymous functions are not all reachable through AllFunctions' roots in old x/tools; add them explicitly
	var addAnon func(fn *ssa.Function)
	addAnon = func(fn *ssa.Function) {
		for _, a := range fn.AnonFuncs {
			if _, ok := w.funcs[a.String()]; !ok {
				w.funcs[a.String()] = a
				if a.Blocks != nil && strings.HasPrefix(pkgPathOf(a), modPath) {
					w.modFns = append(w.modFns, a)
					w.byName[a.String()] = a
				}
			}
			addAnon(a)
		}
	}
	for _, fn := range append([]*ssa.Function(nil), w.modFns...) {
		addAnon(fn)
	}
	sort.Slice(w.modFns, func(i, j int) bool { return w.modFns[i].String() < w.modFns[j].String() })
	resolveAnchors(w)
	distCtors = ctorsOf(w, pRest, "Distributor")
	logMapBuilders = findLogMapBuilders(w)
	return w, nil
}

func funcNameOrSSA(fn *ssa.Function) string {
	if fn.Parent() != nil {
		return fn.String()
	}
	return funcName(fn)
}

// fn looks a module function up by its canonical (types.Func.FullName) name.
func (w *World) fn(name string) *ssa.Function {
	return w.byName[name]
}

func (w *World) pkg(path string) *packages.Package { return w.all[path] }

// globalInits evaluates the module's package initialisers once and records the values stored into package-level
// variables that no other function ever assigns (literal tables: slices of checks, maps of handlers, …).
func (w *World) globalInits() map[string]*Term {
	if w.ginit != nil {
		return w.ginit
	}
	w.ginit = map[string]*Term{}
	assignedElsewhere := map[string]bool{}
	for _, fn := range w.modFns {
		if fn.Name() == "init" && fn.Synthetic != "" {
			continue
		}
		for _, b := range fn.Blocks {
			for _, in := range b.Instrs {
				if st, ok := in.(*ssa.Store); ok {
					if g, ok := st.Addr.(*ssa.Global); ok {
						assignedElsewhere[g.Pkg.Pkg.Path()+"."+g.Name()] = true
					}
				}
				// a map loaded from a package-level variable may only be read (lookup, range, len)
				if u, ok := in.(*ssa.UnOp); ok && u.Op == token.MUL {
					if g, ok := u.X.(*ssa.Global); ok {
						if _, isMap := u.Type().Underlying().(*types.Map); isMap && u.Referrers() != nil {
							for _, ref := range *u.Referrers() {
								switch rr := ref.(type) {
								case *ssa.Lookup, *ssa.Range, *ssa.DebugRef:
								case *ssa.Call:
									if bi, ok := rr.Call.Value.(*ssa.Builtin); !ok || bi.Name() != "len" {
										assignedElsewhere[g.Pkg.Pkg.Path()+"."+g.Name()] = true
									}
								default:
									assignedElsewhere[g.Pkg.Pkg.Path()+"."+g.Name()] = true
								}
							}
						}
					}
				}
				// address taken and passed on: treat as assignable
				for _, op := range in.Operands(nil) {
					if g, ok := (*op).(*ssa.Global); ok {
						switch in.(type) {
						case *ssa.Store, *ssa.UnOp, *ssa.FieldAddr, *ssa.IndexAddr:
						default:
							assignedElsewhere[g.Pkg.Pkg.Path()+"."+g.Name()] = true
						}
					}
				}
			}
		}
	}
	e := &Engine{prog: w.prog, fset: w.fset, modPrefix: modPath, maxDepth: 3, loopBound: 1, maxPaths: 2000, funcByName: w.funcs, opaque: map[string]bool{}, hof: map[string]int{}, hofMethod: map[string]string{}}
	for _, fn := range w.modFns {
		if !(fn.Name() == "init" && fn.Synthetic != "" && fn.Parent() == nil) {
			continue
		}
		for _, s := range e.Explore(fn) {
			// the path that actually initialises: the package's own guard was false
			ran := false
			for _, f := range s.Facts {
				if !f.Pos && f.T.Kind == "deref" || !f.Pos && strings.Contains(f.T.String(), "init$guard") {
					ran = true
				}
			}
			if !ran || s.Trunc != "" {
				continue
			}
			for k, v := range s.Mem {
				if !strings.HasPrefix(k, "gaddr:") && strings.Contains(k, "(gaddr:") && !strings.Contains(k, "init$guard") && v != nil {
					// a cell below a package-level variable (array element, field of one): usable when the variable is never
					// assigned outside its initialiser
					i := strings.Index(k, "(gaddr:")
					name := k[i+len("(gaddr:"):]
					if j := strings.IndexAny(name, "),"); j >= 0 {
						name = name[:j]
					}
					if !assignedElsewhere[name] && (v.Kind == "const" || v.Kind == "func" || v.Kind == "structval" || v.Kind == "varargs") {
						w.ginit[k] = v
					}
					continue
				}
				if !strings.HasPrefix(k, "gaddr:") || strings.Contains(k, "init$guard") {
					continue
				}
				name := strings.TrimPrefix(k, "gaddr:")
				if assignedElsewhere[name] || v == nil {
					continue
				}
				switch v.Kind {
				case "varargs", "structval", "const", "func":
					w.ginit[k] = v
				case "alloc":
					// a map literal: make + one update per entry, all keys constants or package-level variables
					if _, isMap := v.Typ.Underlying().(*types.Map); isMap && strings.Contains(v.Name, "/makemap@") {
						var kv []*Term
						okLit := true
						for _, ev := range s.Events {
							if ev.Recv != v {
								continue
							}
							if ev.Kind == "mapupdate" && len(ev.Args) == 2 && (ev.Args[0].Kind == "const" || ev.Args[0].Kind == "global") {
								kv = append(kv, ev.Args[0], ev.Args[1])
							} else if ev.Kind != "mapread" {
								okLit = false
							}
						}
						if okLit {
							w.ginit[k] = mk("maplit", name, 0, v.Typ, kv...)
						}
					}
				}
			}
		}
	}
	return w.ginit
}

// thoroughTier deepens every exploration: one more loop unrolling, inlining depth at least 8.
var thoroughTier bool

func (w *World) engine(depth, loops int) *Engine {
	if thoroughTier {
		loops++
		if depth > 0 && depth < 8 {
			depth = 8
		}
	}
	return &Engine{ifaceFlow: w.ifaceFlow, fieldFunc: w.fieldFuncDefault, variadicUnused: w.variadicUnused, fieldConst: w.fieldConstDefault, fieldConstByName: w.fieldConstByName, uniqueImpl: w.uniqueImpl, globalInit: w.globalInits(), prog: w.prog, fset: w.fset, modPrefix: modPath, maxDepth: depth, loopBound: loops, maxPaths: 20000, funcByName: w.funcs, opaque: map[string]bool{}, hof: map[string]int{}, hofMethod: map[string]string{}}
}

func (w *World) pos(p token.Pos) string {
	if !p.IsValid() {
		return "?"
	}
	pp := w.fset.Position(p)
	return fmt.Sprintf("%s:%d", strings.TrimPrefix(pp.Filename, w.repo+"/"), pp.Line)
}

// isProd reports whether a module function belongs to production scope
// (not test helpers, not the load-test tool, not checker canaries).
func (w *World) isProd(fn *ssa.Function) bool {
	p := pkgPathOf(fn)
	if strings.HasSuffix(p, "/testonly") || strings.HasSuffix(p, "/cmd/loadtest") {
		return false
	}
	for f := fn; f != nil; f = f.Parent() {
		if strings.HasPrefix(f.Name(), "zzCanary") {
			return false
		}
	}
	return true
}

func isCanary(fn *ssa.Function) bool {
	for f := fn; f != nil; f = f.Parent() {
		if strings.HasPrefix(f.Name(), "zzCanary") {
			return true
		}
		if strings.Contains(f.String(), "zzCanary") {
			return true
		}
	}
	return false
}

// object lookup helpers (type-resolved anchors)
func (w *World) lookup(pkgPath, name string) types.Object {
	p := w.all[pkgPath]
	if p == nil || p.Types == nil {
		return nil
	}
	return p.Types.Scope().Lookup(name)
}

func (w *World) structField(pkgPath, typeName, field string) *types.Var {
	o := w.lookup(pkgPath, typeName)
	if o == nil {
		return nil
	}
	st, ok := o.Type().Underlying().(*types.Struct)
	if !ok {
		return nil
	}
	for i := 0; i < st.NumFields(); i++ {
		if st.Field(i).Name() == field {
			return st.Field(i)
		}
	}
	return nil
}

// fileOf returns the syntax file containing pos.
func (w *World) fileOf(p *packages.Package, pos token.Pos) *ast.File {
	for _, f := range p.Syntax {
		if f.Pos() <= pos && pos <= f.End() {
			return f
		}
	}
	return nil
}

// curWorld: the program under analysis (one per process), for helpers that resolve names without a World parameter
var curWorld *World

var uniqueImplCache = map[*World]map[*types.Func]*ssa.Function{}

// uniqueImpl: when exactly one production (non-test) type of the module implements the interface that declares m, the
// method of that type; nil otherwise. Interfaces declared outside the module are never resolved this way.
func (w *World) uniqueImpl(m *types.Func) *ssa.Function {
	if m == nil || m.Pkg() == nil || !strings.HasPrefix(m.Pkg().Path(), modPath) {
		return nil
	}
	c := uniqueImplCache[w]
	if c == nil {
		c = map[*types.Func]*ssa.Function{}
		uniqueImplCache[w] = c
	}
	if f, ok := c[m]; ok {
		return f
	}
	var found []*ssa.Function
	seen := map[string]bool{}
	for _, f := range w.implementations(m) {
		if f == nil || !w.isProd(f) {
			continue
		}
		// a pointer and its element type are one implementation
		rt := f.Signature.Recv().Type()
		if p, ok := rt.(*types.Pointer); ok {
			rt = p.Elem()
		}
		k := types.TypeString(rt, nil)
		if seen[k] {
			continue
		}
		seen[k] = true
		found = append(found, f)
	}
	var out *ssa.Function
	// only consumer-side interfaces (declared in another package than their implementation): a provider-side interface
	// next to its implementation is a deliberate seam (client.Fetcher) and stays an interface call
	if len(found) == 1 && found[0].Synthetic == "" && pkgPathOf(found[0]) != m.Pkg().Path() {
		out = found[0]
	}
	c[m] = out
	return out
}

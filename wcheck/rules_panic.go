package main

// C19: no network input can crash the witness or leave a request unanswered.
// C18: SumDB tile addressing constants and coordinate plumbing.

import (
	"fmt"
	"go/ast"
	"go/constant"
	"go/token"
	"go/types"
	"math/big"
	"sort"
	"strconv"
	"strings"

	"golang.org/x/tools/go/ssa"
)

// networkRoots: functions that process bytes coming from the network.
func networkRoots(w *World, r *Run, rule string) []*ssa.Function {
	var roots []*ssa.Function
	add := func(name string) {
		if fn := w.fn(name); fn != nil {
			roots = append(roots, fn)
		} else {
			r.Undecided(rule, name, "", "network-input root not found")
		}
	}
	add(fnServeHTTP)
	add(fnParseBody)
	add(fnUnmarshal)
	add(fnMarshal)
	add(fnFeedOnce)
	add(fnDistOnce)
	add(fnCGetLatest)
	add("(" + pCHTTP + ".Witness).Update")
	// the read API's handlers: by name, or — when they were reshaped into functions or closures — whatever in the package
	// takes an http.ResponseWriter
	if w.fn(fnHGetCP) != nil && w.fn(fnHGetLogs) != nil {
		add(fnHGetCP)
		add(fnHGetLogs)
	} else {
		n := 0
		for _, fn := range w.prodFns() {
			if pkgPathOf(fn) != pIHTTP || fn.Synthetic != "" {
				continue
			}
			for _, p := range fn.Params {
				if typeStr(p.Type()) == "http.ResponseWriter" {
					roots = append(roots, fn)
					n++
					break
				}
			}
		}
		if n < 2 {
			r.Undecided(rule, fnHGetCP, "", "network-input root not found")
		}
	}
	add(fnUpdate)
	add(fnGetCheckpoint)
	// the fetch closures of the five feeders (they parse log responses) and everything in internal/client
	for _, fp := range feederPkgs {
		if fn := w.fn(modPath + "/internal/feeder/" + fp + ".FeedLog"); fn != nil {
			roots = append(roots, fn.AnonFuncs...)
		} else {
			r.Undecided(rule, "feeder "+fp, "", "FeedLog not found")
		}
	}
	for _, fn := range w.prodFns() {
		if pkgPathOf(fn) == pClient && fn.Parent() == nil && fn.Synthetic == "" {
			// the serverless feeder's fetcher constructor (wherever it lives) runs once at start-up on the configured URL:
			// its refusal of an unsupported scheme is decided by the configuration rules (C17), not by network input
			if funcName(fn) == modPath+"/internal/feeder/serverless.newFetcher" {
				continue
			}
			roots = append(roots, fn)
		}
	}
	return roots
}

// confirmedSafe: implicit-panic sites that the zone cannot discharge, confirmed by reading; one reason each.
// Key: function | kind | operand description (semantic, not positional).
var confirmedSafe = map[string]string{
	modPath + "/internal/feeder/sumdb | slice2arr | to.Hash -> [32]byte": "the checkpoint bytes passed tlog.ParseTree (exactly 32-byte hash) in fetchCheckpoint -> ParseCheckpointNote before FeedOnce parsed them again (rule C19.b-sumdb-raw below checks that provenance)",
}

func ruleExplicitPanic(w *World, r *Run, rule string) map[*ssa.Function]bool {
	roots := networkRoots(w, r, rule)
	reach := reachableModule(w, roots)
	n := 0
	var names []string
	for fn := range reach {
		if !w.isProd(fn) {
			continue
		}
		names = append(names, funcNameOrSSA(fn))
		for _, b := range fn.Blocks {
			for _, in := range b.Instrs {
				p, ok := in.(*ssa.Panic)
				if !ok {
					continue
				}
				// go/ssa's own panics in unreachable blocks (after an infinite loop) are not code
				if len(b.Preds) == 0 && b != fn.Blocks[0] {
					continue
				}
				n++
				r.Fail(rule, funcNameOrSSA(fn)+" | no explicit panic on a path that processes network input", w.pos(p.Pos()), "panic reachable from a network-input root ("+short(fn.String())+")")
			}
		}
	}
	sort.Strings(names)
	r.extra["functions_reachable_from_network_roots"] = len(names)
	if n == 0 {
		r.Pass(rule, "explicit panic sites reachable from network-input roots: none", "", "")
	}
	if len(names) < 25 {
		r.Undecided(rule, "network-reachable set", "", fmt.Sprintf("only %d functions reachable from the network roots (call-graph construction broken?)", len(names)))
	}
	return reach
}

func descOperand(t *Term) string {
	return short(t.String())
}

// ruleImplicitPanic enumerates index/slice/conversion/assertion sites in network-reachable functions and discharges
// each with the zone facts of every path reaching it, or with the confirmed-safe table.
func ruleImplicitPanic(w *World, r *Run, rule string, reach map[*ssa.Function]bool) {
	type siteKey struct {
		fn  string
		pos token.Pos
	}
	type siteRes struct {
		kind    string
		desc    string
		ok      bool
		why     string
		pos     token.Pos
		fn      string
		operand *Term
	}
	sites := map[siteKey]*siteRes{}
	var fns []*ssa.Function
	for fn := range reach {
		if w.isProd(fn) {
			fns = append(fns, fn)
		}
	}
	sort.Slice(fns, func(i, j int) bool { return fns[i].String() < fns[j].String() })
	zero := mk("const", "0", 0, types.Typ[types.Int])
	for _, fn := range fns {
		// does it contain candidate instructions at all?
		has := false
		for _, b := range fn.Blocks {
			for _, in := range b.Instrs {
				switch x := in.(type) {
				case *ssa.IndexAddr:
					if _, isAlloc := x.X.(*ssa.Alloc); isAlloc {
						if _, isC := x.Index.(*ssa.Const); isC {
							continue
						}
					}
					has = true
				case *ssa.Index, *ssa.SliceToArrayPointer:
					has = true
				case *ssa.MakeSlice:
					if _, isC := x.Len.(*ssa.Const); !isC {
						has = true
					}
				case *ssa.Slice:
					if x.Low != nil || x.High != nil {
						has = true
					}
				case *ssa.TypeAssert:
					if !x.CommaOk {
						has = true
					}
				case *ssa.Lookup:
					if _, isMap := x.X.Type().Underlying().(*types.Map); !isMap {
						has = true
					}
				case *ssa.BinOp:
					if (x.Op == token.QUO || x.Op == token.REM) && isIntType(x.Type()) {
						if c, ok := x.Y.(*ssa.Const); !ok || c.Value == nil || constant.Sign(c.Value) == 0 {
							has = true
							k := siteKey{funcNameOrSSA(fn), x.Pos()}
							if configOnly(fn, x.Y, 0) {
								// the divisor is state of the receiver or a package variable (a configured size): whether it is
								// zero does not depend on anything the network sends
								sites[k] = &siteRes{kind: "div", desc: "integer division by configuration state", ok: true, why: "divisor does not depend on input", pos: x.Pos(), fn: funcNameOrSSA(fn)}
							} else {
								sites[k] = &siteRes{kind: "div", desc: "integer division by a non-constant", ok: false, why: "divisor not a non-zero constant", pos: x.Pos(), fn: funcNameOrSSA(fn)}
							}
						}
					}
				}
			}
		}
		if !has {
			continue
		}
		e := engFor(w, 0, 2)
		sums := e.Explore(fn)
		r.Analysed(funcNameOrSSA(fn), len(sums))
		for _, s := range sums {
			if s.Trunc != "" {
				r.Undecided(rule, funcNameOrSSA(fn), w.pos(fn.Pos()), "path enumeration truncated: "+s.Trunc)
				continue
			}
			for _, ev := range s.Events {
				if ev.InFn != fn {
					continue
				}
				var ok bool
				var why, kind, desc string
				// facts established before the event
				var facts []Fact
				for _, f := range s.Facts {
					if f.Seq < ev.Seq {
						facts = append(facts, f)
					}
				}
				// contract invariants of the standard library for values this site mentions: strings.Split* never returns an
				// empty slice
				for _, op := range append([]*Term{ev.Recv}, ev.Args...) {
					if op == nil {
						continue
					}
					anySub(op, func(t *Term) bool {
						// contracts: an index returned by the Index family is below the length of what was searched; the byte
						// count returned by Decode/Read/copy is at most the length of the destination
						if t.Kind == "call" && len(t.Args) >= 3 && t.Args[2] != nil {
							short := t.Name[strings.LastIndex(t.Name, ".")+1:]
							pk := calleePkg(t.Name)
							if (pk == "bytes" || pk == "strings" || pk == "slices") && (strings.HasPrefix(short, "Index") || strings.HasPrefix(short, "LastIndex")) && t.Idx <= 1 {
								ln := mk("len", "", 0, types.Typ[types.Int], t.Args[2])
								facts = append(facts, Fact{T: mk("binop", "<", 0, types.Typ[types.Bool], t, ln), Pos: true})
							}
							if strings.HasSuffix(t.Name, "Encoding).Decode") && t.Idx == 1 {
								ln := mk("len", "", 0, types.Typ[types.Int], t.Args[2])
								facts = append(facts, Fact{T: mk("binop", "<", 0, types.Typ[types.Bool], ln, t), Pos: false}, Fact{T: mk("binop", "<", 0, types.Typ[types.Bool], t, zero), Pos: false})
							}
						}
						if t.Kind == "len" && len(t.Args) == 1 && t.Args[0].Kind == "call" && (t.Args[0].Name == "strings.Split" || t.Args[0].Name == "strings.SplitN" || t.Args[0].Name == "strings.SplitAfter" || t.Args[0].Name == "bytes.Split") {
							facts = append(facts, Fact{T: mk("binop", "<", 0, types.Typ[types.Bool], t, mk("const", "1", 0, types.Typ[types.Int])), Pos: false})
						}
						return false
					})
				}
				switch ev.Kind {
				case "index":
					kind = "index"
					base, idx := ev.Recv, ev.Args[0]
					desc = descOperand(base) + "[" + descOperand(idx) + "]"
					ln := mk("len", "", 0, types.Typ[types.Int], base)
					if at, isArr := arrayLen(base.Typ); isArr {
						if c, isC := constVal(idx); isC && c.Sign() >= 0 && c.Cmp(big.NewInt(at)) < 0 {
							ok, why = true, "constant index into a fixed-size array"
						}
						ln = mk("const", fmt.Sprint(at), 0, types.Typ[types.Int])
					}
					if n, known := knownLen(base); !ok && known {
						ln = mk("const", fmt.Sprint(n), 0, types.Typ[types.Int])
					}
					if !ok && implies(facts, "<", idx, ln, true) && (implies(facts, "<", idx, zero, false) || nonNeg(idx)) {
						ok, why = true, "dominated by facts implying 0 <= index < len"
					}
					// x % len(base) on unsigned operands lies in [0, len(base)) whenever it is evaluated at all
					if !ok {
						ix := idx
						for ix.Kind == "conv" && len(ix.Args) == 1 {
							ix = ix.Args[0]
						}
						if ix.Kind == "binop" && ix.Name == "%" && len(ix.Args) == 2 && isUnsignedTerm(ix) {
							m := ix.Args[1]
							for m.Kind == "conv" && len(m.Args) == 1 {
								m = m.Args[0]
							}
							if m.Kind == "len" && len(m.Args) == 1 && m.Args[0] == base {
								ok, why = true, "index is a remainder modulo the length of the indexed slice"
							}
						}
					}
					// contract: a successful note.Open / ParseCheckpoint returns a note with at least one verified signature
					if !ok && idx.Kind == "const" && idx.Name == "0" && base.Kind == "field" && base.Name == "Sigs" && len(base.Args) == 1 && base.Args[0].Kind == "call" {
						ct := base.Args[0]
						nres := map[string]int{cParse: 4, cOpen: 2}[ct.Name]
						if nres > 0 && ct.Idx == nres-1 {
							errT := mk("call", ct.Name, nres, nil, ct.Args...)
							for _, f := range facts {
								if f.Pos && f.T.Kind == "binop" && f.T.Name == "==" && ((f.T.Args[0] == errT && f.T.Args[1].Kind == "nil") || (f.T.Args[1] == errT && f.T.Args[0].Kind == "nil")) {
									ok, why = true, "contract of note.Open: success implies at least one verified signature"
								}
							}
						}
					}
				case "slice":
					kind = "slice"
					base := ev.Recv
					lo, hi := ev.Args[0], ev.Args[1]
					desc = descOperand(base) + "[" + fmt.Sprint(lo) + ":" + fmt.Sprint(hi) + "]"
					ln := mk("len", "", 0, types.Typ[types.Int], base)
					if base.Typ != nil {
						if _, isSl := base.Typ.Underlying().(*types.Slice); isSl {
							ln = mk("cap", "", 0, types.Typ[types.Int], base) // slicing a slice is bounded by cap; len <= cap
						}
					}
					okLo := lo == nil || implies(facts, "<", lo, zero, false) || nonNeg(lo)
					okHi := hi == nil
					lnLen := mk("len", "", 0, types.Typ[types.Int], base)
					if hi != nil {
						okHi = implies(facts, "<", lnLen, hi, false) && (implies(facts, "<", hi, zero, false) || nonNeg(hi)) // hi <= len <= cap
					}
					okOrder := lo == nil || hi == nil || implies(facts, "<", hi, lo, false)
					if lo != nil && hi == nil {
						okOrder = implies(facts, "<", lnLen, lo, false)
					}
					_ = ln
					if okLo && okHi && okOrder {
						ok, why = true, "dominated by facts implying 0 <= low <= high <= len"
					}
				case "slice2arr":
					kind = "slice2arr"
					desc = descOperand(ev.Recv) + " -> [" + ev.Args[0].Name + "]T"
					ln := mk("len", "", 0, types.Typ[types.Int], ev.Recv)
					if implies(facts, "<", ln, ev.Args[0], false) {
						ok, why = true, "dominated by facts implying len >= array length"
					}
				case "makeslice":
					kind = "makeslice"
					desc = "make(len=" + descOperand(ev.Args[0]) + ", cap=" + descOperand(ev.Args[1]) + ")"
					ok, why = true, "length and capacity are constants, len(…) of existing data, or bounded by facts"
					for _, n := range ev.Args {
						switch {
						case n == nil:
						case n.Kind == "const":
							if c, isC := constVal(n); !isC || c.Sign() < 0 {
								ok = false
							}
						case n.Kind == "len":
						case sizeDerived(n, 0):
							// computed from the sizes of existing data (lengths, counts, encoded/decoded lengths, sums): never
							// negative, and no larger than a small multiple of data already held
						default:
							// the length of existing data minus a constant, known not to be negative
							if lb, off := linear(n); lb != nil && lb.Kind == "len" && off.Sign() <= 0 && implies(facts, "<", n, zero, false) {
								break
							}
							// must be bounded: 0 <= n <= 2^20 by the facts on the path
							if !(implies(facts, "<", n, zero, false) && implies(facts, "<", mk("const", "1048576", 0, types.Typ[types.Int]), n, false)) {
								ok = false
							}
						}
					}
				case "typeassert":
					kind = "typeassert"
					desc = descOperand(ev.Recv) + ".(" + ev.Callee + ")"
					// what comes out of a sync.Pool is what its New function makes and what Put puts in: when every pool of the
					// module is fed values of the asserted type only, the assertion cannot fail
					// a method value taken from an interface value (s.M) is compiled as an assertion of s to its own type: a nil
					// check, no different from the call s.M() itself
					if ev.Recv != nil && ev.Recv.Typ != nil && typeStr(ev.Recv.Typ) == ev.Callee {
						if _, isIface := ev.Recv.Typ.Underlying().(*types.Interface); isIface {
							ok, why = true, "assertion of an interface value to its own type (method value)"
						}
					}
					if ev.Recv != nil && ev.Recv.Kind == "call" && ev.Recv.Name == "(*sync.Pool).Get" {
						if ts := poolElementTypes(w); len(ts) == 1 && ts[ev.Callee] {
							ok, why = true, "every sync.Pool of the module is fed values of this type only (New and Put)"
						}
					}
				default:
					continue
				}
				k := siteKey{funcNameOrSSA(fn), ev.Pos}
				if prev, seen := sites[k]; seen {
					if !ok {
						prev.ok = false
						prev.why = "not discharged on some path"
					}
				} else {
					sites[k] = &siteRes{kind: kind, desc: desc, ok: ok, why: why, pos: ev.Pos, fn: funcNameOrSSA(fn), operand: ev.Recv}
				}
			}
		}
	}
	// report
	var keys []siteKey
	for k := range sites {
		keys = append(keys, k)
	}
	sort.Slice(keys, func(i, j int) bool {
		if keys[i].fn != keys[j].fn {
			return keys[i].fn < keys[j].fn
		}
		return keys[i].pos < keys[j].pos
	})
	auto, tabled := 0, 0
	usedTable := map[string]bool{}
	for _, k := range keys {
		sr := sites[k]
		semKey := sr.fn + " | " + sr.kind + " | " + classifySite(w, sr.fn, sr.kind, sr.operand, sr.desc)
		if sr.ok {
			auto++
			r.Pass(rule, sr.fn+" | "+sr.kind+" | "+sr.desc, w.pos(sr.pos), "")
			continue
		}
		pkgKey := ""
		if f := w.fn(sr.fn); f != nil {
			pkgKey = pkgPathOf(f) + " | " + sr.kind + " | " + classifySite(w, sr.fn, sr.kind, sr.operand, sr.desc)
		} else if i := strings.LastIndex(sr.fn, "."); i > 0 {
			pkgKey = strings.TrimSuffix(strings.TrimPrefix(sr.fn[:i], "(*"), ")") + " | " + sr.kind + " | " + classifySite(w, sr.fn, sr.kind, sr.operand, sr.desc)
		}
		if reason, okT := confirmedSafe[pkgKey]; okT {
			tabled++
			usedTable[pkgKey] = true
			r.Pass(rule, pkgKey+" [confirmed safe: "+reason+"]", w.pos(sr.pos), "")
			continue
		}
		if reason, okT := confirmedSafe[semKey]; okT {
			tabled++
			usedTable[semKey] = true
			r.Pass(rule, semKey+" [confirmed safe: "+reason+"]", w.pos(sr.pos), "")
			continue
		}
		r.Fail(rule, semKey, w.pos(sr.pos), fmt.Sprintf("%s %s in a function that processes network input is neither dominated by a bounds fact nor in the confirmed-safe table: a hostile input can make it panic", sr.kind, sr.desc))
	}
	r.extra["implicit_panic_sites"] = len(keys)
	r.extra["implicit_panic_sites_auto_discharged"] = auto
	r.extra["implicit_panic_sites_confirmed_safe_table"] = tabled
	if len(keys) < 8 && rule == "C19.b" {
		r.Undecided(rule, "implicit-panic site enumeration", "", fmt.Sprintf("only %d candidate sites found", len(keys)))
	}
}

func isIntType(t types.Type) bool {
	b, ok := t.Underlying().(*types.Basic)
	return ok && b.Info()&types.IsInteger != 0
}

func arrayLen(t types.Type) (int64, bool) {
	if t == nil {
		return 0, false
	}
	if p, ok := t.Underlying().(*types.Pointer); ok {
		t = p.Elem()
	}
	if a, ok := t.Underlying().(*types.Array); ok {
		return a.Len(), true
	}
	return 0, false
}

// classifySite gives table entries a semantic description of the operand.
func classifySite(w *World, fn, kind string, operand *Term, desc string) string {
	switch {
	case operand == nil:
		return desc
	case kind == "slice" && operand.Kind == "call" && operand.Name == "strings.Split" && strings.HasSuffix(desc, "[<nil>:(len("+short(operand.String())+") - 1)]"):
		return "strings.Split result [:len-1]"
	case kind == "index" && operand.Kind == "field" && operand.Name == "Sigs" && operand.Args[0].Kind == "call" && operand.Args[0].Name == cParse:
		return "Sigs[0] of the note opened from the witness's returned checkpoint"
	case kind == "slice2arr" && anySub(operand, func(t *Term) bool { return t.Kind == "field" && t.Name == "Hash" }):
		return "to.Hash -> [32]byte"
	}
	return desc
}

// C19.b-sumdb-raw: the SumDB feeder hands FeedOnce only bytes that passed tlog.ParseTree (32-byte hash).
func ruleSumDBRaw(w *World, r *Run, rule string) {
	name := "(*" + pClient + ".SumDBClient).ParseCheckpointNote"
	sums, _, ok := explore(w, r, rule, name, 4, 1)
	if !ok {
		return
	}
	fn := w.fn(name)
	n := 0
	for _, s := range sums {
		if len(s.Rets) != 2 || s.Rets[1].Kind != "nil" {
			continue
		}
		n++
		pt := calls(s, "golang.org/x/mod/sumdb/tlog.ParseTree")
		op := calls(s, cOpen)
		good := len(pt) == 1 && okBefore(s, pt[0], 0) && len(op) == 1 && okBefore(s, op[0], 0) && op[0].Args[0] == paramN(fn, 0)
		if good {
			v := s.Rets[0]
			good = v.Kind == "alloc" && memField(s, v, "Raw") == paramN(fn, 0)
		}
		r.Check(good, rule, name+" | Raw handed out only after note.Open and tlog.ParseTree accepted the same bytes", w.pos(s.RetPos), "a SumDB checkpoint is returned without having passed tlog.ParseTree (which enforces a 32-byte root): the later [32]byte conversion could panic")
	}
	if n == 0 {
		r.Undecided(rule, name, "", "no success path")
	}
	// fetchCheckpoint closure returns LatestCheckpoint().Raw
	if ff, okf := feederFuncs(w, r, rule, "sumdb"); okf && ff.fetchCheckpoint != nil {
		for _, cl := range []*ssa.Function{ff.fetchCheckpoint} {
			sums, _, ok := exploreOpaque(w, r, rule, funcNameOrSSA(cl), 2, 1, name)
			if !ok {
				continue
			}
			for _, s := range sums {
				if len(s.Rets) == 2 && s.Rets[1].Kind == "nil" {
					lc := calls(s, name)
					good := len(lc) == 1 && okBefore(s, lc[0], 0) && s.Rets[0] == mk("field", "Raw", 0, nil, res(lc[0], 0))
					r.Check(good, rule, cl.String()+" | fetchCheckpoint returns the validated checkpoint's Raw bytes", w.pos(s.RetPos), "SumDB fetchCheckpoint returns "+short(s.Rets[0].String()))
				}
			}
		}
	}
}

// C19.c SIZE-NARROWING
func ruleSizeNarrowing(w *World, r *Run, rule string) {
	// tlog evaluates maxpow2(N+1) for the tree size N (subTreeIndex, used by TileHashReader) and maxpow2 only terminates
	// for arguments <= 2^62: the largest size that may reach it is 2^62 - 1.
	limit := new(big.Int).Sub(new(big.Int).Lsh(big.NewInt(1), 62), big.NewInt(1))
	n := 0
	for _, fp := range []string{"sumdb", "pixelbt"} {
		ff, okf := feederFuncs(w, r, rule, fp)
		if !okf {
			continue
		}
		for _, cl := range []*ssa.Function{ff.fetchProof} {
			sums, e, ok := exploreFn(w, r, rule, cl, 2, 1)
			if !ok {
				continue
			}
			for _, s := range sums {
				for _, pv := range calls(s, "golang.org/x/mod/sumdb/tlog.ProveTree") {
					n++
					var facts []Fact
					for _, f := range s.Facts {
						if f.Seq < pv.Seq {
							facts = append(facts, f)
						}
					}
					for i := 0; i < 2 && i < len(pv.Args); i++ {
						a := pv.Args[i]
						if a.Kind != "conv" {
							continue
						}
						src := a.Args[0]
						bounded := false
						// facts must imply src <= c for some constant c <= 2^62 - 1
						for _, f := range facts {
							anySub(f.T, func(t *Term) bool {
								if c, ok := constVal(t); ok && c.Cmp(limit) <= 0 && c.Sign() > 0 {
									if implies(facts, "<", t, src, false) { // !(c < src)  <=>  src <= c
										bounded = true
									}
								}
								return false
							})
						}
						// or bounded through the other (already bounded) size: src <= other <= c
						key := cl.String() + " | size narrowed to int64 for tlog.ProveTree is bounded below 2^62"
						r.Check(bounded, rule, key+fmt.Sprintf(" (argument %d)", i+1), w.pos(pv.Pos), "a log-signed checkpoint size is converted to int64 and handed to tlog.ProveTree without an upper bound <= 2^62-1: for sizes in [2^62, 2^63) tlog.maxpow2 (called with size+1 by the tile hash reader) overflows and never terminates (the feeder cycle hangs beyond its context); path: "+pathString(e, s))
					}
				}
			}
		}
	}
	if n == 0 {
		r.Undecided(rule, "tlog.ProveTree call sites", "", "none found")
	}
}

// C19.e BODY-CAP and C19.f TIMEOUTS-PRESENT
func ruleCapsAndTimeouts(w *World, r *Run, ruleE, ruleF string) {
	// --- body cap: handler given to ServeConn is http.MaxBytesHandler(h, c <= 16384)
	if sums, _, ok := exploreOpaque(w, r, ruleE, fnConnect, 4, 1, pBastion+".selfSignedCertificate"); ok {
		fn := w.fn(fnConnect)
		handler := paramN(fn, 2)
		nServe := 0
		for _, s := range sums {
			for _, sc := range calls(s, "(*golang.org/x/net/http2.Server).ServeConn") {
				nServe++
				opts := sc.Args[1]
				bf := func(a *Term, field string) *Term {
					if a == nil {
						return nil
					}
					if v, ok := sc.Binds[a.key]; ok && v.Kind == "structval" {
						for _, f := range v.Args {
							if f.Name == field {
								return f.Args[0]
							}
						}
					}
					return nil
				}
				// the connection served is one that was made: the dial that produced it succeeded on this path
				if len(sc.Args) > 0 && sc.Args[0] != nil {
					for _, dv := range s.Events {
						if dv.Kind == "call" && dv.Res != nil && dv.Seq < sc.Seq && (res(dv, 0) == sc.Args[0] || mentions(sc.Args[0], res(dv, 0))) && strings.Contains(dv.Callee, "Dial") {
							r.Check(okBefore(s, dv, sc.Seq), ruleF, fnConnect+" | a connection is served only after its dial succeeded", w.pos(sc.Pos), "ServeConn is reached on a path where "+short(dv.Callee)+" failed: the connection is nil there, and serving it panics in the reconnect loop")
						}
					}
				}
				h := bf(opts, "Handler")
				// the handler the loop was given: its http.Handler parameter, or an http.Handler field of its receiver
				given := func(t *Term) bool {
					if t == handler && handler != nil {
						return true
					}
					rp := recvParam(fn)
					// the loop's own receiver, when the loop is a method of the handler
					if rp != nil && t != nil && (t == rp || (len(t.Args) == 1 && t.Args[0] == rp && (t.Kind == "conv" || t.Kind == "makeiface" || t.Kind == "iface"))) {
						return true
					}
					if t == nil || t.Typ == nil || typeStr(t.Typ) != "http.Handler" {
						return false
					}
					return t.Kind == "param" || (t.Kind == "field" && rp != nil && len(t.Args) == 1 && t.Args[0] == rp)
				}
				good := h != nil && h.Kind == "call" && h.Name == "net/http.MaxBytesHandler" && given(h.Args[2])
				if good {
					// the cap: a positive constant, or configuration (nothing in it comes from a call or from the peer)
					if c, okc := constVal(h.Args[3]); okc {
						good = c.Sign() > 0 && c.Cmp(big.NewInt(1<<20)) <= 0
					} else {
						good = !anySub(h.Args[3], func(x *Term) bool {
							switch x.Kind {
							case "call", "out", "recvval", "lookup", "rangeelem", "rangekey":
								return true
							}
							return false
						})
					}
				}
				r.Check(good, ruleE, fnConnect+" | requests capped at 16 KiB", w.pos(sc.Pos), "the handler served on the bastion connection is not http.MaxBytesHandler(handler, c) with c a positive constant (at most 1 MiB) or a configured limit")
				// timeouts on the HTTP/2 server and its base config
				srv := sc.Recv
				for _, f := range []string{"IdleTimeout", "ReadIdleTimeout", "PingTimeout"} {
					v := bf(srv, f)
					r.Check(positiveConst(v), ruleF, fnConnect+" | http2.Server."+f+" set", w.pos(sc.Pos), "http2.Server."+f+" is not a positive constant: a stalled bastion connection is never reaped")
				}
				bc := bf(opts, "BaseConfig")
				for _, f := range []string{"ReadTimeout", "WriteTimeout"} {
					v := bf(bc, f)
					r.Check(positiveConst(v), ruleF, fnConnect+" | BaseConfig."+f+" set", w.pos(sc.Pos), "http.Server."+f+" of the bastion connection is not a positive constant")
				}
			}
			for _, d := range calls(s, "(*crypto/tls.Dialer).DialContext") {
				under := false
				for _, wt := range calls(s, "context.WithTimeout", "context.WithDeadline") {
					if wt.Seq < d.Seq && d.Args[0] == res(wt, 0) {
						under = true // the bounded context made for this very dial (each reconnect makes its own)
					}
				}
				r.Check(under, ruleF, fnConnect+" | dial under a timeout", w.pos(d.Pos), "bastion dial has no timeout")
			}
		}
		if nServe == 0 {
			r.Undecided(ruleE, fnConnect, "", "ServeConn not found")
		}
	}
	// --- HTTP server in Main
	if mps, _, ok := mainPaths(w, r, ruleF); ok {
		n := 0
		for _, mp := range mps {
			if !mp.waited {
				continue
			}
			// srv is a local http.Server alloc captured by the serving goroutine
			for _, g := range mp.gos {
				for k, b := range g.Binds {
					_ = k
					if b.Kind == "structval" && strings.HasSuffix(b.Name, "http.Server") {
						n++
						got := map[string]*Term{}
						for _, f := range b.Args {
							got[f.Name] = f.Args[0]
						}
						for _, f := range []string{"ReadTimeout", "WriteTimeout", "IdleTimeout"} {
							r.Check(positiveConst(got[f]), ruleF, fnMain+" | witness HTTP server "+f+" set", w.pos(g.Pos), "http.Server."+f+" of the witness API is not a positive constant")
						}
					}
				}
			}
		}
		if n == 0 {
			// fields may live in individual cells rather than a struct value
			r.Info(ruleF, fnMain+" | http.Server literal", "", "server struct not captured as a value on any path")
			ruleServerLiteralTimeouts(w, r, ruleF)
		}
	}
	// --- outbound client in cmd/omniwitness: Timeout from a flag whose default is a positive constant
	ruleClientTimeout(w, r, ruleF)
}

func positiveConst(t *Term) bool {
	if t == nil {
		return false
	}
	c, ok := constVal(t)
	return ok && c.Sign() > 0
}

// ruleServerLiteralTimeouts: AST fallback: the http.Server composite literal in Main has positive constant timeouts.
func ruleServerLiteralTimeouts(w *World, r *Run, rule string) {
	p := w.pkg(pOmni)
	found := false
	for _, f := range p.Syntax {
		ast.Inspect(f, func(n ast.Node) bool {
			cl, ok := n.(*ast.CompositeLit)
			if !ok {
				return true
			}
			tv, ok := p.TypesInfo.Types[cl]
			if !ok || typeStr(tv.Type) != "http.Server" {
				return true
			}
			found = true
			got := map[string]bool{}
			for _, el := range cl.Elts {
				kv, ok := el.(*ast.KeyValueExpr)
				if !ok {
					continue
				}
				if v, ok := p.TypesInfo.Types[kv.Value]; ok && v.Value != nil && constant.Sign(v.Value) > 0 {
					got[kv.Key.(*ast.Ident).Name] = true
				}
			}
			for _, fld := range []string{"ReadTimeout", "WriteTimeout", "IdleTimeout"} {
				r.Check(got[fld], rule, fnMain+" | witness HTTP server "+fld+" set", w.pos(cl.Pos()), "http.Server."+fld+" of the witness API is not a positive constant")
			}
			return true
		})
	}
	if !found {
		r.Undecided(rule, fnMain+" | http.Server literal", "", "not found")
	}
}

func ruleClientTimeout(w *World, r *Run, rule string) {
	mainPkg := modPath + "/cmd/omniwitness"
	p := w.pkg(mainPkg)
	if p == nil {
		r.Undecided(rule, mainPkg, "", "package not loaded")
		return
	}
	found := false
	for _, f := range p.Syntax {
		ast.Inspect(f, func(n ast.Node) bool {
			cl, ok := n.(*ast.CompositeLit)
			if !ok {
				return true
			}
			tv, ok := p.TypesInfo.Types[cl]
			if !ok || typeStr(tv.Type) != "http.Client" {
				return true
			}
			found = true
			okT := false
			for _, el := range cl.Elts {
				kv, ok := el.(*ast.KeyValueExpr)
				if !ok || kv.Key.(*ast.Ident).Name != "Timeout" {
					continue
				}
				if v, ok := p.TypesInfo.Types[kv.Value]; ok && v.Value != nil && constant.Sign(v.Value) > 0 {
					okT = true
				}
				// *flagVar where flagVar = flag.Duration(name, <positive constant>, usage)
				if st, ok := kv.Value.(*ast.StarExpr); ok {
					if id, ok := st.X.(*ast.Ident); ok {
						if obj := p.TypesInfo.Uses[id]; obj != nil {
							okT = flagDefaultPositive(p.Syntax, p.TypesInfo, obj)
						}
					}
				}
			}
			r.Check(okT, rule, mainPkg+" | outbound HTTP client has a timeout", w.pos(cl.Pos()), "the HTTP client used by feeders and distributor has no positive Timeout (a stalled log server hangs the cycle)")
			return true
		})
	}
	if !found {
		r.Undecided(rule, mainPkg+" | http.Client literal", "", "not found")
	}
}

func flagDefaultPositive(files []*ast.File, info *types.Info, obj types.Object) bool {
	res := false
	for _, f := range files {
		ast.Inspect(f, func(n ast.Node) bool {
			vs, ok := n.(*ast.ValueSpec)
			if !ok {
				return true
			}
			for i, name := range vs.Names {
				if info.Defs[name] != obj || i >= len(vs.Values) {
					continue
				}
				if call, ok := vs.Values[i].(*ast.CallExpr); ok && len(call.Args) >= 2 {
					if v, ok := info.Types[call.Args[1]]; ok && v.Value != nil && constant.Sign(v.Value) > 0 {
						res = true
					}
				}
			}
			return true
		})
	}
	return res
}

// ---------------------------------------------------------------- C18

func stringLiteralsIn(node ast.Node) map[string]bool {
	out := map[string]bool{}
	ast.Inspect(node, func(n ast.Node) bool {
		if bl, ok := n.(*ast.BasicLit); ok && bl.Kind == token.STRING {
			if s, err := strconv.Unquote(bl.Value); err == nil {
				out[s] = true
			}
		}
		return true
	})
	return out
}

func findFuncDecl(files []*ast.File, recv, name string) *ast.FuncDecl {
	for _, f := range files {
		for _, d := range f.Decls {
			fd, ok := d.(*ast.FuncDecl)
			if !ok || fd.Name.Name != name {
				continue
			}
			if recv == "" && fd.Recv == nil {
				return fd
			}
			if recv != "" && fd.Recv != nil && len(fd.Recv.List) == 1 {
				t := fd.Recv.List[0].Type
				if st, ok := t.(*ast.StarExpr); ok {
					t = st.X
				}
				if id, ok := t.(*ast.Ident); ok && id.Name == recv {
					return fd
				}
			}
		}
	}
	return nil
}

func ruleSumDBConstants(w *World, r *Run) {
	tl := w.pkg("golang.org/x/mod/sumdb/tlog")
	cp := w.pkg(pClient)
	if tl == nil || cp == nil {
		r.Undecided("C18.a", "packages", "", "tlog or client package not loaded")
		return
	}
	// ---- C18.b HEIGHT-COHERENT (sumdb feeder)
	sp := modPath + "/internal/feeder/sumdb"
	fp := w.pkg(sp)
	if fp == nil {
		r.Undecided("C18.b", sp, "", "package not loaded")
		return
	}
	// the tile height is whatever the tile reader reports to tlog (a constant)
	var h int64 = -1
	if hs, _, ok := explore(w, r, "C18.b", "("+sp+".tileReader).Height", 4, 1); ok {
		for _, s := range hs {
			if c, okc := constVal(s.Rets[0]); okc && c.IsInt64() {
				h = c.Int64()
			}
		}
	}
	if h <= 0 || h > 30 {
		r.Undecided("C18.b", sp+" tile height", "", "tileReader.Height() is not a positive constant")
		return
	}
	l := int64(1) << uint(h)
	if lp, _ := fp.Types.Scope().Lookup("leavesPerTile").(*types.Const); lp != nil {
		lv, _ := constant.Int64Val(lp.Val())
		r.Check(lv == l, "C18.b", sp+".leavesPerTile == 1 << tile height", w.pos(lp.Pos()), fmt.Sprintf("leavesPerTile=%d but the tile height is %d", lv, h))
	}
	if sums, _, ok := explore(w, r, "C18.b", "("+sp+".tileReader).Height", 4, 1); ok {
		for _, s := range sums {
			c, _ := constInt(s.Rets[0])
			r.Check(c == fmt.Sprint(h), "C18.b", sp+".tileReader.Height() == tileHeight", w.pos(s.RetPos), "tile reader reports height "+c+" to tlog, the client is built with "+fmt.Sprint(h))
		}
	}
	if sums, _, ok := exploreOpaque(w, r, "C18.b", sp+".FeedLog", 4, 1, fnRun, fnFeedOnce, pClient+".NewSumDB"); ok {
		n := 0
		for _, s := range sums {
			for _, ns := range calls(s, pClient+".NewSumDB") {
				n++
				c, _ := constInt(ns.Args[0])
				fn := w.fn(sp + ".FeedLog")
				good := c == fmt.Sprint(h) && ns.Args[1] == mk("field", "Verifier", 0, nil, paramN(fn, 1)) && ns.Args[2] == mk("field", "URL", 0, nil, paramN(fn, 1)) && ns.Args[3] == paramN(fn, 3)
				r.Check(good, "C18.b", sp+".FeedLog | client built with (tileHeight, the log's verifier, the log's URL, the HTTP client given)", w.pos(ns.Pos), "NewSumDB("+short(fmt.Sprint(ns.Args))+")")
			}
		}
		if n == 0 {
			r.Undecided("C18.b", sp+".FeedLog", "", "NewSumDB call not found")
		}
	}
	// ---- C18.a / C18.c on the composition ReadTiles ∘ client, by URL templates
	ruleTileAddressing(w, r, h)
	// pixel ReadTiles: tile/<H>/<L>/<NNN>[.p/<W>] of the requested tile, suffix iff t.W < 1<<t.H
	rulePixelTileURLs(w, r)
	// ---- C18.d PROVE-ARGS
	for _, fpn := range []string{"sumdb", "pixelbt"} {
		ff, okf := feederFuncs(w, r, "C18.d", fpn)
		if !okf {
			continue
		}
		n := 0
		for _, cl := range []*ssa.Function{ff.fetchProof} {
			sums, _, ok := exploreFn(w, r, "C18.d", cl, 1, 1)
			if !ok {
				continue
			}
			from, to := ff.from, ff.to
			fsz, tsz := mk("field", "Size", 0, tUint64, from), mk("field", "Size", 0, tUint64, to)
			for _, s := range sums {
				// a proof is returned without asking tlog only when the witness holds nothing (from.Size == 0)
				if len(s.Rets) == 2 && s.Rets[1].Kind == "nil" && len(calls(s, "golang.org/x/mod/sumdb/tlog.ProveTree")) == 0 {
					k, v, _ := eqConstFact(s, fsz, "0")
					r.Check(k && v, "C18.d", cl.String()+" | empty-proof shortcut only for from.Size == 0", w.pos(s.RetPos), "a proof is returned without tlog.ProveTree on a path that did not establish from.Size == 0 (e.g. from.Size <= 1): the witness then gets an empty proof for a real growth step")
				}
				for _, pv := range calls(s, "golang.org/x/mod/sumdb/tlog.ProveTree") {
					n++
					good := len(pv.Args) == 3 && pv.Args[0].Kind == "conv" && pv.Args[0].Args[0] == tsz && pv.Args[1].Kind == "conv" && pv.Args[1].Args[0] == fsz
					if good {
						rd := pv.Args[2]
						good = rd.Kind == "call" && rd.Name == "golang.org/x/mod/sumdb/tlog.TileHashReader"
						if good {
							tree := rd.Args[2]
							good = tree.Kind == "structval"
							if good {
								got := map[string]*Term{}
								for _, f := range tree.Args {
									got[f.Name] = f.Args[0]
								}
								nT, hT := got["N"], got["Hash"]
								good = nT != nil && nT.Kind == "conv" && nT.Args[0] == tsz && hT != nil && anySub(hT, func(t *Term) bool { return t == mk("field", "Hash", 0, nil, to) || (t.Kind == "out") })
							}
						}
					}
					r.Check(good, "C18.d", cl.String()+" | ProveTree(to.Size, from.Size, TileHashReader(Tree{N: to.Size, Hash: to.Hash}, reader))", w.pos(pv.Pos), "consistency proof requested with ("+short(fmt.Sprint(pv.Args))+")")
				}
			}
		}
		if n == 0 {
			r.Undecided("C18.d", fpn+".FeedLog", "", "no ProveTree call found")
		}
	}
}

func sortedSet(m map[string]bool) []string {
	var ks []string
	for k := range m {
		ks = append(ks, k)
	}
	sort.Strings(ks)
	return ks
}

// C18.e NO-MANUAL-ENCODING: production code that fetches from logs never sets Accept-Encoding itself. net/http
// decompresses transparently only when the header was left alone; a hand-set "gzip" hands the raw gzip stream to the
// tile/record parsers as soon as a server or CDN actually compresses.
func ruleNoManualEncoding(w *World, r *Run, rule string) {
	n, bad := 0, 0
	for _, fn := range w.prodFns() {
		for _, b := range fn.Blocks {
			for _, in := range b.Instrs {
				c, ok := in.(ssa.CallInstruction)
				if !ok {
					continue
				}
				sc := c.Common().StaticCallee()
				if sc == nil {
					continue
				}
				name := funcName(sc)
				if name != "(net/http.Header).Set" && name != "(net/http.Header).Add" {
					continue
				}
				n++
				args := c.Common().Args
				if len(args) < 3 {
					continue
				}
				key, isConst := constString(args[1])
				if !isConst {
					continue
				}
				if strings.EqualFold(key, "Accept-Encoding") {
					bad++
					r.Fail(rule, funcNameOrSSA(outermost(fn))+" | response decoding left to net/http", w.pos(in.Pos()), "the request sets Accept-Encoding by hand: net/http then returns compressed bodies undecoded, and tiles, checkpoints or proofs are parsed from a raw gzip stream whenever the server compresses")
				}
			}
		}
	}
	r.sites += n
	if bad == 0 {
		r.Pass(rule, "outbound requests | response decoding left to net/http", "", "")
	}
}

// configOnly: the SSA value is computed only from constants, fields of the method's receiver and package-level variables.
func configOnly(fn *ssa.Function, v ssa.Value, depth int) bool {
	if depth > 6 {
		return false
	}
	switch x := v.(type) {
	case *ssa.Const:
		return true
	case *ssa.Global:
		return true
	case *ssa.Parameter:
		return fn.Signature.Recv() != nil && len(fn.Params) > 0 && x == fn.Params[0]
	case *ssa.Convert:
		return configOnly(fn, x.X, depth+1)
	case *ssa.ChangeType:
		return configOnly(fn, x.X, depth+1)
	case *ssa.UnOp:
		return configOnly(fn, x.X, depth+1)
	case *ssa.FieldAddr:
		return configOnly(fn, x.X, depth+1)
	case *ssa.Field:
		return configOnly(fn, x.X, depth+1)
	case *ssa.BinOp:
		return configOnly(fn, x.X, depth+1) && configOnly(fn, x.Y, depth+1)
	case *ssa.Call:
		if b, ok := x.Call.Value.(*ssa.Builtin); ok && (b.Name() == "len" || b.Name() == "cap") && len(x.Call.Args) == 1 {
			return configOnly(fn, x.Call.Args[0], depth+1)
		}
	}
	return false
}

func isUnsignedTerm(t *Term) bool {
	if t == nil || t.Typ == nil {
		return false
	}
	b, ok := t.Typ.Underlying().(*types.Basic)
	return ok && b.Info()&types.IsUnsigned != 0
}

// sizeDerived: the term is computed from sizes of data already in memory: non-negative constants, len/cap, the counting
// and length-conversion functions of the standard library, min/max, sums and products by constants of such terms.
func sizeDerived(t *Term, depth int) bool {
	if t == nil || depth > 8 {
		return false
	}
	switch t.Kind {
	case "const":
		c, ok := constVal(t)
		return ok && c.Sign() >= 0
	case "len", "cap":
		return true
	case "conv":
		return len(t.Args) == 1 && sizeDerived(t.Args[0], depth+1)
	case "binop":
		if len(t.Args) != 2 {
			return false
		}
		switch t.Name {
		case "+", "*":
			return sizeDerived(t.Args[0], depth+1) && sizeDerived(t.Args[1], depth+1)
		}
		return false
	case "call":
		short := t.Name[strings.LastIndex(t.Name, ".")+1:]
		switch {
		case strings.HasSuffix(t.Name, "Encoding).EncodedLen"), strings.HasSuffix(t.Name, "Encoding).DecodedLen"), t.Name == "encoding/hex.EncodedLen", t.Name == "encoding/hex.DecodedLen":
			return len(t.Args) >= 3 && sizeDerived(t.Args[len(t.Args)-1], depth+1)
		case (calleePkg(t.Name) == "bytes" || calleePkg(t.Name) == "strings") && short == "Count":
			return true
		case t.Name == "builtin:min" || t.Name == "builtin:max":
			for _, a := range t.Args[2:] {
				if !sizeDerived(a, depth+1) {
					return false
				}
			}
			return true
		}
	}
	return false
}

// poolElementTypes: the static types of the values production code feeds into sync.Pools (returned by functions stored in a
// Pool's New field, passed to Put).
func poolElementTypes(w *World) map[string]bool {
	out := map[string]bool{}
	addIface := func(v ssa.Value) {
		if mi, ok := v.(*ssa.MakeInterface); ok {
			out[typeStr(mi.X.Type())] = true
		} else {
			out["?"+typeStr(v.Type())] = true
		}
	}
	for _, fn := range w.prodFns() {
		for _, b := range fn.Blocks {
			for _, in := range b.Instrs {
				switch x := in.(type) {
				case *ssa.Store:
					fa, ok := x.Addr.(*ssa.FieldAddr)
					if !ok || fieldOfAddr(fa).Name() != "New" || !strings.HasSuffix(typeStr(fa.X.Type()), "sync.Pool") {
						continue
					}
					var nf *ssa.Function
					switch f := x.Val.(type) {
					case *ssa.Function:
						nf = f
					case *ssa.MakeClosure:
						nf, _ = f.Fn.(*ssa.Function)
					}
					if nf == nil {
						out["?unknown New"] = true
						continue
					}
					for _, nb := range nf.Blocks {
						for _, ni := range nb.Instrs {
							if ret, ok := ni.(*ssa.Return); ok && len(ret.Results) == 1 {
								addIface(ret.Results[0])
							}
						}
					}
				case ssa.CallInstruction:
					if ssaCallName(x.Common()) == "(*sync.Pool).Put" && len(x.Common().Args) == 2 {
						addIface(x.Common().Args[1])
					}
				}
			}
		}
	}
	return out
}

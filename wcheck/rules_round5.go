package main

// Rules added after the fifth round of seeded changes. Each is a necessary condition read off a behaviour the earlier
// rules did not reach; all work on the resolved program (SSA values, resolved callees), none on names of unexported things.

import (
	"go/types"
	"strings"

	"golang.org/x/tools/go/ssa"
)

// ssaCallName: canonical name of a call's callee (static function, or interface method).
func ssaCallName(cc *ssa.CallCommon) string {
	if cc.IsInvoke() {
		name := ifaceMethodName(cc.Value.Type(), cc.Method)
		// a module interface that only narrows another one: named after the interface its values come from (devirt.go)
		if !knownIfaceMethods[name] && curWorld != nil {
			j := cc.Value.Type()
			for hop := 0; hop < 4; hop++ {
				from, conc := curWorld.ifaceFlow(j)
				if from != nil {
					if obj, _, _ := types.LookupFieldOrMethod(from, false, cc.Method.Pkg(), cc.Method.Name()); obj != nil {
						if mf, ok := obj.(*types.Func); ok {
							name = ifaceMethodName(from, mf)
							j = from
							continue
						}
					}
				}
				if conc != nil {
					if m := curWorld.prog.LookupMethod(conc, cc.Method.Pkg(), cc.Method.Name()); m != nil {
						name = funcName(m)
					}
				}
				break
			}
		}
		return name
	}
	if sc := cc.StaticCallee(); sc != nil {
		return funcName(sc)
	}
	if b, ok := cc.Value.(*ssa.Builtin); ok {
		return "builtin:" + b.Name()
	}
	return ""
}

func isByteSlice(t types.Type) bool {
	s, ok := t.Underlying().(*types.Slice)
	if !ok {
		return false
	}
	b, ok := s.Elem().Underlying().(*types.Basic)
	return ok && b.Kind() == types.Byte
}

// ruleWitnessBytesImmutable: the []byte a witness read or update hands out (the stored cosigned checkpoint — the in-memory
// store hands out the very slice it keeps) is never written through by the code that receives it: not the destination of
// copy, not indexed for a store, and not the base of an append onto one of its own prefixes (append(x[:i], …) overwrites
// x's backing array in place).
func ruleWitnessBytesImmutable(w *World, r *Run, rule string) {
	isSource := func(cc *ssa.CallCommon) bool {
		name := ssaCallName(cc)
		if name == "" {
			return false
		}
		short := name[strings.LastIndex(name, ".")+1:]
		switch short {
		case "GetLatestCheckpoint", "GetCheckpoint", "GetLatest", "Update":
		default:
			return false
		}
		sig := cc.Signature()
		return sig.Results().Len() == 2 && isByteSlice(sig.Results().At(0).Type()) && strings.Contains(name, modPath)
	}
	nSrc := 0
	for _, fn := range w.prodFns() {
		derived := map[ssa.Value]bool{}
		var order []ssa.Instruction
		for _, b := range fn.Blocks {
			order = append(order, b.Instrs...)
		}
		for pass := 0; pass < 3; pass++ {
			for _, in := range order {
				switch x := in.(type) {
				case *ssa.Call:
					if isSource(&x.Call) {
						derived[x] = true
						if pass == 0 {
							nSrc++
						}
					}
				case *ssa.Extract:
					if derived[x.Tuple] && x.Index == 0 {
						derived[x] = true
					}
				case *ssa.Slice:
					if derived[x.X] {
						derived[x] = true
					}
				case *ssa.Phi:
					for _, e := range x.Edges {
						if derived[e] {
							derived[x] = true
						}
					}
				case *ssa.UnOp:
					// a local variable holding it (spilled): *alloc after a store of a derived value
					if al, ok := x.X.(*ssa.Alloc); ok && derived[al] {
						derived[x] = true
					}
				case *ssa.Store:
					if al, ok := x.Addr.(*ssa.Alloc); ok && derived[x.Val] && isByteSlice(x.Val.Type()) {
						derived[al] = true
					}
				}
			}
		}
		if len(derived) == 0 {
			continue
		}
		for _, in := range order {
			key := funcNameOrSSA(outermost(fn)) + " | bytes handed out by the witness are not written through"
			switch x := in.(type) {
			case *ssa.Call:
				if b, ok := x.Call.Value.(*ssa.Builtin); ok {
					switch b.Name() {
					case "copy":
						if derived[x.Call.Args[0]] {
							r.Fail(rule, key, w.pos(x.Pos()), "copy() writes into the checkpoint bytes the witness handed out: with the in-memory store that is the stored checkpoint itself, and the witness's next read of it fails")
						}
					case "append":
						if sl, ok := x.Call.Args[0].(*ssa.Slice); ok && derived[sl.X] && isByteSlice(sl.Type()) {
							r.Fail(rule, key, w.pos(x.Pos()), "append onto a prefix of the checkpoint bytes the witness handed out overwrites them in place: with the in-memory store that corrupts the stored checkpoint, and the witness's own next verification fails")
						}
					}
				}
				// strconv.AppendUint(x[:0], …), fmt.Appendf(x[:0], …), AppendEncode(x[:0], …): the Append family writes into the
				// capacity of the slice it is handed
				if sc := x.Call.StaticCallee(); sc != nil && strings.HasPrefix(sc.Name(), "Append") && len(x.Call.Args) > 0 {
					a0 := x.Call.Args[0]
					if sc.Signature.Recv() != nil && len(x.Call.Args) > 1 {
						a0 = x.Call.Args[1]
					}
					if sl, ok := a0.(*ssa.Slice); ok && derived[sl.X] && isByteSlice(sl.Type()) {
						r.Fail(rule, key, w.pos(x.Pos()), short(funcName(sc))+" appends into a prefix of the checkpoint bytes the witness handed out: it overwrites them in place, and with the in-memory store that is the stored checkpoint")
					}
				}
			case *ssa.Store:
				if ia, ok := x.Addr.(*ssa.IndexAddr); ok && derived[ia.X] {
					r.Fail(rule, key, w.pos(x.Pos()), "a byte of the checkpoint the witness handed out is overwritten in place")
				}
			}
		}
	}
	if nSrc < 3 {
		r.Undecided(rule, "consumers of witness bytes", "", "fewer than three call sites receiving checkpoint bytes from a witness were found")
		return
	}
	r.Pass(rule, "bytes handed out by the witness are not written through | "+strings.TrimSpace(strings.Repeat(" ", 0))+"all consumers", "", "")
}

// ruleNoMemoisedStorageError: a storage implementation keeps no error value beyond the call that produced it (a field or
// package variable of type error written by a method): a latched error would make every later operation fail after the
// fault has cleared.
func ruleNoMemoisedStorageError(w *World, r *Run, rule string) {
	m := ifaceMethod(w, pPersist, "LogStatePersistence", "Init")
	pkgs := map[string]bool{}
	if m != nil {
		for _, f := range w.implementations(m) {
			if w.isProd(f) {
				pkgs[pkgPathOf(f)] = true
			}
		}
	}
	if len(pkgs) == 0 {
		r.Undecided(rule, "storage implementations", "", "none found")
		return
	}
	errT := types.Universe.Lookup("error").Type()
	bad := 0
	for _, fn := range w.prodFns() {
		if !pkgs[pkgPathOf(fn)] {
			continue
		}
		for _, b := range fn.Blocks {
			for _, in := range b.Instrs {
				st, ok := in.(*ssa.Store)
				if !ok || !types.Identical(st.Val.Type(), errT) {
					continue
				}
				switch a := st.Addr.(type) {
				case *ssa.Global:
					bad++
					r.Fail(rule, pkgPathOf(fn)+" | storage errors are not kept between calls", w.pos(st.Pos()), "an error is stored in package variable "+a.Name()+" in "+short(fn.String())+": once set, later operations keep failing after the fault has cleared")
				case *ssa.FieldAddr:
					if !baseIsLocalAlloc(a.X) {
						bad++
						r.Fail(rule, pkgPathOf(fn)+" | storage errors are not kept between calls", w.pos(st.Pos()), "an error is stored in a field of a long-lived value in "+short(fn.String())+": once set, later operations keep failing after the fault has cleared")
					}
				}
			}
		}
	}
	if bad == 0 {
		r.Pass(rule, "storage implementations | storage errors are not kept between calls", "", "")
	}
}

// ruleNoDetachedAnswer: the endpoint's answer is produced by the handler that did the work. net/http.TimeoutHandler answers
// 503 at its deadline while the wrapped handler keeps running — a request answered as refused would still be verified,
// cosigned and stored a moment later.
func ruleNoDetachedAnswer(w *World, r *Run, rule string) {
	bad := 0
	for _, fn := range w.prodFns() {
		for _, b := range fn.Blocks {
			for _, in := range b.Instrs {
				c, ok := in.(ssa.CallInstruction)
				if !ok {
					continue
				}
				if ssaCallName(c.Common()) == "net/http.TimeoutHandler" {
					bad++
					r.Fail(rule, funcNameOrSSA(outermost(fn))+" | no handler wrapper that answers while the handler is still running", w.pos(in.Pos()), "http.TimeoutHandler answers 503 at its deadline but lets the wrapped handler finish: the request is reported as refused and still takes effect afterwards")
				}
			}
		}
	}
	if bad == 0 {
		r.Pass(rule, "module | no handler wrapper that answers while the handler is still running", "", "")
	}
}

// ruleSharedStateInConfig: package-level maps and containers of the given packages are not written outside package
// initialisation / a sync.Once (ruleGlobals covers plain assignments; this covers updates through the variable).
func ruleGlobalContainers(w *World, r *Run, rule string, pkgs []string) {
	inPkgs := map[string]bool{}
	for _, p := range pkgs {
		inPkgs[p] = true
	}
	fromGlobal := func(v ssa.Value) *ssa.Global {
		for i := 0; i < 4; i++ {
			switch x := v.(type) {
			case *ssa.Global:
				return x
			case *ssa.UnOp:
				v = x.X
			case *ssa.FieldAddr:
				v = x.X
			case *ssa.IndexAddr:
				v = x.X
			default:
				return nil
			}
		}
		return nil
	}
	bad := 0
	for _, fn := range w.prodFns() {
		if fn.Name() == "init" && fn.Synthetic != "" || w.inOnce(fn) {
			continue
		}
		for _, b := range fn.Blocks {
			for _, in := range b.Instrs {
				var g *ssa.Global
				what := ""
				switch x := in.(type) {
				case *ssa.MapUpdate:
					g, what = fromGlobal(x.Map), "map update"
				case *ssa.Call:
					name := ssaCallName(&x.Call)
					if name == "builtin:delete" {
						g, what = fromGlobal(x.Call.Args[0]), "delete"
					}
					if strings.HasPrefix(name, "(*sync.Map).") && len(x.Call.Args) > 0 {
						switch name[strings.LastIndex(name, ".")+1:] {
						case "Store", "LoadOrStore", "Delete", "Swap", "CompareAndSwap", "LoadAndDelete":
							g, what = fromGlobal(x.Call.Args[0]), name
						}
					}
				case *ssa.Store:
					if ia, ok := x.Addr.(*ssa.IndexAddr); ok {
						g, what = fromGlobal(ia.X), "element store"
					}
					if fa, ok := x.Addr.(*ssa.FieldAddr); ok {
						g, what = fromGlobal(fa.X), "field store"
					}
				}
				if g == nil || g.Pkg == nil || !inPkgs[g.Pkg.Pkg.Path()] {
					continue
				}
				bad++
				r.Fail(rule, g.Pkg.Pkg.Path()+"."+g.Name()+" | not modified after initialisation", w.pos(in.Pos()), "package-level "+g.Name()+" is modified ("+what+") in "+short(fn.String())+": state that outlives the call (a second load in the same process sees what the first one left)")
			}
		}
	}
	if bad == 0 {
		r.Pass(rule, strings.Join(pkgs, ", ")+" | package-level containers not modified after initialisation", "", "")
	}
}

// ruleConfigSliceNotMutated: a function that is handed the list of configured logs does not reorder or overwrite it: the
// same backing array is handed to several components that run concurrently.
func ruleConfigSliceNotMutated(w *World, r *Run, rule string) {
	isLogSlice := func(t types.Type) bool {
		s, ok := t.Underlying().(*types.Slice)
		return ok && typeStr(s.Elem()) == "config.Log"
	}
	n, bad := 0, 0
	for _, fn := range w.prodFns() {
		params := map[ssa.Value]bool{}
		for _, p := range fn.Params {
			if isLogSlice(p.Type()) {
				params[p] = true
			}
		}
		// a parameter captured by a closure lives in a cell: loads of that cell are the parameter
		for _, b := range fn.Blocks {
			for _, in := range b.Instrs {
				if st, ok := in.(*ssa.Store); ok && params[st.Val] {
					if al, ok := st.Addr.(*ssa.Alloc); ok {
						for _, ref := range *al.Referrers() {
							if u, ok := ref.(*ssa.UnOp); ok && u.X == al {
								params[u] = true
							}
						}
					}
				}
			}
		}
		// fields of a configuration struct parameter (bastion.Config.Logs)
		for _, b := range fn.Blocks {
			for _, in := range b.Instrs {
				if f, ok := in.(*ssa.Field); ok && isLogSlice(f.Type()) {
					if _, isP := f.X.(*ssa.Parameter); isP {
						params[f] = true
					}
				}
				if u, ok := in.(*ssa.UnOp); ok && isLogSlice(u.Type()) {
					if fa, ok := u.X.(*ssa.FieldAddr); ok {
						if al, ok := fa.X.(*ssa.Alloc); ok {
							// spilled struct parameter
							for _, ref := range *al.Referrers() {
								if st, ok := ref.(*ssa.Store); ok && st.Addr == al {
									if _, isP := st.Val.(*ssa.Parameter); isP {
										params[u] = true
									}
								}
							}
						}
					}
				}
			}
		}
		if len(params) == 0 {
			continue
		}
		n++
		for _, b := range fn.Blocks {
			for _, in := range b.Instrs {
				key := funcNameOrSSA(outermost(fn)) + " | the configured log list it is handed is not modified"
				switch x := in.(type) {
				case *ssa.Store:
					if ia, ok := x.Addr.(*ssa.IndexAddr); ok && params[ia.X] {
						bad++
						r.Fail(rule, key, w.pos(x.Pos()), "an element of the caller's log list is overwritten")
					}
				case *ssa.Call:
					name := ssaCallName(&x.Call)
					switch name {
					case "sort.Slice", "sort.SliceStable", "sort.Sort", "sort.Stable", "slices.Sort", "slices.SortFunc", "slices.SortStableFunc", "slices.Reverse", "math/rand.Shuffle":
						for _, a := range x.Call.Args {
							v := a
							if mi, ok := v.(*ssa.MakeInterface); ok {
								v = mi.X
							}
							if params[v] {
								bad++
								r.Fail(rule, key, w.pos(x.Pos()), name+" reorders the caller's log list in place: the same backing array is handed to the other components (bastion endpoint, distributor) that read it concurrently")
							}
						}
					case "builtin:copy":
						if params[x.Call.Args[0]] {
							bad++
							r.Fail(rule, key, w.pos(x.Pos()), "copy() into the caller's log list")
						}
					}
				}
			}
		}
	}
	if n < 2 {
		r.Undecided(rule, "functions taking the configured log list", "", "fewer than two found")
		return
	}
	if bad == 0 {
		r.Pass(rule, "module | the configured log list handed to a component is not modified", "", "")
	}
}

// rulePooledBytesDontEscape: a buffer taken from a sync.Pool and put back by the same function (directly or by defer) must
// not hand out a view of its contents: bytes.Buffer.Bytes() (or a sub-slice of a pooled []byte) that is returned or stored
// aliases memory the next user of the pool overwrites — a checkpoint verified now reads differently a moment later.
func rulePooledBytesDontEscape(w *World, r *Run, rule string) {
	bad, nPools := 0, 0
	for _, fn := range w.prodFns() {
		pooled := map[ssa.Value]bool{}
		var order []ssa.Instruction
		for _, b := range fn.Blocks {
			order = append(order, b.Instrs...)
		}
		putsBack := false
		for pass := 0; pass < 3; pass++ {
			for _, in := range order {
				switch x := in.(type) {
				case *ssa.Call:
					switch ssaCallName(&x.Call) {
					case "(*sync.Pool).Get":
						pooled[x] = true
					case "(*bytes.Buffer).Bytes", "(*bytes.Buffer).Next", "(*bytes.Buffer).AvailableBuffer":
						if len(x.Call.Args) > 0 && pooled[x.Call.Args[0]] {
							pooled[x] = true
						}
					}
				case *ssa.TypeAssert:
					if pooled[x.X] {
						pooled[x] = true
					}
				case *ssa.Extract:
					if pooled[x.Tuple] {
						pooled[x] = true
					}
				case *ssa.Slice:
					if pooled[x.X] {
						pooled[x] = true
					}
				case *ssa.UnOp:
					if pooled[x.X] {
						pooled[x] = true // *(*[]byte) from a pool of slice pointers; a spilled local
					}
				case *ssa.Phi:
					for _, e := range x.Edges {
						if pooled[e] {
							pooled[x] = true
						}
					}
				case *ssa.Store:
					if al, ok := x.Addr.(*ssa.Alloc); ok && pooled[x.Val] {
						pooled[al] = true
					}
				}
			}
		}
		if len(pooled) == 0 {
			continue
		}
		nPools++
		for _, in := range order {
			var cc *ssa.CallCommon
			switch x := in.(type) {
			case *ssa.Call:
				cc = &x.Call
			case *ssa.Defer:
				cc = &x.Call
			}
			if cc != nil && ssaCallName(cc) == "(*sync.Pool).Put" {
				putsBack = true
			}
			// put back inside a deferred closure
			if d, ok := in.(*ssa.Defer); ok {
				if mc, ok := d.Call.Value.(*ssa.MakeClosure); ok {
					for _, b := range mc.Fn.(*ssa.Function).Blocks {
						for _, cin := range b.Instrs {
							if c, ok := cin.(ssa.CallInstruction); ok && ssaCallName(c.Common()) == "(*sync.Pool).Put" {
								putsBack = true
							}
						}
					}
				}
			}
		}
		if !putsBack {
			continue
		}
		for _, in := range order {
			key := funcNameOrSSA(outermost(fn)) + " | no view of a pooled buffer outlives its return to the pool"
			switch x := in.(type) {
			case *ssa.Return:
				for _, res := range x.Results {
					if pooled[res] && isByteSlice(res.Type()) {
						bad++
						r.Fail(rule, key, w.pos(x.Pos()), "the function returns a []byte view of a buffer it puts back into a sync.Pool: the next user of the pool overwrites the bytes the caller is still holding (a checkpoint that verified is no longer the one submitted or stored)")
					}
				}
			case *ssa.Store:
				if pooled[x.Val] && isByteSlice(x.Val.Type()) {
					if _, local := x.Addr.(*ssa.Alloc); !local {
						bad++
						r.Fail(rule, key, w.pos(x.Pos()), "a []byte view of a pooled buffer is stored where it outlives the buffer's return to the pool")
					}
				}
			}
		}
	}
	if bad == 0 {
		r.Pass(rule, "module | no view of a pooled buffer outlives its return to the pool", "", "")
	}
	_ = nPools
}

// ruleNoUnboundedClient: library code (everything the omniwitness assembles: internal/…, omniwitness/) performs its HTTP
// requests with the client it is handed — the operator's, which carries the configured time-out. A client it builds
// itself must take over a time-out (a Timeout field assigned, or a whole-value copy of the client it was handed);
// otherwise a peer that accepts the request and then stalls holds the cycle for ever.
func ruleNoUnboundedClient(w *World, r *Run, rule string) {
	bad := 0
	for _, fn := range w.prodFns() {
		pp := pkgPathOf(fn)
		if !(strings.HasPrefix(pp, modPath+"/internal/") || pp == pOmni) {
			continue
		}
		for _, b := range fn.Blocks {
			for _, in := range b.Instrs {
				al, ok := in.(*ssa.Alloc)
				if !ok {
					continue
				}
				pt, ok := al.Type().Underlying().(*types.Pointer)
				if !ok || typeStr(pt.Elem()) != "http.Client" {
					continue
				}
				bounded := false
				for _, ref := range *al.Referrers() {
					switch x := ref.(type) {
					case *ssa.FieldAddr:
						if fieldOfAddr(x) != nil && fieldOfAddr(x).Name() == "Timeout" {
							for _, fr := range *x.Referrers() {
								if st, ok := fr.(*ssa.Store); ok && st.Addr == x {
									if c, isC := st.Val.(*ssa.Const); !isC || (c.Value != nil && c.Int64() != 0) {
										bounded = true
									}
								}
							}
						}
					case *ssa.Store:
						if x.Addr == al {
							if _, isLoad := x.Val.(*ssa.UnOp); isLoad {
								bounded = true // cc := *c: a copy of a client it was given, time-out included
							}
						}
					}
				}
				if !bounded {
					bad++
					r.Fail(rule, funcNameOrSSA(outermost(fn))+" | an HTTP client built here carries a time-out", w.pos(al.Pos()), "an http.Client is built without a Timeout (and not as a copy of the client handed in): requests made with it are bounded by nothing when they run under a context without deadline, so a peer that stalls after accepting the request hangs the cycle")
				}
			}
		}
	}
	if bad == 0 {
		r.Pass(rule, "internal/…, omniwitness | no HTTP client without a time-out is built", "", "")
	}
}

// ruleCounterStateLocked: a type that implements monitoring.Counter and keeps state that its methods write (a value map,
// a cached child) touches that state — reads included — only inside a critical section on a mutex of the same value: after a
// Lock that dominates the access, and, when the unlock is explicit rather than deferred, before it. An increment that
// reads a field outside the section can land on whatever another goroutine's increment left there (another log's series).
func ruleCounterStateLocked(w *World, r *Run, rule string) {
	m := ifaceMethod(w, pMon, "Counter", "Inc")
	if m == nil {
		r.Undecided(rule, pMon+".Counter.Inc", "", "interface method not found")
		return
	}
	recvTypes := map[string]bool{}
	for _, f := range w.implementations(m) {
		if w.isProd(f) && f.Signature.Recv() != nil {
			recvTypes[typeStr(f.Signature.Recv().Type())] = true
		}
	}
	if len(recvTypes) < 2 {
		r.Undecided(rule, "implementations of monitoring.Counter", "", "fewer than two found")
		return
	}
	// methods of those types
	var methods []*ssa.Function
	for _, fn := range w.prodFns() {
		if fn.Signature.Recv() != nil && recvTypes[typeStr(fn.Signature.Recv().Type())] && len(fn.Params) > 0 {
			methods = append(methods, fn)
		}
	}
	recvField := func(fn *ssa.Function, v ssa.Value) *types.Var {
		fa, ok := v.(*ssa.FieldAddr)
		if !ok || fa.X != ssa.Value(fn.Params[0]) {
			return nil
		}
		return fieldOfAddr(fa)
	}
	// fields written by any method
	written := map[*types.Var]bool{}
	for _, fn := range methods {
		for _, b := range fn.Blocks {
			for _, in := range b.Instrs {
				switch x := in.(type) {
				case *ssa.Store:
					if f := recvField(fn, x.Addr); f != nil {
						written[f] = true
					}
				case *ssa.MapUpdate:
					if u, ok := x.Map.(*ssa.UnOp); ok {
						if f := recvField(fn, u.X); f != nil {
							written[f] = true
						}
					}
				}
			}
		}
	}
	isMutexOp := func(fn *ssa.Function, in ssa.Instruction, names ...string) bool {
		c, ok := in.(ssa.CallInstruction)
		if !ok {
			return false
		}
		n := ssaCallName(c.Common())
		for _, want := range names {
			if n == want && len(c.Common().Args) > 0 && recvField(fn, c.Common().Args[0]) != nil {
				return true
			}
		}
		return false
	}
	pos := func(b *ssa.BasicBlock, in ssa.Instruction) int {
		for i, x := range b.Instrs {
			if x == in {
				return i
			}
		}
		return -1
	}
	before := func(a, b ssa.Instruction) bool { // a strictly dominates b
		if a.Block() == b.Block() {
			return pos(a.Block(), a) < pos(b.Block(), b)
		}
		return a.Block().Dominates(b.Block())
	}
	n := 0
	for _, fn := range methods {
		var locks, unlocks []ssa.Instruction
		for _, b := range fn.Blocks {
			for _, in := range b.Instrs {
				if _, isDefer := in.(*ssa.Defer); !isDefer && isMutexOp(fn, in, "(*sync.Mutex).Lock", "(*sync.RWMutex).Lock", "(*sync.RWMutex).RLock") {
					locks = append(locks, in)
				}
				if _, isDefer := in.(*ssa.Defer); !isDefer && isMutexOp(fn, in, "(*sync.Mutex).Unlock", "(*sync.RWMutex).Unlock", "(*sync.RWMutex).RUnlock") {
					unlocks = append(unlocks, in)
				}
			}
		}
		for _, b := range fn.Blocks {
			for _, in := range b.Instrs {
				var f *types.Var
				switch x := in.(type) {
				case *ssa.Store:
					f = recvField(fn, x.Addr)
				case *ssa.UnOp:
					f = recvField(fn, x.X)
				}
				if f == nil || !written[f] {
					continue
				}
				n++
				held := false
				for _, l := range locks {
					if !before(l, in) {
						continue
					}
					released := false
					for _, u := range unlocks {
						if before(l, u) && before(u, in) {
							released = true
						}
					}
					if !released {
						held = true
					}
				}
				r.Check(held, rule, funcName(fn)+" | field "+f.Name()+" (written by the counter's methods) is touched only under the counter's lock", w.pos(in.Pos()), "field "+f.Name()+" is read or written in "+short(fn.String())+" outside a critical section, while other methods of the counter write it: two goroutines incrementing for different logs can move each other's series")
			}
		}
	}
	if n == 0 {
		r.Undecided(rule, "counter implementations", "", "no access to mutable counter state found (the inert counter's value map was expected)")
	}
}

// ruleDBFileOnlyThroughSQL: the location handed to sql.Open is not also handed to a file-system call that can truncate,
// replace or remove it (os.Create truncates; os.OpenFile with O_TRUNC, WriteFile, Remove, Rename, Truncate likewise): the
// durable state of every log lives there, and a process start must find what the last one committed.
func ruleDBFileOnlyThroughSQL(w *World, r *Run, rule string) {
	origin := func(v ssa.Value) ssa.Value {
		for i := 0; i < 4; i++ {
			switch x := v.(type) {
			case *ssa.UnOp:
				v = x.X
			case *ssa.Convert:
				v = x.X
			case *ssa.ChangeType:
				v = x.X
			default:
				return v
			}
		}
		return v
	}
	destructive := map[string]int{"os.Create": 0, "os.WriteFile": 0, "os.Remove": 0, "os.RemoveAll": 0, "os.Truncate": 0, "os.Rename": -1, "os.OpenFile": 0, "io/ioutil.WriteFile": 0, "os.Link": -1, "os.Symlink": -1}
	nOpen := 0
	for _, fn := range w.prodFns() {
		srcs := map[ssa.Value]bool{}
		for _, b := range fn.Blocks {
			for _, in := range b.Instrs {
				if c, ok := in.(ssa.CallInstruction); ok && ssaCallName(c.Common()) == "database/sql.Open" && len(c.Common().Args) == 2 {
					nOpen++
					srcs[origin(c.Common().Args[1])] = true
				}
			}
		}
		if len(srcs) == 0 {
			continue
		}
		for _, b := range fn.Blocks {
			for _, in := range b.Instrs {
				c, ok := in.(ssa.CallInstruction)
				if !ok {
					continue
				}
				name := ssaCallName(c.Common())
				idx, isD := destructive[name]
				if !isD {
					continue
				}
				for i, a := range c.Common().Args {
					if (idx == -1 || i == idx) && srcs[origin(a)] {
						if name == "os.OpenFile" && len(c.Common().Args) >= 2 {
							// only with a flag that can destroy content
							if k, isC := c.Common().Args[1].(*ssa.Const); isC && k.Value != nil && k.Int64()&(0x200|0x40) == 0 { // O_TRUNC|O_CREAT (linux)
								continue
							}
						}
						r.Fail(rule, funcNameOrSSA(outermost(fn))+" | the database location is touched only through database/sql", w.pos(in.Pos()), name+" is applied to the very location handed to sql.Open: it truncates, replaces or removes the file that holds every log's acknowledged checkpoint, so a restart forgets what was witnessed")
					}
				}
			}
		}
	}
	if nOpen == 0 {
		r.Undecided(rule, "database/sql.Open call sites", "", "none found in production code")
		return
	}
	r.Pass(rule, "module | the database location is touched only through database/sql", "", "")
}

// ruleFetchURLIsBasePlusPath: the client's HTTP fetcher asks for exactly <base URL><path>: the tile paths it is given are
// relative to the log's base URL (tlog.Tile.Path is), so the request URL must be the configured base followed by the path
// — not the path resolved as a reference against the base, which drops the base's own path for a path starting with "/".
func ruleFetchURLIsBasePlusPath(w *World, r *Run, rule string) {
	n := 0
	for _, name := range fetchMethods(w) {
		mi := strings.LastIndex(name, ").")
		if mi < 0 {
			continue
		}
		tn := name[strings.LastIndex(name[:mi], ".")+1 : mi]
		m := ifaceMethod(w, pClient, tn, name[mi+2:])
		if m == nil {
			continue
		}
		for _, f := range w.implementations(m) {
			if !w.isProd(f) || f.Synthetic != "" || pkgPathOf(f) != pClient {
				continue
			}
			e := w.engine(4, 1)
			sums := e.Explore(f)
			recv := recvParam(f)
			path := mk("param", f.Params[len(f.Params)-1].Name(), 0, f.Params[len(f.Params)-1].Type())
			for i := range sums {
				s := sums[i]
				pieceCtx = &sums[i]
				for _, ev := range s.Events {
					if ev.Kind != "call" {
						continue
					}
					var u *Term
					switch ev.Callee {
					case "(*net/http.Client).Get", "net/http.Get", "(*net/http.Client).Head":
						u = ev.Args[0]
					case "net/http.NewRequest":
						u = ev.Args[1]
					case "net/http.NewRequestWithContext":
						u = ev.Args[2]
					}
					if u == nil {
						continue
					}
					n++
					pcs := mergeLits(strPieces(u))
					good := len(pcs) == 2 && pcs[0].k == "str" && pcs[0].t != nil && recv != nil && mentions(pcs[0].t, recv) && pcs[0].t.Kind == "field" && pcs[1].k == "str" && pcs[1].t == path
					if !good && u.Kind == "call" && u.Name == "net/url.JoinPath" {
						good = true
					}
					r.Check(good, rule, funcName(f)+" | request URL is the configured base URL followed by the path", w.pos(ev.Pos), "the request URL is "+piecesString(pcs)+", not <base URL><path>: a path that starts with '/' resolved as a reference against the base loses the base URL's own path (a log served under a prefix is asked for /tile/… at the host root)")
				}
			}
			pieceCtx = nil
		}
	}
	if n == 0 {
		r.Undecided(rule, "HTTP fetcher of the client package", "", "no request built in an implementation of the fetch methods was found")
	}
}

// ruleRekorProofRequest: the Rekor feeder's consistency-proof request names the two sizes in the right roles and the
// tree (shard) the log is configured for: api/v1/log/proof?firstSize=<from.Size>&lastSize=<to.Size>&treeID=<configured
// tree>. Without treeID Rekor answers for the active shard: a log that is an inactive (frozen) shard never gets the proof
// to its final checkpoint.
func ruleRekorProofRequest(w *World, r *Run, rule string) {
	pkg := modPath + "/internal/feeder/rekor"
	n := 0
	for _, fn := range w.prodFns() {
		if pkgPathOf(fn) != pkg || fn.Signature.Params().Len() != 3 {
			continue
		}
		// the proof fetcher: func(ctx, from, to log.Checkpoint) ([][]byte, error), a closure or a method
		off := len(fn.Params) - 3
		if off < 0 || typeStr(fn.Params[off+1].Type()) != "log.Checkpoint" || typeStr(fn.Params[off+2].Type()) != "log.Checkpoint" {
			continue
		}
		from := mk("param", fn.Params[off+1].Name(), 0, fn.Params[off+1].Type())
		to := mk("param", fn.Params[off+2].Name(), 0, fn.Params[off+2].Type())
		e := w.engine(4, 1)
		sums := e.Explore(fn)
		for i := range sums {
			s := sums[i]
			pieceCtx = &sums[i]
			for _, ev := range s.Events {
				if ev.Kind != "call" || ev.Callee != "(*net/url.URL).Parse" || len(ev.Args) != 1 {
					continue
				}
				pcs := mergeLits(strPieces(ev.Args[0]))
				if len(pcs) == 0 || pcs[0].k != "lit" || !strings.Contains(pcs[0].lit, "log/proof") {
					continue
				}
				n++
				// value piece following each "<key>="
				val := map[string]*piece{}
				for j := 0; j+1 < len(pcs); j++ {
					if pcs[j].k != "lit" {
						continue
					}
					for _, k := range []string{"firstSize", "lastSize", "treeID"} {
						if strings.HasSuffix(pcs[j].lit, k+"=") && pcs[j+1].k != "lit" {
							p := pcs[j+1]
							val[k] = &p
						}
					}
				}
				sizeOf := func(c *Term) *Term { return mk("field", "Size", 0, nil, c) }
				good, why := true, ""
				switch {
				case val["firstSize"] == nil || val["firstSize"].t == nil || !mentions(val["firstSize"].t, sizeOf(from)):
					good, why = false, "firstSize is not the size of the checkpoint the witness holds (from.Size)"
				case val["lastSize"] == nil || val["lastSize"].t == nil || !mentions(val["lastSize"].t, sizeOf(to)):
					good, why = false, "lastSize is not the size of the checkpoint being submitted (to.Size)"
				case val["treeID"] == nil || val["treeID"].t == nil:
					good, why = false, "the request carries no treeID: Rekor then answers for its active shard, whichever log this feeder is configured for"
				}
				r.Check(good, rule, funcNameOrSSA(outermost(fn))+" | proof request names first size, last size and the configured tree", w.pos(ev.Pos), why+" (request "+piecesString(pcs)+")")
			}
		}
		pieceCtx = nil
	}
	if n == 0 {
		r.Undecided(rule, pkg+" | proof request", "", "no request for api/v1/log/proof found in a proof fetcher of the Rekor feeder")
	}
}

// ruleFeedLogFailsOnlyOnConfig: a feeder's FeedLog returns an error of its own (as opposed to the result of the feed loop
// or of the one-shot feed) only for what it can tell from its configuration. Main runs every feeder in one error group: an
// error returned because a start-up fetch met an unhealthy log front end would stop the HTTP server and every other
// feeder. So no path that returns such an error has fetched anything.
func ruleFeedLogFailsOnlyOnConfig(w *World, r *Run, rule string) {
	fr := feederRegistry(w)
	fetchNames := map[string]bool{}
	for _, n := range fetchMethods(w) {
		fetchNames[n] = true
	}
	n := 0
	for _, impl := range fr.impl {
		if impl == nil || impl.Kind != "func" {
			continue
		}
		fn := w.funcs[impl.Name]
		if fn == nil {
			fn = w.fn(impl.Name)
		}
		if fn == nil {
			continue
		}
		sums, _, ok := exploreOpaque(w, r, rule, funcName(fn), 5, 1, fnRun, fnFeedOnce)
		if !ok {
			continue
		}
		for _, s := range sums {
			if s.Panic || len(s.Rets) != 1 {
				continue
			}
			if len(calls(s, fnRun, fnFeedOnce)) > 0 {
				continue // the loop's or the one-shot feed's own result
			}
			if s.Rets[0].Kind == "nil" {
				continue
			}
			n++
			var io *Event
			for i := range s.Events {
				ev := s.Events[i]
				if ev.Kind != "call" || ev.AtExit {
					continue
				}
				isIO := false
				switch {
				case fetchNames[ev.Callee]:
					isIO = true
				case strings.HasPrefix(ev.Callee, "(*net/http.Client).") || ev.Callee == "net/http.Get" || ev.Callee == "net/http.Post" || ev.Callee == "os.ReadFile" || ev.Callee == "os.Open":
					isIO = true
				case ev.Callee == "dyn" && ev.Res != nil && ev.Res.Typ != nil:
					if tup, ok := ev.Res.Typ.(*types.Tuple); ok && tup.Len() == 2 && isByteSlice(tup.At(0).Type()) {
						isIO = true // a fetcher function value: (…) ([]byte, error)
					}
				}
				if isIO && io == nil {
					io = &s.Events[i]
				}
			}
			where := w.pos(s.RetPos)
			msg := ""
			if io != nil {
				msg = "FeedLog returns an error of its own after fetching (" + short(io.Callee) + " at " + w.pos(io.Pos) + "): a log whose front end is unhealthy at start-up takes the whole witness down through the error group, although nothing is wrong with the configuration"
			}
			r.Check(io == nil, rule, funcName(fn)+" | an error of FeedLog's own depends on configuration only", where, msg)
		}
	}
	if n < 3 {
		r.Undecided(rule, "FeedLog implementations", "", "fewer than three configuration-error returns found across the registered feeders")
	}
}

#!/bin/bash
# usage: confirm_mutants.sh <src-dir> <agent-worktree-prefix> <out-dir>
# Confirms each delivered mutant in a scratch worktree: (a) clean tree + demo passes, (b) mutant builds and passes the
# unedited suite, (c) mutant + demo fails. Writes <out-dir>/<id>-<n>.txt and prints one RESULT line each.
export GOFLAGS=-mod=mod GOPROXY=off GOSUMDB=off GOTOOLCHAIN=local
src=${1:-/tmp/mut/out}; prefix=${2:-/tmp/mut}; outd=${3:-/tmp/mut/confirm}
mkdir -p $outd
wt=$outd-wt
git -C /repo worktree remove --force $wt 2>/dev/null
git -C /repo worktree add -q $wt HEAD || exit 2
for d in $src/C*/[0-9]*; do
  [ -f $d/patch.diff ] && [ -f $d/meta.json ] || continue
  id=$(basename $(dirname $d)); n=$(basename $d); out=$outd/$id-$n.txt
  [ -f $out ] && grep -q "^RESULT" $out && continue
  ddir=$(PFX="$prefix/$id/" python3 -c "import json,os;print(json.load(open('$d/meta.json')).get('demo_dir','').replace(os.environ['PFX'],'').strip('/'))")
  (
  cd $wt && git checkout -q -- . && git clean -fdq
  demo=$(ls $d/demo*_test.go $d/demo*.go 2>/dev/null | head -1)
  echo "mutant $id/$n demo_dir=$ddir"
  cp $demo $wt/$ddir/zz_demo_test.go
  run_demo() { (cd $wt && timeout 600 go test -count=1 ./$ddir/ 2>&1 | tail -5); }
  echo "--- clean + demo"; a=$(run_demo); echo "$a"
  rm $wt/$ddir/zz_demo_test.go
  git apply $d/patch.diff || echo "APPLY FAILED"
  echo "--- mutant: build + suite"; b=$( (go build ./... && go test -count=1 ./... 2>&1 | grep -v "no test files") 2>&1 ); echo "$b"
  cp $demo $wt/$ddir/zz_demo_test.go
  echo "--- mutant + demo"; c=$(run_demo); echo "$c"
  rm -f $wt/$ddir/zz_demo_test.go; git checkout -q -- . ; git clean -fdq
  ok=yes
  echo "$a" | grep -q "^ok" || ok=no-clean-demo-does-not-pass
  echo "$b" | grep -qE "FAIL|cannot|error" && ok=no-suite-fails
  echo "$c" | grep -qE "^(FAIL|---.FAIL|panic)" || { [ $ok = yes ] && ok=no-demo-does-not-fail-on-mutant; }
  echo "RESULT $id/$n confirmed=$ok"
  ) > $out 2>&1
  tail -1 $out
done
git -C /repo worktree remove --force $wt

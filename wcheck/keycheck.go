package main

import (
	f_log "github.com/transparency-dev/formats/log"
	f_note "github.com/transparency-dev/formats/note"
)

// parseLogKey parses a configured public key exactly the way production code does
// (config.NewLog and LogConfig.AsLogMap both call formats/note.NewVerifier; rule C12.c/C02.c check that).
func parseLogKey(pk string) (name string, err error) {
	v, err := f_note.NewVerifier(pk)
	if err != nil {
		return "", err
	}
	return v.Name(), nil
}

func logIDOf(origin string) string { return f_log.ID(origin) }
